(* Lemmas about Model/SvgBuild.v (C01, C03): the depth counter of parse_xml_node makes the fuel
   adequate, the node counter bounds every intermediate tree, the depth bound is never exceeded by
   more than one step. *)
From Coq Require Import ZArith NArith List Bool Lia.
From RV Require Import Gen.Consts Gen.LinkGuards Model.SvgBuild.
Import ListNotations.
Local Open Scope Z_scope.

Definition max_step : Z := Z.max (Z.max KID_DEPTH_STEP USE_DEPTH_STEP) TEXT_DEPTH_STEP.

Section Limits.
Variable dl nl : Z.

(* what holds of the counters in every state *)
Definition binv (C : Z) (s : bstate) : Prop := b_maxdepth s <= dl + max_step /\ b_count s <= C.

Lemma bkids_inv C rec :
  (forall k s, binv C s -> binv C (fst (rec k s)) /\ snd (rec k s) <> OOut) ->
  forall l s, binv C s -> binv C (fst (bkids rec l s)) /\ snd (bkids rec l s) <> OOut.
Proof.
  intro H. induction l as [|k r IH]; intros s Hs; cbn [bkids]; [split; [exact Hs|discriminate]|].
  destruct (H k s Hs) as [H1 H2]. destruct (rec k s) as [s1 [a| |]]; cbn [fst snd] in *;
    [|split; [exact H1|discriminate]|congruence].
  destruct (IH s1 H1) as [H3 H4]. destruct (bkids rec r s1) as [s2 [b| |]]; cbn [fst snd] in *;
    [split; [exact H3|discriminate]|split; [exact H3|discriminate]|congruence].
Qed.

Lemma btext_inv C : nl + 1 <= C -> 0 <= dl ->
  forall fuel x depth st,
  dl < Z.of_nat fuel + depth -> depth <= dl + max_step -> binv C st ->
  binv C (fst (btext dl nl fuel x depth st)) /\ snd (btext dl nl fuel x depth st) <> OOut.
Proof.
  intros HC Hdl. induction fuel as [|f IH]; intros x depth st Hfuel Hdepth [Hmd Hcnt].
  - cbn [btext]. change G_TEXT_DEPTH with true. cbn [andb].
    assert (depth >? dl = true) as -> by (apply Z.gtb_lt; lia).
    cbn [fst snd]. split; [|discriminate]. split; cbn [note_depth b_maxdepth b_count]; lia.
  - cbn [btext]. change G_TEXT_DEPTH with true. cbn [andb].
    assert (Hnote : binv C (note_depth st depth)) by (split; cbn [note_depth b_maxdepth b_count]; lia).
    destruct (depth >? dl) eqn:Ed; [split; [exact Hnote|discriminate]|].
    rewrite Z.gtb_ltb in Ed. apply Z.ltb_ge in Ed.
    assert (Hstep : 1 <= TEXT_DEPTH_STEP <= max_step) by (unfold max_step, KID_DEPTH_STEP, USE_DEPTH_STEP, TEXT_DEPTH_STEP; lia).
    apply bkids_inv; [|exact Hnote]. intros k s Hs.
    destruct (xtag k); try (split; [exact Hs|discriminate]).
    change G_NODES_BEFORE_APPEND with true. cbn [andb].
    destruct (b_count s >? nl) eqn:En; [split; [exact Hs|discriminate]|].
    rewrite Z.gtb_ltb in En. apply Z.ltb_ge in En.
    assert (Hb : binv C (bump s)) by (destruct Hs; split; cbn [bump b_maxdepth b_count]; lia).
    destruct (IH k (depth + TEXT_DEPTH_STEP) (bump s)) as [H1 H2]; [lia|lia|exact Hb|].
    destruct (btext dl nl f k (depth + TEXT_DEPTH_STEP) (bump s)) as [s2 [ks| |]]; cbn [fst snd] in *;
      (split; [exact H1|congruence]).
Qed.

Lemma bnode_inv C : nl + 1 <= C -> 0 <= dl ->
  forall fuel doc x origin ig depth st,
  dl < Z.of_nat fuel + depth -> depth <= dl + max_step -> binv C st ->
  binv C (fst (bnode dl nl fuel doc x origin ig depth st)) /\
  snd (bnode dl nl fuel doc x origin ig depth st) <> OOut.
Proof.
  intros HC Hdl. induction fuel as [|f IH]; intros doc x origin ig depth st Hfuel Hdepth [Hmd Hcnt].
  - cbn [bnode]. change G_DEPTH_FIRST with true. cbn [andb].
    assert (depth >? dl = true) as -> by (apply Z.gtb_lt; lia).
    cbn [fst snd]. split; [|discriminate]. split; cbn [note_depth b_maxdepth b_count]; lia.
  - cbn [bnode]. change G_DEPTH_FIRST with true. cbn [andb].
    assert (Hnote : binv C (note_depth st depth)) by (split; cbn [note_depth b_maxdepth b_count]; lia).
    destruct (depth >? dl) eqn:Ed; [split; [exact Hnote|discriminate]|].
    rewrite Z.gtb_ltb in Ed. apply Z.ltb_ge in Ed.
    assert (Hstep1 : 1 <= KID_DEPTH_STEP <= max_step) by (unfold max_step, KID_DEPTH_STEP, USE_DEPTH_STEP, TEXT_DEPTH_STEP; lia).
    assert (Hstep2 : 1 <= USE_DEPTH_STEP <= max_step) by (unfold max_step, KID_DEPTH_STEP, USE_DEPTH_STEP, TEXT_DEPTH_STEP; lia).
    assert (Hstep3 : 1 <= TEXT_DEPTH_STEP <= max_step) by (unfold max_step, KID_DEPTH_STEP, USE_DEPTH_STEP, TEXT_DEPTH_STEP; lia).
    change G_NODES_BEFORE_APPEND with true. cbn [andb].
    assert (Hbump : b_count (note_depth st depth) >? nl = false -> binv C (bump (note_depth st depth))).
    { intro E. rewrite Z.gtb_ltb in E. apply Z.ltb_ge in E. cbn [note_depth b_count] in E. split; cbn [bump note_depth b_maxdepth b_count]; lia. }
    assert (Hkids : forall s, binv C s ->
              binv C (fst (bkids (fun k s0 => bnode dl nl f doc k origin ig (depth + KID_DEPTH_STEP) s0) (xkids x) s)) /\
              snd (bkids (fun k s0 => bnode dl nl f doc k origin ig (depth + KID_DEPTH_STEP) s0) (xkids x) s) <> OOut).
    { apply bkids_inv. intros k s Hs. apply IH; [lia|lia|exact Hs]. }
    assert (Hgen : b_count (note_depth st depth) >? nl = false ->
              forall (tag : tagk) (mk : tagk -> list snode -> snode),
              let r := match bkids (fun k s0 => bnode dl nl f doc k origin ig (depth + KID_DEPTH_STEP) s0) (xkids x)
                               (bump (note_depth st depth)) with
                       | (st2, OOk ks) => (st2, OOk [mk tag ks])
                       | (st2, e) => (st2, e)
                       end in
              binv C (fst r) /\ snd r <> (OOut : outcome (list snode))).
    { intros E tag mk. destruct (Hkids _ (Hbump E)) as [H1 H2].
      destruct (bkids _ (xkids x) (bump (note_depth st depth))) as [s2 [ks| |]]; cbn [fst snd] in *;
        (split; [exact H1|congruence]). }
    destruct (xtag x) eqn:Et; try (split; [exact Hnote|discriminate]);
      (destruct (b_count (note_depth st depth) >? nl) eqn:En; [split; [exact Hnote|discriminate]|]);
      try (exact (Hgen eq_refl _ (fun tg ks => SN (b_next (note_depth st depth)) tg (if ig then None else xname x) (xflag x) (xattrs x) ks)));
      try (split; [exact (Hbump eq_refl)|discriminate]).
    (* text *)
    all: try (destruct (btext_inv C HC Hdl f x (depth + TEXT_DEPTH_STEP) (bump (note_depth st depth))) as [H1 H2];
              [lia|lia|exact (Hbump eq_refl)|];
              destruct (btext dl nl f x (depth + TEXT_DEPTH_STEP) (bump (note_depth st depth))) as [s2 [ks| |]];
              cbn [fst snd] in *; (split; [exact H1|congruence])).
    (* use *)
    destruct (resolve_href doc x) as [link|]; [|split; [exact (Hbump eq_refl)|discriminate]].
    destruct (use_skipped doc x origin link); [split; [exact (Hbump eq_refl)|discriminate]|].
    destruct (IH doc link (Some (xuid x)) true (depth + USE_DEPTH_STEP) (bump (note_depth st depth))) as [H1 H2];
      [lia|lia|exact (Hbump eq_refl)|].
    destruct (bnode dl nl f doc link (Some (xuid x)) true (depth + USE_DEPTH_STEP) (bump (note_depth st depth)))
      as [s2 [ks| |]]; cbn [fst snd] in *; (split; [exact H1|congruence]).
Qed.
End Limits.

Lemma build_inv doc :
  snd (build doc) <> OOut /\
  b_maxdepth (fst (build doc)) <= DEPTH_LIMIT + max_step /\
  b_count (fst (build doc)) <= NODES_LIMIT + 1.
Proof.
  unfold build, build_with.
  pose proof (bnode_inv DEPTH_LIMIT NODES_LIMIT (NODES_LIMIT + 1) ltac:(lia) ltac:(unfold DEPTH_LIMIT; lia)
                build_fuel doc doc None false 0 bstate0) as H.
  destruct H as [[H1 H2] H3].
  - unfold build_fuel. rewrite Nat2Z.inj_add, Z2Nat.id by (unfold DEPTH_LIMIT; lia). lia.
  - unfold max_step, DEPTH_LIMIT, KID_DEPTH_STEP, USE_DEPTH_STEP, TEXT_DEPTH_STEP. lia.
  - split; unfold bstate0; cbn [b_maxdepth b_count]; unfold max_step, DEPTH_LIMIT, KID_DEPTH_STEP, USE_DEPTH_STEP, TEXT_DEPTH_STEP, NODES_LIMIT; lia.
  - destruct (bnode DEPTH_LIMIT NODES_LIMIT build_fuel doc doc None false 0 bstate0)
      as [s [ks| |]]; cbn [fst snd] in *; repeat split; try assumption; congruence.
Qed.

(* ------------------------------------------------------------------------------------------ *)
(* inversion of successful calls; plain shapes survive the construction                         *)
(* ------------------------------------------------------------------------------------------ *)
Definition no_links (a : attrs) : Prop := Forall (fun kv => snd kv = None) a.

Section Inv.
Variable dl nl : Z.

Lemma bkids_ok_in rec : forall l st st' out,
  bkids rec l st = (st', OOk out) ->
  forall k, In k l -> exists s s1 a, rec k s = (s1, OOk a) /\ incl a out.
Proof.
  induction l as [|k0 r IH]; intros st st' out H k Hk; [destruct Hk|].
  cbn [bkids] in H. destruct (rec k0 st) as [s1 [a| |]] eqn:E0; try discriminate.
  destruct (bkids rec r s1) as [s2 [b| |]] eqn:Er; try discriminate.
  injection H as <- <-. destruct Hk as [<-|Hk].
  - exists st, s1, a. split; [exact E0|]. apply incl_appl, incl_refl.
  - destruct (IH s1 s2 b Er k Hk) as (s & s1' & a' & He & Hi). exists s, s1', a'. split; [exact He|].
    apply incl_appr, Hi.
Qed.

Lemma bnode_ok_container fuel doc x origin ig depth st st' out :
  xtag x = TSvg \/ xtag x = TG ->
  bnode dl nl fuel doc x origin ig depth st = (st', OOk out) ->
  exists f id st1 ks',
    fuel = S f /\
    out = [SN id (xtag x) (if ig then None else xname x) (xflag x) (xattrs x) ks'] /\
    bkids (fun k s => bnode dl nl f doc k origin ig (depth + KID_DEPTH_STEP) s) (xkids x) st1 = (st', OOk ks').
Proof.
  intros Ht H. destruct fuel as [|f]; cbn [bnode] in H.
  - destruct (G_DEPTH_FIRST && (depth >? dl)); discriminate.
  - destruct (G_DEPTH_FIRST && (depth >? dl)); [discriminate|].
    destruct Ht as [Ht|Ht]; rewrite Ht in H |- *;
      (destruct (G_NODES_BEFORE_APPEND && (b_count (note_depth st depth) >? nl)); [discriminate|]);
      (destruct (bkids _ (xkids x) (bump (note_depth st depth))) as [s2 [ks'| |]] eqn:Ek; try discriminate);
      injection H as <- <-; exists f, (b_next (note_depth st depth)), (bump (note_depth st depth)), ks';
      repeat split; exact Ek.
Qed.

Lemma bnode_ok_shape fuel doc x origin ig depth st st' out :
  xtag x = TShape ->
  bnode dl nl fuel doc x origin ig depth st = (st', OOk out) ->
  exists id ks', out = [SN id TShape (if ig then None else xname x) (xflag x) (xattrs x) ks'].
Proof.
  intros Ht H. destruct fuel as [|f]; cbn [bnode] in H.
  - destruct (G_DEPTH_FIRST && (depth >? dl)); discriminate.
  - destruct (G_DEPTH_FIRST && (depth >? dl)); [discriminate|].
    rewrite Ht in H.
    destruct (G_NODES_BEFORE_APPEND && (b_count (note_depth st depth) >? nl)); [discriminate|].
    destruct (bkids _ (xkids x) (bump (note_depth st depth))) as [s2 [ks'| |]] eqn:Ek; try discriminate.
    injection H as <- <-. eexists _, ks'. reflexivity.
Qed.
End Inv.

(* ------------------------------------------------------------------------------------------ *)
(* outside the known class (no re-entered use expansion) the expansion has finite depth         *)
(* ------------------------------------------------------------------------------------------ *)
Definition not_depth_fail (o : outcome (list snode)) : Prop := o <> OErr EDepth /\ o <> OOut.

Lemma bkids_not_depth rec : forall l st,
  (forall k s, In k l -> not_depth_fail (snd (rec k s))) -> not_depth_fail (snd (bkids rec l st)).
Proof.
  induction l as [|k r IH]; intros st H; cbn [bkids]; [split; discriminate|].
  pose proof (H k st (or_introl eq_refl)) as Hk.
  destruct (rec k st) as [s1 [a|e|]]; cbn [snd] in *; [|exact Hk|exact Hk].
  assert (Hr : not_depth_fail (snd (bkids rec r s1))) by (apply IH; intros k0 s Hk0; apply H; right; exact Hk0).
  destruct (bkids rec r s1) as [s2 [b|e|]]; cbn [snd] in *; [split; discriminate|exact Hr|exact Hr].
Qed.

Lemma utext_false_finite dl nl : forall fuel x,
  utext fuel x = false ->
  forall depth st, depth + max_step * Z.of_nat fuel <= dl ->
  not_depth_fail (snd (btext dl nl fuel x depth st)).
Proof.
  assert (Hms : max_step = 2) by reflexivity. rewrite Hms in *.
  assert (Hstep : 1 <= TEXT_DEPTH_STEP <= 2) by (unfold TEXT_DEPTH_STEP; lia).
  induction fuel as [|f IH]; intros x Hu depth st Hd; [discriminate|].
  rewrite Nat2Z.inj_succ in Hd. cbn [utext] in Hu. cbn [btext].
  assert (Ed : depth >? dl = false) by (rewrite Z.gtb_ltb; apply Z.ltb_ge; lia).
  rewrite Ed, andb_false_r.
  apply bkids_not_depth. intros k s Hk.
  destruct (xtag k) eqn:Et; try (split; discriminate).
  destruct (G_NODES_BEFORE_APPEND && (b_count s >? nl)); [split; discriminate|].
  assert (Hk' : utext f k = false).
  { destruct (utext f k) eqn:E; [|reflexivity].
    assert (existsb (fun k => match xtag k with TTspan => utext f k | _ => false end) (xkids x) = true) as Ht
      by (apply existsb_exists; exists k; split; [exact Hk|rewrite Et; exact E]). congruence. }
  assert (Hr : not_depth_fail (snd (btext dl nl f k (depth + TEXT_DEPTH_STEP) (bump s)))) by (apply IH; [exact Hk'|lia]).
  destruct (btext dl nl f k (depth + TEXT_DEPTH_STEP) (bump s)) as [s2 [ks|e|]]; cbn [snd] in *;
    [split; discriminate|exact Hr|exact Hr].
Qed.

Lemma uloop_false_finite dl nl doc : forall fuel path x origin,
  uloop fuel doc path x origin = false ->
  forall ig depth st, depth + max_step * Z.of_nat fuel <= dl ->
  not_depth_fail (snd (bnode dl nl fuel doc x origin ig depth st)).
Proof.
  assert (Hstep1 : 1 <= KID_DEPTH_STEP <= max_step) by (unfold max_step, KID_DEPTH_STEP, USE_DEPTH_STEP, TEXT_DEPTH_STEP; lia).
  assert (Hstep2 : 1 <= USE_DEPTH_STEP <= max_step) by (unfold max_step, KID_DEPTH_STEP, USE_DEPTH_STEP, TEXT_DEPTH_STEP; lia).
  assert (Hstep3 : 1 <= TEXT_DEPTH_STEP <= max_step) by (unfold max_step, KID_DEPTH_STEP, USE_DEPTH_STEP, TEXT_DEPTH_STEP; lia).
  pose proof (utext_false_finite dl nl) as Htext.
  assert (Hms : max_step = 2) by reflexivity. rewrite Hms in *.
  induction fuel as [|f IH]; intros path x origin Hu ig depth st Hd; [discriminate|].
  rewrite Nat2Z.inj_succ in Hd.
  cbn [uloop] in Hu. cbn [bnode].
  assert (Ed : depth >? dl = false) by (rewrite Z.gtb_ltb; apply Z.ltb_ge; lia).
  rewrite Ed, andb_false_r.
  assert (Hkids : forall tg, existsb (fun k => uloop f doc path k origin) (xkids x) = false ->
            forall mk : tagk -> list snode -> snode,
            not_depth_fail (snd (match bkids (fun k s => bnode dl nl f doc k origin ig (depth + KID_DEPTH_STEP) s) (xkids x)
                                             (bump (note_depth st depth)) with
                                 | (st2, OOk ks) => (st2, OOk [mk tg ks])
                                 | (st2, e) => (st2, e)
                                 end))).
  { intros tg He mk.
    assert (Hb : not_depth_fail (snd (bkids (fun k s => bnode dl nl f doc k origin ig (depth + KID_DEPTH_STEP) s) (xkids x)
                                            (bump (note_depth st depth))))).
    { apply bkids_not_depth. intros k s Hk. apply (IH path); [|lia].
      destruct (uloop f doc path k origin) eqn:E; [|reflexivity].
      assert (existsb (fun k => uloop f doc path k origin) (xkids x) = true) as Ht
        by (apply existsb_exists; exists k; split; assumption). congruence. }
    destruct (bkids _ (xkids x) (bump (note_depth st depth))) as [s2 [ks|e|]]; cbn [snd] in *;
      [split; discriminate|exact Hb|exact Hb]. }
  destruct (xtag x) eqn:Et; try (split; discriminate);
    (destruct (G_NODES_BEFORE_APPEND && (b_count (note_depth st depth) >? nl)); [split; discriminate|]);
    try (exact (Hkids _ Hu (fun tg ks => SN (b_next (note_depth st depth)) tg (if ig then None else xname x) (xflag x) (xattrs x) ks)));
    try (split; discriminate).
  (* text *)
  all: try (assert (Ht : not_depth_fail (snd (btext dl nl f x (depth + TEXT_DEPTH_STEP) (bump (note_depth st depth)))))
              by (apply Htext; [exact Hu|lia]);
            destruct (btext dl nl f x (depth + TEXT_DEPTH_STEP) (bump (note_depth st depth))) as [s2 [ks|e|]]; cbn [snd] in *;
            [split; discriminate|exact Ht|exact Ht]).
  (* use *)
  destruct (resolve_href doc x) as [link|]; [|split; discriminate].
  destruct (use_skipped doc x origin link); [split; discriminate|].
  destruct (existsb (state_eqb (xuid link, Some (xuid x))) path); [discriminate|].
  assert (Hl : not_depth_fail (snd (bnode dl nl f doc link (Some (xuid x)) true (depth + USE_DEPTH_STEP) (bump (note_depth st depth)))))
    by (apply (IH _ _ _ Hu); lia).
  destruct (bnode dl nl f doc link (Some (xuid x)) true (depth + USE_DEPTH_STEP) (bump (note_depth st depth)))
    as [s2 [ks|e|]]; cbn [snd] in *; [split; discriminate|exact Hl|exact Hl].
Qed.

(* with a depth limit proportional to the fuel of the loop detector, a document outside the class is
   never rejected for its depth, whatever the node limit is *)
Lemma no_use_loop_finite doc nl : use_loop doc = false ->
  let F := loop_fuel doc in
  match snd (build_with (max_step * Z.of_nat F) nl F doc) with
  | OErr EDepth | OOut => False
  | _ => True
  end.
Proof.
  intros Hu F. unfold build_with.
  pose proof (uloop_false_finite (max_step * Z.of_nat F) nl doc F [] doc None Hu false 0
                bstate0) as H.
  destruct (bnode (max_step * Z.of_nat F) nl F doc doc None false 0 bstate0)
    as [s [ks|e|]]; cbn [snd] in *; [exact I| |].
  - destruct H as [H _]; [lia|]. destruct e; [congruence|exact I].
  - destruct H as [_ H]; [lia|]. congruence.
Qed.
