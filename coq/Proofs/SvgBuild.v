(* Lemmas about Model/SvgBuild.v (C01, C03): the depth counter of parse_xml_node makes the fuel
   adequate, the node counter bounds every intermediate tree, the depth bound is never exceeded by
   more than one step. *)
From Coq Require Import ZArith NArith List Bool Lia.
From RV Require Import Gen.Consts Gen.LinkGuards Model.SvgBuild.
Import ListNotations.
Local Open Scope Z_scope.

Definition max_step : Z := Z.max (Z.max KID_DEPTH_STEP USE_DEPTH_STEP) TEXT_DEPTH_STEP.

Section Limits.
Variable dl nl : Z.

(* what holds of the counters in every state *)
Definition binv (C : Z) (s : bstate) : Prop := b_maxdepth s <= dl + max_step /\ b_count s <= C.

Lemma bkids_inv C rec :
  (forall k s, binv C s -> binv C (fst (rec k s)) /\ snd (rec k s) <> OOut) ->
  forall l s, binv C s -> binv C (fst (bkids rec l s)) /\ snd (bkids rec l s) <> OOut.
Proof.
  intro H. induction l as [|k r IH]; intros s Hs; cbn [bkids]; [split; [exact Hs|discriminate]|].
  destruct (H k s Hs) as [H1 H2]. destruct (rec k s) as [s1 [a| |]]; cbn [fst snd] in *;
    [|split; [exact H1|discriminate]|congruence].
  destruct (IH s1 H1) as [H3 H4]. destruct (bkids rec r s1) as [s2 [b| |]]; cbn [fst snd] in *;
    [split; [exact H3|discriminate]|split; [exact H3|discriminate]|congruence].
Qed.

Lemma btext_inv C : nl + 1 <= C -> 0 <= dl ->
  forall fuel x depth st,
  dl < Z.of_nat fuel + depth -> depth <= dl + max_step -> binv C st ->
  binv C (fst (btext dl nl fuel x depth st)) /\ snd (btext dl nl fuel x depth st) <> OOut.
Proof.
  intros HC Hdl. induction fuel as [|f IH]; intros x depth st Hfuel Hdepth [Hmd Hcnt].
  - cbn [btext]. change G_TEXT_DEPTH with true. cbn [andb].
    assert (depth >? dl = true) as -> by (apply Z.gtb_lt; lia).
    cbn [fst snd]. split; [|discriminate]. split; cbn [note_depth b_maxdepth b_count]; lia.
  - cbn [btext]. change G_TEXT_DEPTH with true. cbn [andb].
    assert (Hnote : binv C (note_depth st depth)) by (split; cbn [note_depth b_maxdepth b_count]; lia).
    destruct (depth >? dl) eqn:Ed; [split; [exact Hnote|discriminate]|].
    rewrite Z.gtb_ltb in Ed. apply Z.ltb_ge in Ed.
    assert (Hstep : 1 <= TEXT_DEPTH_STEP <= max_step) by (unfold max_step, KID_DEPTH_STEP, USE_DEPTH_STEP, TEXT_DEPTH_STEP; lia).
    apply bkids_inv; [|exact Hnote]. intros k s Hs.
    destruct (xtag k); try (split; [exact Hs|discriminate]).
    change G_NODES_BEFORE_APPEND with true. cbn [andb].
    destruct (b_count s >? nl) eqn:En; [split; [exact Hs|discriminate]|].
    rewrite Z.gtb_ltb in En. apply Z.ltb_ge in En.
    assert (Hb : binv C (bump s)) by (destruct Hs; split; cbn [bump b_maxdepth b_count]; lia).
    destruct (IH k (depth + TEXT_DEPTH_STEP) (bump s)) as [H1 H2]; [lia|lia|exact Hb|].
    destruct (btext dl nl f k (depth + TEXT_DEPTH_STEP) (bump s)) as [s2 [ks| |]]; cbn [fst snd] in *;
      (split; [exact H1|congruence]).
Qed.

Lemma bnode_inv C : nl + 1 <= C -> 0 <= dl ->
  forall fuel doc x origin ig depth st,
  dl < Z.of_nat fuel + depth -> depth <= dl + max_step -> binv C st ->
  binv C (fst (bnode dl nl fuel doc x origin ig depth st)) /\
  snd (bnode dl nl fuel doc x origin ig depth st) <> OOut.
Proof.
  intros HC Hdl. induction fuel as [|f IH]; intros doc x origin ig depth st Hfuel Hdepth [Hmd Hcnt].
  - cbn [bnode]. change G_DEPTH_FIRST with true. cbn [andb].
    assert (depth >? dl = true) as -> by (apply Z.gtb_lt; lia).
    cbn [fst snd]. split; [|discriminate]. split; cbn [note_depth b_maxdepth b_count]; lia.
  - cbn [bnode]. change G_DEPTH_FIRST with true. cbn [andb].
    assert (Hnote : binv C (note_depth st depth)) by (split; cbn [note_depth b_maxdepth b_count]; lia).
    destruct (depth >? dl) eqn:Ed; [split; [exact Hnote|discriminate]|].
    rewrite Z.gtb_ltb in Ed. apply Z.ltb_ge in Ed.
    assert (Hstep1 : 1 <= KID_DEPTH_STEP <= max_step) by (unfold max_step, KID_DEPTH_STEP, USE_DEPTH_STEP, TEXT_DEPTH_STEP; lia).
    assert (Hstep2 : 1 <= USE_DEPTH_STEP <= max_step) by (unfold max_step, KID_DEPTH_STEP, USE_DEPTH_STEP, TEXT_DEPTH_STEP; lia).
    assert (Hstep3 : 1 <= TEXT_DEPTH_STEP <= max_step) by (unfold max_step, KID_DEPTH_STEP, USE_DEPTH_STEP, TEXT_DEPTH_STEP; lia).
    change G_NODES_BEFORE_APPEND with true. cbn [andb].
    assert (Hbump : b_count (note_depth st depth) >? nl = false -> binv C (bump (note_depth st depth))).
    { intro E. rewrite Z.gtb_ltb in E. apply Z.ltb_ge in E. cbn [note_depth b_count] in E. split; cbn [bump note_depth b_maxdepth b_count]; lia. }
    assert (Hkids : forall s, binv C s ->
              binv C (fst (bkids (fun k s0 => bnode dl nl f doc k origin ig (depth + KID_DEPTH_STEP) s0) (xkids x) s)) /\
              snd (bkids (fun k s0 => bnode dl nl f doc k origin ig (depth + KID_DEPTH_STEP) s0) (xkids x) s) <> OOut).
    { apply bkids_inv. intros k s Hs. apply IH; [lia|lia|exact Hs]. }
    assert (Hgen : b_count (note_depth st depth) >? nl = false ->
              forall (tag : tagk) (mk : tagk -> list snode -> snode),
              let r := match bkids (fun k s0 => bnode dl nl f doc k origin ig (depth + KID_DEPTH_STEP) s0) (xkids x)
                               (bump (note_depth st depth)) with
                       | (st2, OOk ks) => (st2, OOk [mk tag ks])
                       | (st2, e) => (st2, e)
                       end in
              binv C (fst r) /\ snd r <> (OOut : outcome (list snode))).
    { intros E tag mk. destruct (Hkids _ (Hbump E)) as [H1 H2].
      destruct (bkids _ (xkids x) (bump (note_depth st depth))) as [s2 [ks| |]]; cbn [fst snd] in *;
        (split; [exact H1|congruence]). }
    destruct (xtag x) eqn:Et; try (split; [exact Hnote|discriminate]);
      (destruct (b_count (note_depth st depth) >? nl) eqn:En; [split; [exact Hnote|discriminate]|]);
      try (exact (Hgen eq_refl _ (fun tg ks => SN (b_next (note_depth st depth)) tg (if ig then None else xname x) (xflag x) (xattrs x) ks)));
      try (split; [exact (Hbump eq_refl)|discriminate]).
    (* text *)
    all: try (destruct (btext_inv C HC Hdl f x (depth + TEXT_DEPTH_STEP) (bump (note_depth st depth))) as [H1 H2];
              [lia|lia|exact (Hbump eq_refl)|];
              destruct (btext dl nl f x (depth + TEXT_DEPTH_STEP) (bump (note_depth st depth))) as [s2 [ks| |]];
              cbn [fst snd] in *; (split; [exact H1|congruence])).
    (* use *)
    destruct (resolve_href doc x) as [link|]; [|split; [exact (Hbump eq_refl)|discriminate]].
    destruct (use_skipped doc x origin link); [split; [exact (Hbump eq_refl)|discriminate]|].
    destruct (IH doc link (origin_push doc x link origin) true (depth + USE_DEPTH_STEP) (bump (note_depth st depth))) as [H1 H2];
      [lia|lia|exact (Hbump eq_refl)|].
    destruct (bnode dl nl f doc link (origin_push doc x link origin) true (depth + USE_DEPTH_STEP) (bump (note_depth st depth)))
      as [s2 [ks| |]]; cbn [fst snd] in *; (split; [exact H1|congruence]).
Qed.
End Limits.

Lemma build_inv doc :
  snd (build doc) <> OOut /\
  b_maxdepth (fst (build doc)) <= DEPTH_LIMIT + max_step /\
  b_count (fst (build doc)) <= NODES_LIMIT + 1.
Proof.
  unfold build, build_with.
  pose proof (bnode_inv DEPTH_LIMIT NODES_LIMIT (NODES_LIMIT + 1) ltac:(lia) ltac:(unfold DEPTH_LIMIT; lia)
                build_fuel doc doc [] false 0 bstate0) as H.
  destruct H as [[H1 H2] H3].
  - unfold build_fuel. rewrite Nat2Z.inj_add, Z2Nat.id by (unfold DEPTH_LIMIT; lia). lia.
  - unfold max_step, DEPTH_LIMIT, KID_DEPTH_STEP, USE_DEPTH_STEP, TEXT_DEPTH_STEP. lia.
  - split; unfold bstate0; cbn [b_maxdepth b_count]; unfold max_step, DEPTH_LIMIT, KID_DEPTH_STEP, USE_DEPTH_STEP, TEXT_DEPTH_STEP, NODES_LIMIT; lia.
  - destruct (bnode DEPTH_LIMIT NODES_LIMIT build_fuel doc doc [] false 0 bstate0)
      as [s [ks| |]]; cbn [fst snd] in *; repeat split; try assumption; congruence.
Qed.

(* ------------------------------------------------------------------------------------------ *)
(* inversion of successful calls; plain shapes survive the construction                         *)
(* ------------------------------------------------------------------------------------------ *)
Definition no_links (a : attrs) : Prop := Forall (fun kv => snd kv = None) a.

Section Inv.
Variable dl nl : Z.

Lemma bkids_ok_in rec : forall l st st' out,
  bkids rec l st = (st', OOk out) ->
  forall k, In k l -> exists s s1 a, rec k s = (s1, OOk a) /\ incl a out.
Proof.
  induction l as [|k0 r IH]; intros st st' out H k Hk; [destruct Hk|].
  cbn [bkids] in H. destruct (rec k0 st) as [s1 [a| |]] eqn:E0; try discriminate.
  destruct (bkids rec r s1) as [s2 [b| |]] eqn:Er; try discriminate.
  injection H as <- <-. destruct Hk as [<-|Hk].
  - exists st, s1, a. split; [exact E0|]. apply incl_appl, incl_refl.
  - destruct (IH s1 s2 b Er k Hk) as (s & s1' & a' & He & Hi). exists s, s1', a'. split; [exact He|].
    apply incl_appr, Hi.
Qed.

Lemma bnode_ok_container fuel doc x origin ig depth st st' out :
  xtag x = TSvg \/ xtag x = TG ->
  bnode dl nl fuel doc x origin ig depth st = (st', OOk out) ->
  exists f id st1 ks',
    fuel = S f /\
    out = [SN id (xtag x) (if ig then None else xname x) (xflag x) (xattrs x) ks'] /\
    bkids (fun k s => bnode dl nl f doc k origin ig (depth + KID_DEPTH_STEP) s) (xkids x) st1 = (st', OOk ks').
Proof.
  intros Ht H. destruct fuel as [|f]; cbn [bnode] in H.
  - destruct (G_DEPTH_FIRST && (depth >? dl)); discriminate.
  - destruct (G_DEPTH_FIRST && (depth >? dl)); [discriminate|].
    destruct Ht as [Ht|Ht]; rewrite Ht in H |- *;
      (destruct (G_NODES_BEFORE_APPEND && (b_count (note_depth st depth) >? nl)); [discriminate|]);
      (destruct (bkids _ (xkids x) (bump (note_depth st depth))) as [s2 [ks'| |]] eqn:Ek; try discriminate);
      injection H as <- <-; exists f, (b_next (note_depth st depth)), (bump (note_depth st depth)), ks';
      repeat split; exact Ek.
Qed.

Lemma bnode_ok_shape fuel doc x origin ig depth st st' out :
  xtag x = TShape ->
  bnode dl nl fuel doc x origin ig depth st = (st', OOk out) ->
  exists id ks', out = [SN id TShape (if ig then None else xname x) (xflag x) (xattrs x) ks'].
Proof.
  intros Ht H. destruct fuel as [|f]; cbn [bnode] in H.
  - destruct (G_DEPTH_FIRST && (depth >? dl)); discriminate.
  - destruct (G_DEPTH_FIRST && (depth >? dl)); [discriminate|].
    rewrite Ht in H.
    destruct (G_NODES_BEFORE_APPEND && (b_count (note_depth st depth) >? nl)); [discriminate|].
    destruct (bkids _ (xkids x) (bump (note_depth st depth))) as [s2 [ks'| |]] eqn:Ek; try discriminate.
    injection H as <- <-. eexists _, ks'. reflexivity.
Qed.
End Inv.

(* ------------------------------------------------------------------------------------------ *)
(* the use expansion is finite for every reference graph: each expansion puts a new element of   *)
(* the document on the in-progress list                                                          *)
(* ------------------------------------------------------------------------------------------ *)
Definition not_depth_fail (o : outcome (list snode)) : Prop := o <> OErr EDepth /\ o <> OOut.

Lemma bkids_not_depth rec : forall l st,
  (forall k s, In k l -> not_depth_fail (snd (rec k s))) -> not_depth_fail (snd (bkids rec l st)).
Proof.
  induction l as [|k r IH]; intros st H; cbn [bkids]; [split; discriminate|].
  pose proof (H k st (or_introl eq_refl)) as Hk.
  destruct (rec k st) as [s1 [a|e|]]; cbn [snd] in *; [|exact Hk|exact Hk].
  assert (Hr : not_depth_fail (snd (bkids rec r s1))) by (apply IH; intros k0 s Hk0; apply H; right; exact Hk0).
  destruct (bkids rec r s1) as [s2 [b|e|]]; cbn [snd] in *; [split; discriminate|exact Hr|exact Hr].
Qed.


Lemma filter_len_le {A} (g : A -> bool) l : (length (filter g l) <= length l)%nat.
Proof. induction l as [|a r IH]; cbn [filter length]; [lia|]. destruct (g a); cbn [length]; lia. Qed.

Lemma fold_max_le k ks : In k ks -> (xheight k <= fold_right (fun k m => Nat.max (xheight k) m) O ks)%nat.
Proof.
  induction ks as [|a r IH]; [intros []|]. intros [->|H]; cbn [fold_right]; [lia|]. specialize (IH H). lia.
Qed.

Lemma xheight_kid x k : In k (xkids x) -> (xheight k < xheight x)%nat.
Proof. destruct x as [u t n f a ks]. cbn [xkids xheight]. intro H. pose proof (fold_max_le k ks H). lia. Qed.

Lemma xnode_ind' (P : xnode -> Prop) :
  (forall u t n f a ks, Forall P ks -> P (XN u t n f a ks)) -> forall x, P x.
Proof.
  intro H. fix IH 1. intros [u t n f a ks]. apply H.
  induction ks as [|k r IHr]; constructor; [apply IH | exact IHr].
Qed.

Lemma xheight_flat : forall x y, In y (xflat x) -> (xheight y <= xheight x)%nat.
Proof.
  induction x as [u t n f a ks IH] using xnode_ind'. intros y Hy. cbn [xflat] in Hy.
  destruct Hy as [<-|Hy]; [lia|]. apply in_flat_map in Hy. destruct Hy as (k & Hk & Hyk).
  rewrite Forall_forall in IH. specialize (IH k Hk y Hyk).
  pose proof (xheight_kid (XN u t n f a ks) k Hk). lia.
Qed.

Lemma resolve_href_in doc x l : resolve_href doc x = Some l -> In l (xflat doc).
Proof.
  unfold resolve_href, xfind. destruct (attr_link AHref (xattrs x)); [|discriminate].
  intro H. apply find_some in H. exact (proj1 H).
Qed.

Lemma mem_uid_true u l : mem_uid u l = true <-> In u l.
Proof.
  unfold mem_uid. rewrite existsb_exists. split.
  - intros (y & Hy & E). apply Nat.eqb_eq in E. subst. exact Hy.
  - intro H. exists u. split; [exact H|apply Nat.eqb_refl].
Qed.

Lemma filter_len_lt {A} (g h : A -> bool) l a :
  (forall x, g x = true -> h x = true) -> In a l -> h a = true -> g a = false ->
  (length (filter g l) < length (filter h l))%nat.
Proof.
  intros Hgh Hin Hh Hg. induction l as [|b r IH]; [destruct Hin|]. cbn [filter].
  assert (Hle : forall r0 : list A, (length (filter g r0) <= length (filter h r0))%nat).
  { induction r0 as [|c r0 IH0]; cbn [filter]; [lia|]. destruct (g c) eqn:E; [rewrite (Hgh c E); simpl; lia|]. destruct (h c); simpl; lia. }
  destruct Hin as [->|Hin].
  - rewrite Hg, Hh. specialize (Hle r). simpl. lia.
  - specialize (IH Hin). destruct (g b) eqn:E; [rewrite (Hgh b E); simpl; lia|]. destruct (h b); simpl; lia.
Qed.

Lemma fresh_push doc node link origin :
  In link (xflat doc) -> mem_uid (xuid link) origin = false ->
  (fresh_count doc (origin_push doc node link origin) < fresh_count doc origin)%nat.
Proof.
  intros Hin Hm. unfold fresh_count, origin_push. change G_USE_PUSH with true. cbn iota.
  apply (filter_len_lt _ _ _ link); [|exact Hin|rewrite Hm; reflexivity|].
  - intros y Hy. apply negb_true_iff in Hy. apply negb_true_iff.
    destruct (mem_uid (xuid y) origin) eqn:E; [|reflexivity].
    apply mem_uid_true in E.
    assert (mem_uid (xuid y) (xuid link :: xancestors doc (xuid node) ++ origin) = true) as Ht
      by (apply mem_uid_true; right; apply in_or_app; right; exact E). congruence.
  - apply negb_false_iff. apply mem_uid_true. left. reflexivity.
Qed.

Lemma btext_finite dl nl : forall fuel x depth st,
  (xheight x <= fuel)%nat -> depth + max_step * Z.of_nat fuel <= dl ->
  not_depth_fail (snd (btext dl nl fuel x depth st)).
Proof.
  assert (Hms : max_step = 2) by reflexivity. rewrite Hms in *.
  assert (Hstep : 1 <= TEXT_DEPTH_STEP <= 2) by (unfold TEXT_DEPTH_STEP; lia).
  induction fuel as [|f IH]; intros x depth st Hh Hd.
  - exfalso. destruct x. cbn [xheight] in Hh. lia.
  - rewrite Nat2Z.inj_succ in Hd. cbn [btext].
    assert (Ed : depth >? dl = false) by (rewrite Z.gtb_ltb; apply Z.ltb_ge; lia).
    rewrite Ed, andb_false_r.
    apply bkids_not_depth. intros k s Hk.
    destruct (xtag k) eqn:Et; try (split; discriminate).
    destruct (G_NODES_BEFORE_APPEND && (b_count s >? nl)); [split; discriminate|].
    pose proof (xheight_kid x k Hk) as Hlt.
    assert (Hr : not_depth_fail (snd (btext dl nl f k (depth + TEXT_DEPTH_STEP) (bump s)))) by (apply IH; lia).
    destruct (btext dl nl f k (depth + TEXT_DEPTH_STEP) (bump s)) as [s2 [ks|e|]]; cbn [snd] in *;
      [split; discriminate|exact Hr|exact Hr].
Qed.

Lemma expansion_finite dl nl doc : forall fuel x origin ig depth st,
  (xheight x <= xheight doc)%nat ->
  (fresh_count doc origin * (xheight doc + 2) + xheight x + 1 <= fuel)%nat ->
  depth + max_step * Z.of_nat fuel <= dl ->
  not_depth_fail (snd (bnode dl nl fuel doc x origin ig depth st)).
Proof.
  assert (Hstep1 : 1 <= KID_DEPTH_STEP <= max_step) by (unfold max_step, KID_DEPTH_STEP, USE_DEPTH_STEP, TEXT_DEPTH_STEP; lia).
  assert (Hstep2 : 1 <= USE_DEPTH_STEP <= max_step) by (unfold max_step, KID_DEPTH_STEP, USE_DEPTH_STEP, TEXT_DEPTH_STEP; lia).
  assert (Hstep3 : 1 <= TEXT_DEPTH_STEP <= max_step) by (unfold max_step, KID_DEPTH_STEP, USE_DEPTH_STEP, TEXT_DEPTH_STEP; lia).
  pose proof (btext_finite dl nl) as Htext.
  assert (Hms : max_step = 2) by reflexivity. rewrite Hms in *.
  set (H := xheight doc).
  induction fuel as [|f IH]; intros x origin ig depth st Hx HF Hd; [lia|].
  rewrite Nat2Z.inj_succ in Hd. cbn [bnode].
  assert (Ed : depth >? dl = false) by (rewrite Z.gtb_ltb; apply Z.ltb_ge; lia).
  rewrite Ed, andb_false_r.
  assert (Hkids : forall (tg : tagk) (mk : tagk -> list snode -> snode),
            not_depth_fail (snd (match bkids (fun k s => bnode dl nl f doc k origin ig (depth + KID_DEPTH_STEP) s) (xkids x)
                                             (bump (note_depth st depth)) with
                                 | (st2, OOk ks) => (st2, OOk [mk tg ks])
                                 | (st2, e) => (st2, e)
                                 end))).
  { intros tg mk.
    assert (Hb : not_depth_fail (snd (bkids (fun k s => bnode dl nl f doc k origin ig (depth + KID_DEPTH_STEP) s) (xkids x)
                                            (bump (note_depth st depth))))).
    { apply bkids_not_depth. intros k s Hk. pose proof (xheight_kid x k Hk). apply IH; lia. }
    destruct (bkids _ (xkids x) (bump (note_depth st depth))) as [s2 [ks|e|]]; cbn [snd] in *;
      [split; discriminate|exact Hb|exact Hb]. }
  destruct (xtag x) eqn:Et; try (split; discriminate);
    (destruct (G_NODES_BEFORE_APPEND && (b_count (note_depth st depth) >? nl)); [split; discriminate|]);
    try (exact (Hkids _ (fun tg ks => SN (b_next (note_depth st depth)) tg (if ig then None else xname x) (xflag x) (xattrs x) ks)));
    try (split; discriminate).
  (* text *)
  all: try (assert (Ht : not_depth_fail (snd (btext dl nl f x (depth + TEXT_DEPTH_STEP) (bump (note_depth st depth)))))
              by (apply Htext; lia);
            destruct (btext dl nl f x (depth + TEXT_DEPTH_STEP) (bump (note_depth st depth))) as [s2 [ks|e|]]; cbn [snd] in *;
            [split; discriminate|exact Ht|exact Ht]).
  (* use *)
  destruct (resolve_href doc x) as [link|] eqn:El; [|split; discriminate].
  destruct (use_skipped doc x origin link) eqn:Es; [split; discriminate|].
  assert (Hin : In link (xflat doc)) by (eapply resolve_href_in; exact El).
  assert (Hm : mem_uid (xuid link) origin = false).
  { unfold use_skipped, use_self_or_origin in Es. change G_USE_ORIGIN with true in Es.
    repeat (apply orb_false_iff in Es; destruct Es as [Es ?]). cbn [andb] in *. assumption. }
  pose proof (fresh_push doc x link origin Hin Hm) as Hlt.
  pose proof (xheight_flat doc link Hin) as Hhl. fold H in Hhl.
  assert (Hl : not_depth_fail (snd (bnode dl nl f doc link (origin_push doc x link origin) true (depth + USE_DEPTH_STEP)
                                          (bump (note_depth st depth))))).
  { apply IH; [exact Hhl| |lia].
    assert ((fresh_count doc (origin_push doc x link origin) + 1) * (H + 2) <= fresh_count doc origin * (H + 2))%nat
      by (apply Nat.mul_le_mono_r; lia). lia. }
  destruct (bnode dl nl f doc link (origin_push doc x link origin) true (depth + USE_DEPTH_STEP) (bump (note_depth st depth)))
    as [s2 [ks|e|]]; cbn [snd] in *; [split; discriminate|exact Hl|exact Hl].
Qed.

(* every document: with limits that only depend on its size, the construction is never stopped by the depth limit *)
Lemma build_expansion_finite doc nl :
  let F := expansion_fuel doc in
  match snd (build_with (max_step * Z.of_nat F) nl F doc) with
  | OErr EDepth | OOut => False
  | _ => True
  end.
Proof.
  intro F. unfold build_with.
  pose proof (expansion_finite (max_step * Z.of_nat F) nl doc F doc [] false 0 bstate0) as H.
  assert (Hfc : (fresh_count doc [] <= length (xflat doc))%nat).
  { unfold fresh_count. apply filter_len_le. }
  destruct (bnode (max_step * Z.of_nat F) nl F doc doc [] false 0 bstate0) as [s [ks|e|]]; cbn [snd] in *; [exact I| |].
  - destruct H as [H _]; [lia| |lia|].
    + unfold F, expansion_fuel. apply (Nat.mul_le_mono_r _ _ (xheight doc + 2)) in Hfc. lia.
    + destruct e; [congruence|exact I].
  - destruct H as [_ H]; [lia| |lia|].
    + unfold F, expansion_fuel. apply (Nat.mul_le_mono_r _ _ (xheight doc + 2)) in Hfc. lia.
    + congruence.
Qed.
