(* Lemmas about Model/Links.v (C03): the converter's recursion is bounded by the in-progress stacks,
   HrefIter is bounded by its step counter, the pre-pass loops terminate and establish their exit
   condition, a plain shape is converted independently of the rest of the document. *)
From Coq Require Import ZArith NArith List Bool Lia.
From RV Require Import Gen.Consts Gen.LinkGuards Model.SvgBuild Model.Links Proofs.SvgBuild.
Import ListNotations.

(* ------------------------------------------------------------------------------------------ *)
(* generic                                                                                     *)
(* ------------------------------------------------------------------------------------------ *)
Lemma snode_ind' (P : snode -> Prop) :
  (forall i t n f a ks, Forall P ks -> P (SN i t n f a ks)) -> forall x, P x.
Proof.
  intro H. fix IH 1. intros [i t n f a ks]. apply H.
  induction ks as [|k r IHr]; constructor; [apply IH | exact IHr].
Qed.

Lemma find_map_none {A B} (f : A -> option B) l :
  find_map f l = None <-> forall x, In x l -> f x = None.
Proof.
  induction l as [|a r IH]; simpl.
  - split; [intros _ x []|reflexivity].
  - destruct (f a) eqn:E.
    + split; [discriminate|]. intro H. rewrite (H a (or_introl eq_refl)) in E. discriminate.
    + rewrite IH. split.
      * intros H x [<-|Hx]; [exact E|apply H, Hx].
      * intros H x Hx. apply H. right. exact Hx.
Qed.

Lemma find_map_some {A B} (f : A -> option B) l b :
  find_map f l = Some b -> exists x, In x l /\ f x = Some b.
Proof.
  induction l as [|a r IH]; simpl; [discriminate|].
  destruct (f a) eqn:E.
  - intros [= <-]. exists a. split; [left; reflexivity|exact E].
  - intro H. destruct (IH H) as (x & Hx & Hfx). exists x. split; [right; exact Hx|exact Hfx].
Qed.

Lemma sflat_self x : In x (sflat x).
Proof. destruct x. simpl. left. reflexivity. Qed.

Lemma sflat_kid x k : In k (s_kids x) -> forall y, In y (sflat k) -> In y (sflat x).
Proof.
  destruct x as [i t n f a ks]. simpl. intros Hk y Hy. right.
  apply in_flat_map. exists k. split; assumption.
Qed.

Lemma sflat_trans x : forall y z, In y (sflat x) -> In z (sflat y) -> In z (sflat x).
Proof.
  induction x as [i t n f a ks IH] using snode_ind'. intros y z Hy Hz.
  simpl in Hy. destruct Hy as [<-|Hy]; [exact Hz|].
  apply in_flat_map in Hy. destruct Hy as (k & Hk & Hyk).
  simpl. right. apply in_flat_map. exists k. split; [exact Hk|].
  rewrite Forall_forall in IH. apply (IH k Hk y z Hyk Hz).
Qed.

Lemma lookup_in d nm l : lookup d nm = Some l -> In l (sflat d).
Proof.
  unfold lookup. intro H. apply find_some in H. destruct H as [H _].
  apply in_rev. exact H.
Qed.

Lemma node_attr_inv d k n l : node_attr d k n = Some l ->
  exists nm, attr_link k (s_attrs n) = Some nm /\ lookup d nm = Some l.
Proof.
  unfold node_attr. destruct (G_NODEATTR_FUNCIRI && is_flist k (s_attrs n)); [discriminate|].
  destruct (attr_link k (s_attrs n)) as [nm|]; [|discriminate]. intro H. exists nm. split; [reflexivity|exact H].
Qed.

Lemma node_attr_in d k n l : node_attr d k n = Some l -> In l (sflat d).
Proof. intro H. destruct (node_attr_inv _ _ _ _ H) as (nm & _ & Hl). eapply lookup_in, Hl. Qed.

Lemma mem_nat_false n l : mem_nat n l = false -> ~ In n l.
Proof.
  unfold mem_nat. intros H Hin.
  assert (existsb (Nat.eqb n) l = true) as E.
  { apply existsb_exists. exists n. split; [exact Hin|apply Nat.eqb_refl]. }
  congruence.
Qed.

(* ------------------------------------------------------------------------------------------ *)
(* the converter: "good" results (not out of fuel, ghost log satisfies a predicate)             *)
(* ------------------------------------------------------------------------------------------ *)
Section Good.
Variable entry_ok : defmode * nat * list nat * list nat -> Prop.
Definition LP (c : cache) : Prop := Forall entry_ok (ca_log c).
Definition good {A} (r : cres A) : Prop := match r with Done _ c => LP c | Fuel => False end.

Lemma good_bind {A B} (r : cres A) (f : A -> cache -> cres B) :
  good r -> (forall a c, LP c -> good (f a c)) -> good (bind r f).
Proof. destruct r as [a c|]; simpl; [intros H Hf; apply Hf, H|intros []]. Qed.

Lemma good_done {A} (a : A) c : LP c -> good (Done a c).
Proof. exact (fun H => H). Qed.

Lemma LP_ins_clip n c : LP c -> LP (ins_clip n c). Proof. exact (fun H => H). Qed.
Lemma LP_ins_mask n c : LP c -> LP (ins_mask n c). Proof. exact (fun H => H). Qed.
Lemma LP_ins_filter n c : LP c -> LP (ins_filter n c). Proof. exact (fun H => H). Qed.
Lemma LP_ins_paint n c : LP c -> LP (ins_paint n c). Proof. exact (fun H => H). Qed.

Section ElemGood.
Variable d : snode.
Variable follow : defmode -> snode -> cstate -> bool -> cache -> cres bool.
Variable st : cstate.
Hypothesis Hf : forall m l b c, In l (sflat d) -> LP c -> good (follow m l st b c).

Lemma paint_good k n c : LP c -> good (paint d follow k n st c).
Proof.
  intro H. unfold paint. destruct (st_clip st); [exact H|].
  destruct (node_attr d k n) as [l|] eqn:E; [|exact H].
  destruct (tag_eqb (s_tag l) TPattern); [|exact H].
  destruct (cached ca_paint (s_name l) c); [exact H|].
  apply good_bind; [apply Hf; [eapply node_attr_in; exact E|exact H]|].
  intros ok c1 H1. destruct ok, (s_name l); exact H1.
Qed.

Lemma marker1_good k n c : LP c -> good (marker1 d follow k n st c).
Proof.
  intro H. unfold marker1. destruct (node_attr d k n) as [l|] eqn:E; [|exact H].
  destruct (tag_eqb (s_tag l) TMarker); [|exact H].
  apply good_bind; [apply Hf; [eapply node_attr_in; exact E|exact H]|].
  intros _ c1 H1. exact H1.
Qed.

Lemma path_good n c : LP c -> good (path d follow n st c).
Proof.
  intro H. unfold path.
  apply good_bind; [apply paint_good, H|]. intros _ c1 H1.
  apply good_bind; [apply paint_good, H1|]. intros _ c2 H2.
  apply good_bind; [apply marker1_good, H2|]. intros _ c3 H3.
  apply good_bind; [apply marker1_good, H3|]. intros _ c4 H4.
  apply good_bind; [apply marker1_good, H4|]. intros _ c5 H5. exact H5.
Qed.

Lemma g_finish_good n items hc hm hf c : LP c -> good (g_finish n st items hc hm hf c).
Proof.
  intro H. unfold g_finish. destruct (negb (hc || hm || hf || is_g_or_use n)); [exact H|].
  destruct (group_empty n items && negb hf); exact H.
Qed.

Lemma flist_conv_good es bbox : forall got inv c, LP c -> good (flist_conv d follow es st bbox got inv c).
Proof.
  induction es as [|[u|] r IH]; intros got inv c H; cbn [flist_conv]; [exact H| |apply IH, H].
  destruct (lookup d u) as [l|] eqn:E; [|apply IH, H].
  apply good_bind; [apply Hf; [eapply lookup_in; exact E|exact H]|].
  intros ok c' H'. destruct ok; apply IH, H'.
Qed.

Lemma g_filter_good n items hc hm c : LP c -> good (g_filter d follow n st items hc hm c).
Proof.
  intro H. unfold g_filter. destruct (st_clip st); [apply g_finish_good, H|].
  destruct (negb (existsb is_some (flist (s_attrs n)))); [apply g_finish_good, H|].
  apply good_bind; [apply flist_conv_good, H|].
  intros r c' H'. destruct (if G_FLIST_DROP_RULE then negb (fst r) && snd r else snd r); [exact H'|apply g_finish_good, H'].
Qed.

Lemma g_mask_good n items hc c : LP c -> good (g_mask d follow n st items hc c).
Proof.
  intro H. unfold g_mask. destruct (st_clip st); [apply g_filter_good, H|].
  destruct (node_attr d AMask n) as [l|] eqn:E; [|apply g_filter_good, H].
  apply good_bind; [apply Hf; [eapply node_attr_in; exact E|exact H]|].
  intros ok c' H'. destruct ok; [apply g_filter_good, H'|exact H'].
Qed.

Lemma group_tail_good n items c : LP c -> good (group_tail d follow n st items c).
Proof.
  intro H. unfold group_tail.
  destruct (group_empty n items && negb (has_attr AFilter (s_attrs n))); [exact H|].
  destruct (node_attr d AClip n) as [l|] eqn:E; [|apply g_mask_good, H].
  apply good_bind; [apply Hf; [eapply node_attr_in; exact E|exact H]|].
  intros ok c' H'. destruct ok; [apply g_mask_good, H'|exact H'].
Qed.

Lemma go_children l : forall c,
  (fix go (l : list snode) (c : cache) {struct l} : cres (list item) :=
     match l with
     | [] => Done [] c
     | k :: r => bind (elem d follow k st c) (fun a c1 => bind (go r c1) (fun b c2 => Done (a ++ b) c2))
     end) l c = children d follow l st c.
Proof.
  induction l as [|k r IH]; intro c; [reflexivity|].
  cbn [children]. destruct (elem d follow k st c) as [a c1|]; [|reflexivity].
  cbn [bind]. rewrite IH. reflexivity.
Qed.

Lemma children_good l : Forall (fun k => forall c, LP c -> good (elem d follow k st c)) l ->
  forall c, LP c -> good (children d follow l st c).
Proof.
  induction 1 as [|k r Hk Hr IH]; intros c H; [exact H|].
  cbn [children]. apply good_bind; [apply Hk, H|]. intros a c1 H1.
  apply good_bind; [apply IH, H1|]. intros b c2 H2. exact H2.
Qed.

Lemma elem_good_strong : forall n,
  (forall c, LP c -> good (elem d follow n st c)) /\
  Forall (fun k => forall c, LP c -> good (elem d follow k st c)) (s_kids n).
Proof.
  induction n as [i t nm f a ks IH] using snode_ind'.
  assert (Hks : Forall (fun k => forall c, LP c -> good (elem d follow k st c)) ks).
  { rewrite Forall_forall in *. intros k Hk. apply (IH k Hk). }
  split; [|exact Hks]. intros c H.
  assert (Hch : forall l, Forall (fun k => forall c, LP c -> good (elem d follow k st c)) l ->
                          forall c, LP c -> good (children d follow l st c)) by (intros; apply children_good; assumption).
  destruct t; cbn [elem]; try exact H.
  - (* TSvg *) destruct (st_clip st); [exact H|]. rewrite go_children.
    apply good_bind; [apply Hch; assumption|]. intros items c1 H1. apply group_tail_good, H1.
  - (* TG *) destruct (st_clip st); [exact H|]. rewrite go_children.
    apply good_bind; [apply Hch; assumption|]. intros items c1 H1. apply group_tail_good, H1.
  - (* TShape *) apply good_bind; [apply path_good, H|]. intros items c1 H1. apply group_tail_good, H1.
  - (* TUse *)
    destruct ks as [|k0 r]; [exact H|].
    assert (Hk0 : forall c, LP c -> good (elem d follow k0 st c)) by (inversion Hks; assumption).
    assert (Hr : Forall (fun k => forall c, LP c -> good (elem d follow k st c)) r) by (inversion Hks; assumption).
    assert (Hsym : Forall (fun k => forall c, LP c -> good (elem d follow k st c)) (s_kids k0)).
    { inversion IH as [|? ? Hx _]; subst. exact (proj2 Hx). }
    destruct k0 as [si stg sn sf sa sks]. cbn [s_kids] in Hsym.
    destruct stg;
      try (apply good_bind; [apply paint_good, H|]; intros _ c1 H1;
           apply good_bind; [apply paint_good, H1|]; intros _ c2 H2;
           apply good_bind;
           [ apply good_bind; [apply Hk0, H2|]; intros a0 c3 H3; rewrite go_children;
             apply good_bind; [apply Hch; assumption|]; intros b0 c4 H4; exact H4
           | intros items c5 H5; apply group_tail_good, H5 ]).
    (* symbol *)
    destruct (st_clip st); [exact H|].
    apply good_bind; [apply paint_good, H|]. intros _ c1 H1.
    apply good_bind; [apply paint_good, H1|]. intros _ c2 H2.
    rewrite go_children.
    apply good_bind; [apply Hch; assumption|].
    intros inner c3 H3.
    apply good_bind; [apply group_tail_good, H3|]. intros items c4 H4. apply group_tail_good, H4.
Qed.

Lemma elem_good n c : LP c -> good (elem d follow n st c).
Proof. apply (proj1 (elem_good_strong n)). Qed.

Lemma children_all_good l c : LP c -> good (children d follow l st c).
Proof.
  intro H. apply children_good; [|exact H]. rewrite Forall_forall. intros k _ c0 H0. apply elem_good, H0.
Qed.

Lemma primitives_good l : forall c, LP c -> good (primitives d follow l st c).
Proof.
  induction l as [|p r IH]; intros c H; [exact H|].
  cbn [primitives]. destruct (s_tag p); try (apply IH, H).
  - (* TFeImage *) destruct (node_attr d AHref p) as [t|].
    + apply good_bind; [apply elem_good, H|]. intros _ c1 H1.
      apply good_bind; [apply IH, H1|]. intros n c2 H2. exact H2.
    + apply good_bind; [apply IH, H|]. intros n c2 H2. exact H2.
  - (* TFeOther *) apply good_bind; [apply IH, H|]. intros n c2 H2. exact H2.
Qed.

End ElemGood.
End Good.

(* ------------------------------------------------------------------------------------------ *)
(* the in-progress stacks bound the recursion                                                   *)
(* ------------------------------------------------------------------------------------------ *)
Definition ids (d : snode) : list nat := map s_id (sflat d).
Definition is_marker (n : snode) : bool := tag_eqb (s_tag n) TMarker.
Definition marker_ids (d : snode) : list nat := map s_id (filter is_marker (sflat d)).

(* what is recorded at every push: the stacks (with the new element on top) have no duplicates and
   hold elements of the document; the marker stack holds marker elements only *)
Definition entry_ok (d : snode) (e : defmode * nat * list nat * list nat) : Prop :=
  match e with
  | (m, id, defs, markers) =>
      NoDup defs /\ NoDup markers /\ incl defs (ids d) /\ incl markers (marker_ids d) /\
      match m with MMarker => hd_error markers = Some id | _ => hd_error defs = Some id end
  end.

Definition st_inv (d : snode) (st : cstate) : Prop :=
  NoDup (st_defs st) /\ NoDup (st_markers st) /\ incl (st_defs st) (ids d) /\ incl (st_markers st) (marker_ids d).

Lemma filter_len_le {A} (f : A -> bool) l : length (filter f l) <= length l.
Proof. induction l as [|a r IH]; simpl; [lia|]. destruct (f a); simpl; lia. Qed.

Lemma marker_ids_le d : length (marker_ids d) <= length (sflat d).
Proof. unfold marker_ids. rewrite map_length. apply filter_len_le. Qed.

Lemma st_inv_bound d st : st_inv d st ->
  length (st_defs st) <= length (sflat d) /\ length (st_markers st) <= length (marker_ids d).
Proof.
  intros (Hd & Hm & Hid & Him). split.
  - replace (length (sflat d)) with (length (ids d)) by apply map_length.
    apply NoDup_incl_length; assumption.
  - apply NoDup_incl_length; assumption.
Qed.

Lemma tag_eqb_eq a b : tag_eqb a b = true -> a = b.
Proof. destruct a, b; simpl; intro H; try reflexivity; discriminate. Qed.

Lemma guards_on m : guard_check m = true /\ guard_push m = true.
Proof. destruct m; split; reflexivity. Qed.

Lemma push_inv d m st link :
  st_inv d st -> In link (sflat d) -> in_stack m st (s_id link) = false ->
  (m = MMarker -> s_tag link = TMarker) ->
  st_inv d (push m st (s_id link)) /\
  length (st_defs (push m st (s_id link))) + length (st_markers (push m st (s_id link))) =
    S (length (st_defs st) + length (st_markers st)) /\
  entry_ok d (m, s_id link, st_defs (push m st (s_id link)), st_markers (push m st (s_id link))).
Proof.
  intros (Hd & Hm & Hid & Him) Hin Hst Htag.
  assert (Hidl : In (s_id link) (ids d)) by (apply in_map; exact Hin).
  destruct m; cbn [push in_stack st_defs st_markers] in *;
    try (apply mem_nat_false in Hst;
         assert (Hd' : NoDup (s_id link :: st_defs st)) by (constructor; assumption);
         assert (Hi' : incl (s_id link :: st_defs st) (ids d)) by (intros x [<-|Hx]; [exact Hidl|apply Hid, Hx]);
         repeat split; try assumption; simpl; lia).
  (* marker *)
  apply mem_nat_false in Hst.
  assert (Hmk : In (s_id link) (marker_ids d)).
  { unfold marker_ids. apply in_map. apply filter_In. split; [exact Hin|].
    unfold is_marker. rewrite (Htag eq_refl). reflexivity. }
  assert (Hm' : NoDup (s_id link :: st_markers st)) by (constructor; assumption).
  assert (Hi' : incl (s_id link :: st_markers st) (marker_ids d)) by (intros x [<-|Hx]; [exact Hmk|apply Him, Hx]).
  repeat split; try assumption; simpl; lia.
Qed.

Lemma conv_def_good d : forall fuel st,
  st_inv d st -> 2 * length (sflat d) < length (st_defs st) + length (st_markers st) + fuel ->
  forall m link b c, In link (sflat d) -> LP (entry_ok d) c ->
  good (entry_ok d) (conv_def d fuel m link st b c).
Proof.
  induction fuel as [|f IH]; intros st Hinv Hmeas m link b c Hin Hc.
  - exfalso. destruct (st_inv_bound d st Hinv) as [H1 H2]. pose proof (marker_ids_le d). lia.
  - cbn [conv_def]. unfold def_body.
    destruct (tag_eqb (s_tag link)
                (match m with MClip => TClipPath | MMask => TMask | MFilter => TFilter | MPattern => TPattern | MMarker => TMarker end)) eqn:Etag;
      cbn [negb]; [|exact Hc].
    destruct (guards_on m) as [Hgc Hgp]. rewrite Hgc, Hgp. cbn [andb].
    destruct (in_stack m st (s_id link)) eqn:Estk; [exact Hc|].
    assert (Htm : m = MMarker -> s_tag link = TMarker).
    { intros ->. apply tag_eqb_eq. exact Etag. }
    destruct (push_inv d m st link Hinv Hin Estk Htm) as (Hinv' & Hlen & Hentry).
    set (st' := push m st (s_id link)) in *.
    assert (HF : forall st'', st_defs st'' = st_defs st' -> st_markers st'' = st_markers st' ->
                 forall m0 l b0 c0, In l (sflat d) -> LP (entry_ok d) c0 ->
                 good (entry_ok d) (conv_def d f m0 l st'' b0 c0)).
    { intros st'' E1 E2. apply IH.
      - unfold st_inv. rewrite E1, E2. exact Hinv'.
      - rewrite E1, E2. lia. }
    assert (Hc0 : LP (entry_ok d) (log_push m (s_id link) st' c)).
    { unfold LP, log_push. cbn [ca_log]. constructor; [exact Hentry|exact Hc]. }
    assert (Hch : forall l st'', st_defs st'' = st_defs st' -> st_markers st'' = st_markers st' ->
                  forall c0, LP (entry_ok d) c0 -> good (entry_ok d) (children d (conv_def d f) l st'' c0)).
    { intros l st'' E1 E2 c0 H0. apply children_all_good; [|exact H0]. apply HF; assumption. }
    destruct m.
    + (* clipPath *)
      destruct (s_flag link && cached ca_clip (s_name link) c); [exact Hc|].
      destruct (negb (s_flag link) && negb b); [exact Hc|].
      assert (Hrest : forall c1, LP (entry_ok d) c1 ->
                good (entry_ok d)
                  (match s_name link with
                   | None => Done false c1
                   | Some nm => bind (children d (conv_def d f) (s_kids link) (set_clip st') c1)
                                  (fun items c2 => if nonempty items then Done true (ins_clip nm c2) else Done false c2)
                   end)).
      { intros c1 H1. destruct (s_name link); [|exact H1].
        apply good_bind; [apply Hch; [reflexivity|reflexivity|exact H1]|].
        intros items c2 H2. destruct (nonempty items); exact H2. }
      destruct (node_attr d AClip link) as [l2|] eqn:E; [|apply Hrest, Hc0].
      apply good_bind; [apply HF; [reflexivity|reflexivity|eapply node_attr_in; exact E|exact Hc0]|].
      intros ok c1 H1. destruct ok; [apply Hrest, H1|exact H1].
    + (* mask *)
      destruct (s_flag link && cached ca_mask (s_name link) c); [exact Hc|].
      destruct (s_name link) as [nm|]; [|exact Hc0].
      destruct (negb (s_flag link) && negb b); [exact Hc0|].
      assert (Hrest : forall c1, LP (entry_ok d) c1 ->
                good (entry_ok d)
                  (bind (children d (conv_def d f) (s_kids link) st' c1)
                        (fun items c2 => if nonempty items then Done true (ins_mask nm c2) else Done false c2))).
      { intros c1 H1. apply good_bind; [apply Hch; [reflexivity|reflexivity|exact H1]|].
        intros items c2 H2. destruct (nonempty items); exact H2. }
      destruct (node_attr d AMask link) as [l2|] eqn:E; [|apply Hrest, Hc0].
      apply good_bind; [apply HF; [reflexivity|reflexivity|eapply node_attr_in; exact E|exact Hc0]|].
      intros ok c1 H1. destruct ok; [apply Hrest, H1|exact H1].
    + (* filter *)
      destruct (s_flag link && cached ca_filter (s_name link) c); [exact Hc|].
      destruct (negb (s_flag link) && negb b); [exact Hc0|].
      destruct (template_of d TFilter link) as [tpl|]; [|exact Hc0].
      apply good_bind.
      { apply primitives_good; [|exact Hc0]. apply HF; reflexivity. }
      intros n c1 H1. destruct n, (s_name link); exact H1.
    + (* pattern *)
      destruct (template_of d TPattern link) as [tpl|]; [|exact Hc0].
      destruct (s_name link); [|exact Hc0].
      apply good_bind; [apply Hch; [reflexivity|reflexivity|exact Hc0]|].
      intros items c1 H1. exact H1.
    + (* marker *)
      apply good_bind; [apply Hch; [reflexivity|reflexivity|exact Hc0]|].
      intros items c1 H1. exact H1.
Qed.

Lemma st0_inv d : st_inv d st0.
Proof. repeat split; try constructor; intros x []. Qed.

Lemma convert_good d : good (entry_ok (inherit [] false d)) (convert d).
Proof.
  unfold convert. set (di := inherit [] false d).
  apply children_all_good; [|constructor].
  intros m l b c Hl Hc. apply conv_def_good; try assumption; [apply st0_inv|].
  unfold conv_fuel. simpl. lia.
Qed.

Lemma convert_terminates d : convert d <> Fuel.
Proof. pose proof (convert_good d) as H. intro E. rewrite E in H. exact H. Qed.

Lemma convert_log_ok d out c : convert d = Done out c ->
  Forall (entry_ok (inherit [] false d)) (ca_log c).
Proof. pose proof (convert_good d) as H. intro E. rewrite E in H. exact H. Qed.

(* ------------------------------------------------------------------------------------------ *)
(* HrefIter                                                                                    *)
(* ------------------------------------------------------------------------------------------ *)
Lemma href_go_bounded d len origin : forall fuel curr steps,
  len < fuel + steps ->
  snd (href_go fuel d len origin curr steps) = false /\
  length (fst (href_go fuel d len origin curr steps)) + steps <= Nat.max len steps.
Proof.
  induction fuel as [|f IH]; intros curr steps Hlt.
  - cbn [href_go]. destruct (node_attr d AHref curr) as [link|]; [|simpl; lia].
    destruct ((G_HREF_SELF && Nat.eqb (s_id link) (s_id curr)) || (G_HREF_ORIGIN && Nat.eqb (s_id link) (s_id origin))
              || (G_HREF_STEPS && Nat.ltb len (S steps))) eqn:E; [simpl; lia|].
    exfalso. apply orb_false_iff in E. destruct E as [_ E].
    change G_HREF_STEPS with true in E. cbn [andb] in E. apply Nat.ltb_ge in E. lia.
  - cbn [href_go]. destruct (node_attr d AHref curr) as [link|]; [|simpl; lia].
    destruct ((G_HREF_SELF && Nat.eqb (s_id link) (s_id curr)) || (G_HREF_ORIGIN && Nat.eqb (s_id link) (s_id origin))
              || (G_HREF_STEPS && Nat.ltb len (S steps))) eqn:E; [simpl; lia|].
    apply orb_false_iff in E. destruct E as [_ E].
    change G_HREF_STEPS with true in E. cbn [andb] in E. apply Nat.ltb_ge in E.
    specialize (IH link (S steps)). destruct (href_go f d len origin link (S steps)) as [l o].
    cbn [fst snd] in *. destruct IH as [IH1 IH2]; [lia|]. split; [exact IH1|]. simpl. lia.
Qed.

Lemma href_iter_bounded d n :
  snd (href_iter d n) = false /\ length (fst (href_iter d n)) <= S (length (sflat d)).
Proof.
  unfold href_iter.
  pose proof (href_go_bounded d (length (sflat d)) n (S (length (sflat d))) n O) as H.
  destruct (href_go (S (length (sflat d))) d (length (sflat d)) n n 0) as [l o].
  cbn [fst snd] in *. destruct H as [H1 H2]; [lia|]. split; [exact H1|]. simpl. lia.
Qed.

(* ------------------------------------------------------------------------------------------ *)
(* set_none and the pre-pass loops                                                              *)
(* ------------------------------------------------------------------------------------------ *)
Lemma set_none_id id k x : s_id (set_none id k x) = s_id x.
Proof. destruct x; reflexivity. Qed.
Lemma set_none_tag id k x : s_tag (set_none id k x) = s_tag x.
Proof. destruct x; reflexivity. Qed.
Lemma set_none_name id k x : s_name (set_none id k x) = s_name x.
Proof. destruct x; reflexivity. Qed.
Lemma set_none_attrs id k x :
  s_attrs (set_none id k x) = if Nat.eqb (s_id x) id then attrs_set_none k (s_attrs x) else s_attrs x.
Proof. destruct x; reflexivity. Qed.

Lemma sflat_set_none id k : forall x, sflat (set_none id k x) = map (set_none id k) (sflat x).
Proof.
  induction x as [i t n f a ks IH] using snode_ind'.
  cbn [set_none sflat map]. f_equal.
  induction ks as [|c r IHr]; [reflexivity|].
  inversion IH as [|? ? Hc Hr]; subst. cbn [map flat_map]. rewrite map_app, Hc, IHr; [reflexivity|exact Hr].
Qed.

Lemma akey_eqb_eq a b : akey_eqb a b = true <-> a = b.
Proof. destruct a, b; simpl; split; intro H; try reflexivity; discriminate. Qed.
Lemma akey_eqb_refl a : akey_eqb a a = true.
Proof. destruct a; reflexivity. Qed.

Lemma attr_get_set_none_same k a : attr_link k (attrs_set_none k a) = None.
Proof.
  unfold attr_link. induction a as [|[k' v] r IH]; [reflexivity|].
  cbn [attrs_set_none]. destruct (akey_eqb k k') eqn:E; cbn [attr_get]; rewrite E; [reflexivity|exact IH].
Qed.

Lemma attr_get_set_none_other k k' a : k <> k' -> attr_get k' (attrs_set_none k a) = attr_get k' a.
Proof.
  intro Hne. induction a as [|[k0 v] r IH]; [reflexivity|].
  cbn [attrs_set_none]. destruct (akey_eqb k k0) eqn:E; cbn [attr_get].
  - apply akey_eqb_eq in E. subst k0.
    destruct (akey_eqb k' k) eqn:E2; [apply akey_eqb_eq in E2; congruence|exact IH].
  - destruct (akey_eqb k' k0); [reflexivity|exact IH].
Qed.

(* a link never appears: removing is monotone *)
Lemma attr_link_set_none k0 k a v : attr_link k (attrs_set_none k0 a) = Some v -> attr_link k a = Some v.
Proof.
  destruct (akey_eqb k0 k) eqn:E.
  - apply akey_eqb_eq in E. subst. rewrite attr_get_set_none_same. discriminate.
  - unfold attr_link. rewrite attr_get_set_none_other; [exact (fun H => H)|].
    intro Heq. subst. rewrite akey_eqb_refl in E. discriminate.
Qed.

Lemma has_link_set_none id k0 k x : has_link k (set_none id k0 x) = true -> has_link k x = true.
Proof.
  unfold has_link. rewrite set_none_attrs. destruct (Nat.eqb (s_id x) id); [|exact (fun H => H)].
  destruct (attr_link k (attrs_set_none k0 (s_attrs x))) eqn:E; [|discriminate].
  apply attr_link_set_none in E. rewrite E. reflexivity.
Qed.

Lemma has_link_set_none_hit k x : has_link k (set_none (s_id x) k x) = false.
Proof. unfold has_link. rewrite set_none_attrs, Nat.eqb_refl, attr_get_set_none_same. reflexivity. Qed.

Lemma filter_map_le {A} (g h : A -> bool) (S : A -> A) l :
  (forall x, g (S x) = true -> h x = true) -> length (filter g (map S l)) <= length (filter h l).
Proof.
  intro H. induction l as [|a r IH]; [simpl; lia|]. cbn [map filter].
  destruct (g (S a)) eqn:E; [rewrite (H a E); simpl; lia|]. destruct (h a); simpl; lia.
Qed.

Lemma filter_map_lt {A} (g h : A -> bool) (S : A -> A) l x :
  (forall x, g (S x) = true -> h x = true) -> In x l -> h x = true -> g (S x) = false ->
  length (filter g (map S l)) < length (filter h l).
Proof.
  intros H Hin Hh Hg. induction l as [|a r IH]; [destruct Hin|]. cbn [map filter].
  destruct Hin as [->|Hin].
  - rewrite Hg, Hh. pose proof (filter_map_le g h S r H). simpl. lia.
  - specialize (IH Hin). destruct (g (S a)) eqn:E; [rewrite (H a E); simpl; lia|]. destruct (h a); simpl; lia.
Qed.

Lemma count_set_none_le id k0 k d : count_links k (set_none id k0 d) <= count_links k d.
Proof.
  unfold count_links. rewrite sflat_set_none. apply filter_map_le. intro x. apply has_link_set_none.
Qed.

Lemma count_set_none_lt k d n : In n (sflat d) -> has_link k n = true ->
  count_links k (set_none (s_id n) k d) < count_links k d.
Proof.
  intros Hin Hl. unfold count_links. rewrite sflat_set_none.
  apply (filter_map_lt _ _ _ _ n); try assumption.
  - intro x. apply has_link_set_none.
  - apply has_link_set_none_hit.
Qed.

(* a finder is sound when what it reports is an element of the document that carries the link *)
Definition finder_sound (find : snode -> option nat) (k : akey) : Prop :=
  forall d id, find d = Some id -> exists n, In n (sflat d) /\ s_id n = id /\ has_link k n = true.

Lemma fix_loop_adequate find k : finder_sound find k ->
  forall fuel d, count_links k d <= fuel ->
  match fix_loop fuel find k d with
  | (d', n, fin) => fin = true /\ n <= count_links k d /\ find d' = None
  end.
Proof.
  intro Hs. induction fuel as [|f IH]; intros d Hc; cbn [fix_loop].
  - destruct (find d) as [id|] eqn:E; [|repeat split; [lia|exact E]].
    exfalso. destruct (Hs d id E) as (n & Hin & _ & Hl).
    assert (0 < count_links k d); [|lia]. unfold count_links.
    assert (In n (filter (has_link k) (sflat d))) as H by (apply filter_In; split; assumption).
    destruct (filter (has_link k) (sflat d)); [destruct H|simpl; lia].
  - destruct (find d) as [id|] eqn:E; [|repeat split; [lia|exact E]].
    destruct (Hs d id E) as (n & Hin & Hid & Hl). subst id.
    pose proof (count_set_none_lt k d n Hin Hl) as Hlt.
    specialize (IH (set_none (s_id n) k d)). destruct (fix_loop f find k (set_none (s_id n) k d)) as [[d' m] fin].
    destruct IH as (H1 & H2 & H3); [lia|]. repeat split; [exact H1|lia|exact H3].
Qed.

Lemma run_loop_adequate find k d : finder_sound find k ->
  match run_loop find k d with
  | (d', n, fin) => fin = true /\ n <= count_links k d /\ find d' = None
  end.
Proof. intro Hs. unfold run_loop. apply fix_loop_adequate; [exact Hs|lia]. Qed.

(* the scans stay inside the document whatever their scope is; on the unchanged source they are the descendants *)
Lemma link_scope_in d node c : In node (sflat d) -> In c (link_scope d node) -> In c (sflat d).
Proof. unfold link_scope. destruct G_PRE_LINK_SCOPE; [apply sflat_trans|exact (fun _ H => H)]. Qed.
Lemma pat_scope_in d p c : In p (sflat d) -> In c (pat_scope d p) -> In c (sflat d).
Proof. unfold pat_scope. destruct G_PRE_PAT_SCOPE; [apply sflat_trans|exact (fun _ H => H)]. Qed.
Lemma link_scope_eq d node : link_scope d node = sflat node.
Proof. reflexivity. Qed.
Lemma pat_scope_eq d p : pat_scope d p = sflat p.
Proof. reflexivity. Qed.

Lemma find_pattern_sound k : finder_sound (find_recursive_pattern k) k.
Proof.
  intros d id H. unfold find_recursive_pattern in H.
  apply find_map_some in H. destruct H as (p & Hp & H).
  destruct (tag_eqb (s_tag p) TPattern); [|discriminate].
  apply find_map_some in H. destruct H as (node & Hnode & H).
  destruct (attr_link k (s_attrs node)) as [lid|] eqn:El; [|discriminate].
  destruct (optN_eqb (Some lid) (s_name p)).
  - destruct G_PRE_PAT_SELF; [|discriminate]. injection H as <-.
    exists node. repeat split; [apply (pat_scope_in d p node Hp Hnode)|]. unfold has_link. rewrite El. reflexivity.
  - destruct G_PRE_PAT_TWO; [|discriminate].
    destruct (lookup d lid) as [ln|] eqn:Eln; [|discriminate].
    apply find_map_some in H. destruct H as (n2 & Hn2 & H).
    destruct (attr_link k (s_attrs n2)) as [l2|] eqn:E2; [|discriminate].
    destruct (optN_eqb (Some l2) (s_name p)); [|discriminate]. injection H as <-.
    exists n2. repeat split; [eapply sflat_trans; [eapply lookup_in; exact Eln|exact Hn2]|].
    unfold has_link. rewrite E2. reflexivity.
Qed.

Lemma node_attr_has_link d k n l : node_attr d k n = Some l -> has_link k n = true.
Proof. intro H. destruct (node_attr_inv _ _ _ _ H) as (nm & Hn & _). unfold has_link. rewrite Hn. reflexivity. Qed.

Lemma find_link_sound e k : finder_sound (find_recursive_link e k) k.
Proof.
  intros d id H. unfold find_recursive_link in H.
  apply find_map_some in H. destruct H as (node & Hnode & H).
  destruct (tag_eqb (s_tag node) e); [|discriminate].
  apply find_map_some in H. destruct H as (child & Hchild & H).
  destruct (node_attr d k child) as [link|] eqn:El; [|discriminate].
  destruct (Nat.eqb (s_id link) (s_id node)).
  - destruct G_PRE_LINK_SELF; [|discriminate]. injection H as <-.
    exists child. repeat split; [apply (link_scope_in d node child Hnode Hchild)|eapply node_attr_has_link; exact El].
  - destruct G_PRE_LINK_TWO; [|discriminate].
    apply find_map_some in H. destruct H as (n2 & Hn2 & H).
    destruct (node_attr d k n2) as [l2|] eqn:E2; [|discriminate].
    destruct (Nat.eqb (s_id l2) (s_id node)); [|discriminate]. injection H as <-.
    exists n2. repeat split; [eapply sflat_trans; [eapply node_attr_in; exact El|exact Hn2]|eapply node_attr_has_link; exact E2].
Qed.

(* what `find.. = None` means *)
Definition no_short_link_cycle (e : tagk) (k : akey) (d : snode) : Prop :=
  forall node child link, In node (sflat d) -> s_tag node = e -> In child (sflat node) ->
    node_attr d k child = Some link ->
    s_id link <> s_id node /\
    forall n2 l2, In n2 (sflat link) -> node_attr d k n2 = Some l2 -> s_id l2 <> s_id node.

Definition no_short_pattern_cycle (k : akey) (d : snode) : Prop :=
  forall p node lid, In p (sflat d) -> s_tag p = TPattern -> In node (sflat p) ->
    attr_link k (s_attrs node) = Some lid ->
    Some lid <> s_name p /\
    forall ln n2 l2, lookup d lid = Some ln -> In n2 (sflat ln) -> attr_link k (s_attrs n2) = Some l2 -> Some l2 <> s_name p.

Lemma tag_eqb_refl t : tag_eqb t t = true.
Proof. destruct t; reflexivity. Qed.

Lemma optN_eqb_eq a b : optN_eqb a b = true <-> a = b.
Proof.
  destruct a, b; simpl; try (split; [discriminate|discriminate]); try (split; reflexivity).
  rewrite N.eqb_eq. split; [intros ->; reflexivity|intros [= ->]; reflexivity].
Qed.

Lemma find_link_none e k d : find_recursive_link e k d = None -> no_short_link_cycle e k d.
Proof.
  intros H node child link Hnode Htag Hchild Hl. unfold find_recursive_link in H.
  rewrite find_map_none in H. specialize (H node Hnode). rewrite Htag, tag_eqb_refl in H.
  rewrite link_scope_eq in H.
  rewrite find_map_none in H. specialize (H child Hchild). rewrite Hl in H.
  change G_PRE_LINK_SELF with true in H. change G_PRE_LINK_TWO with true in H.
  destruct (Nat.eqb (s_id link) (s_id node)) eqn:E; [discriminate|].
  apply Nat.eqb_neq in E. split; [exact E|]. intros n2 l2 Hn2 Hl2.
  rewrite find_map_none in H. specialize (H n2 Hn2). rewrite Hl2 in H.
  destruct (Nat.eqb (s_id l2) (s_id node)) eqn:E2; [discriminate|]. apply Nat.eqb_neq in E2. exact E2.
Qed.

Lemma find_pattern_none k d : find_recursive_pattern k d = None -> no_short_pattern_cycle k d.
Proof.
  intros H p node lid Hp Htag Hnode Hl. unfold find_recursive_pattern in H.
  rewrite find_map_none in H. specialize (H p Hp). rewrite Htag in H. cbn [tag_eqb] in H.
  rewrite pat_scope_eq in H.
  rewrite find_map_none in H. specialize (H node Hnode). rewrite Hl in H.
  change G_PRE_PAT_SELF with true in H. change G_PRE_PAT_TWO with true in H.
  destruct (optN_eqb (Some lid) (s_name p)) eqn:E; [discriminate|].
  split; [intro Heq; apply optN_eqb_eq in Heq; congruence|].
  intros ln n2 l2 Hln Hn2 Hl2. rewrite Hln in H.
  rewrite find_map_none in H. specialize (H n2 Hn2). rewrite Hl2 in H.
  destruct (optN_eqb (Some l2) (s_name p)) eqn:E2; [discriminate|].
  intro Heq; apply optN_eqb_eq in Heq; congruence.
Qed.

(* ------------------------------------------------------------------------------------------ *)
(* a plain shape is converted whatever the rest of the document looks like                      *)
(* ------------------------------------------------------------------------------------------ *)
Lemma no_links_get a k v : no_links a -> attr_get k a = Some v -> v = None.
Proof.
  induction 1 as [|[k' v'] r Hh Hr IH]; cbn [attr_get]; [discriminate|].
  destruct (akey_eqb k k'); [intros [= <-]; exact Hh|exact IH].
Qed.

Lemma no_links_link a k : no_links a -> attr_link k a = None.
Proof.
  intro H. unfold attr_link. destruct (attr_get k a) as [[v|]|] eqn:E; try reflexivity.
  pose proof (no_links_get a k _ H E). discriminate.
Qed.

Lemma no_links_filter a f : no_links a -> no_links (filter f a).
Proof. unfold no_links. rewrite !Forall_forall. intros H x Hx. apply filter_In in Hx. apply H, Hx. Qed.

Lemma no_links_eff env a : no_links env -> no_links a -> no_links (eff_env env a).
Proof.
  intros He Ha. unfold no_links, eff_env. rewrite Forall_forall. intros [k v] Hin.
  apply in_flat_map in Hin. destruct Hin as (k0 & _ & Hin).
  destruct (attr_get k0 a) as [v0|] eqn:E.
  - destruct Hin as [[= <- <-]|[]]. exact (no_links_get _ _ _ Ha E).
  - destruct (attr_get k0 env) as [v1|] eqn:E1; [|destruct Hin].
    destruct Hin as [[= <- <-]|[]]. exact (no_links_get _ _ _ He E1).
Qed.

Lemma inherit_attrs_no_links env uc x : no_links env -> no_links (s_attrs x) ->
  no_links (s_attrs (inherit env uc x)).
Proof.
  intros He Ha. destruct x as [i t n f a ks]. cbn [inherit s_attrs] in *.
  apply Forall_app. split; [apply no_links_filter, Ha|].
  destruct (uc || tag_eqb t TClipPath); [apply no_links_filter|]; apply no_links_eff; assumption.
Qed.

Lemma inherit_shape env uc x :
  s_id (inherit env uc x) = s_id x /\ s_tag (inherit env uc x) = s_tag x /\ s_name (inherit env uc x) = s_name x.
Proof. destruct x; repeat split. Qed.

Definition plain_state (st : cstate) : Prop := st_clip st = false /\ st_markers st = [].

Lemma node_attr_no_links d k n : no_links (s_attrs n) -> node_attr d k n = None.
Proof.
  intro H. unfold node_attr. destruct (G_NODEATTR_FUNCIRI && is_flist k (s_attrs n)); [reflexivity|].
  rewrite no_links_link; [reflexivity|exact H].
Qed.

Lemma no_links_flist a : no_links a -> existsb is_some (flist a) = false.
Proof.
  unfold flist. induction 1 as [|[k' v'] r Hh Hr IH]; [reflexivity|]. cbn [filter].
  destruct (is_filter_key (k', v')); [|exact IH]. cbn [map snd existsb]. cbn [snd] in Hh. subst v'. exact IH.
Qed.

Lemma group_tail_plain d follow n st items c :
  no_links (s_attrs n) -> nonempty items = true ->
  group_tail d follow n st items c =
    Done (if is_g_or_use n then [IGroup (match st_markers st with [] => s_name n | _ => None end) items] else items) c.
Proof.
  intros Hn Hne. unfold group_tail, group_empty. rewrite Hne. cbn [negb andb].
  rewrite (node_attr_no_links d AClip n Hn). unfold g_mask. rewrite (node_attr_no_links d AMask n Hn).
  assert (Hfil : g_filter d follow n st items false false c = g_finish n st items false false false c).
  { unfold g_filter. destruct (st_clip st); [reflexivity|]. rewrite (no_links_flist _ Hn). reflexivity. }
  destruct (st_clip st); rewrite Hfil; unfold g_finish, group_empty; rewrite Hne; cbn [negb andb orb];
    destruct (is_g_or_use n); reflexivity.
Qed.

Lemma elem_plain_shape d follow w st c :
  s_tag w = TShape -> no_links (s_attrs w) -> plain_state st ->
  elem d follow w st c = Done [IPath (s_name w)] c.
Proof.
  intros Ht Hn [Hc Hm]. destruct w as [i t n f a ks]. cbn [s_tag s_attrs s_name] in *. subst t.
  assert (Hn' : no_links (s_attrs (SN i TShape n f a ks))) by exact Hn.
  cbn [elem]. unfold path, paint, marker1. rewrite Hc.
  rewrite !(node_attr_no_links d _ _ Hn'). cbn [bind]. rewrite Hm.
  rewrite group_tail_plain; [|exact Hn'|reflexivity]. reflexivity.
Qed.

Lemma children_done_in d follow st : forall l c items c',
  children d follow l st c = Done items c' ->
  forall k, In k l -> exists ck a ck', elem d follow k st ck = Done a ck' /\
                                        forall x, In x (item_names a) -> In x (item_names items).
Proof.
  induction l as [|k0 r IH]; intros c items c' H k Hk; [destruct Hk|].
  cbn [children] in H. destruct (elem d follow k0 st c) as [a c1|] eqn:E0; [|discriminate].
  cbn [bind] in H. destruct (children d follow r st c1) as [b c2|] eqn:Er; [|discriminate].
  cbn [bind] in H. injection H as <- <-.
  destruct Hk as [<-|Hk].
  - exists c, a, c1. split; [exact E0|]. intros x Hx. unfold item_names in *. rewrite flat_map_app. apply in_or_app. left. exact Hx.
  - destruct (IH c1 b c2 Er k Hk) as (ck & a' & ck' & He & Hsub). exists ck, a', ck'. split; [exact He|].
    intros x Hx. unfold item_names in *. rewrite flat_map_app. apply in_or_app. right. apply Hsub, Hx.
Qed.

(* w sits below x through svg / g elements that carry no references *)
Inductive plain_at (w : snode) : snode -> Prop :=
  | plain_here i t n f a ks : (t = TSvg \/ t = TG) -> no_links a -> In w ks ->
      s_tag w = TShape -> no_links (s_attrs w) -> plain_at w (SN i t n f a ks)
  | plain_below i t n f a ks y : (t = TSvg \/ t = TG) -> no_links a -> In y ks -> plain_at w y ->
      plain_at w (SN i t n f a ks).

Lemma elem_plain_at d follow w nm : s_name w = Some nm ->
  forall x, plain_at w x -> forall env uc st c out c',
  no_links env -> plain_state st ->
  elem d follow (inherit env uc x) st c = Done out c' -> In nm (item_names out).
Proof.
  intros Hnm x Hp. induction Hp as [i t n f a ks Ht Ha Hin Hwt Hwa | i t n f a ks y Ht Ha Hin Hp IH];
    intros env uc st c out c' He Hst Hrun.
  - (* the shape is a child *)
    set (env' := eff_env env a). set (uc' := uc || tag_eqb t TClipPath).
    assert (Henv' : no_links env') by (apply no_links_eff; assumption).
    assert (Hn' : no_links (s_attrs (inherit env uc (SN i t n f a ks)))) by (apply inherit_attrs_no_links; assumption).
    assert (Hrun' : exists items c1,
               children d follow (map (inherit env' uc') ks) st c = Done items c1 /\
               group_tail d follow (inherit env uc (SN i t n f a ks)) st items c1 = Done out c').
    { destruct Hst as [Hc Hm]. destruct Ht as [-> | ->]; cbn [inherit elem] in Hrun; rewrite Hc in Hrun;
        rewrite go_children in Hrun; fold env' uc' in Hrun; revert Hrun;
        (destruct (children d follow (map (inherit env' uc') ks) st c) as [items c1|] eqn:Ec; cbn [bind]; intro Hrun; [|discriminate]);
        exists items, c1; (split; [reflexivity|exact Hrun]). }
    destruct Hrun' as (items & c1 & Hch & Hgt).
    destruct (children_done_in d follow st _ _ _ _ Hch (inherit env' uc' w) (in_map _ _ _ Hin)) as (ck & a0 & ck' & Hew & Hsub).
    rewrite elem_plain_shape in Hew.
    2: { destruct (inherit_shape env' uc' w) as (_ & -> & _). exact Hwt. }
    2: { apply inherit_attrs_no_links; assumption. }
    2: { exact Hst. }
    injection Hew as <- _.
    assert (Hin_items : In nm (item_names items)).
    { apply Hsub. destruct (inherit_shape env' uc' w) as (_ & _ & ->). rewrite Hnm. left. reflexivity. }
    assert (Hne : nonempty items = true).
    { destruct items; [destruct Hin_items|reflexivity]. }
    rewrite group_tail_plain in Hgt; [|exact Hn'|exact Hne]. injection Hgt as <- _.
    destruct (is_g_or_use _); [|exact Hin_items].
    unfold item_names. cbn [flat_map item_names1]. rewrite app_nil_r. apply in_or_app. right. exact Hin_items.
  - (* the shape is deeper *)
    set (env' := eff_env env a). set (uc' := uc || tag_eqb t TClipPath).
    assert (Henv' : no_links env') by (apply no_links_eff; assumption).
    assert (Hn' : no_links (s_attrs (inherit env uc (SN i t n f a ks)))) by (apply inherit_attrs_no_links; assumption).
    assert (Hrun' : exists items c1,
               children d follow (map (inherit env' uc') ks) st c = Done items c1 /\
               group_tail d follow (inherit env uc (SN i t n f a ks)) st items c1 = Done out c').
    { destruct Hst as [Hc Hm]. destruct Ht as [-> | ->]; cbn [inherit elem] in Hrun; rewrite Hc in Hrun;
        rewrite go_children in Hrun; fold env' uc' in Hrun; revert Hrun;
        (destruct (children d follow (map (inherit env' uc') ks) st c) as [items c1|] eqn:Ec; cbn [bind]; intro Hrun; [|discriminate]);
        exists items, c1; (split; [reflexivity|exact Hrun]). }
    destruct Hrun' as (items & c1 & Hch & Hgt).
    destruct (children_done_in d follow st _ _ _ _ Hch (inherit env' uc' y) (in_map _ _ _ Hin)) as (ck & a0 & ck' & Hey & Hsub).
    assert (Hin_items : In nm (item_names items)).
    { apply Hsub. eapply IH; [exact Henv'|exact Hst|exact Hey]. }
    assert (Hne : nonempty items = true).
    { destruct items; [destruct Hin_items|reflexivity]. }
    rewrite group_tail_plain in Hgt; [|exact Hn'|exact Hne]. injection Hgt as <- _.
    destruct (is_g_or_use _); [|exact Hin_items].
    unfold item_names. cbn [flat_map item_names1]. rewrite app_nil_r. apply in_or_app. right. exact Hin_items.
Qed.

(* the document node (nodes[0]) has the document element among its children *)
Definition witness_in (d w : snode) : Prop :=
  no_links (s_attrs d) /\ exists x, In x (s_kids d) /\ plain_at w x.

Lemma convert_keeps_witness d w nm : witness_in d w -> s_name w = Some nm ->
  exists out c, convert d = Done out c /\ In nm (item_names out).
Proof.
  intros (Hroot & x & Hx & Hp) Hnm.
  destruct (convert d) as [out c|] eqn:E; [|exfalso; exact (convert_terminates d E)].
  exists out, c. split; [reflexivity|].
  unfold convert in E. destruct d as [i t n f a ks]. cbn [inherit s_kids] in *.
  set (di := SN i t n f _ _) in E.
  destruct (children_done_in di (conv_def di (conv_fuel di)) st0 _ _ _ _ E _ (in_map _ _ _ Hx)) as (ck & a0 & ck' & He & Hsub).
  apply Hsub. eapply (elem_plain_at _ _ w nm Hnm x Hp _ _ st0); [ |split; reflexivity|exact He].
  apply no_links_eff; [constructor|exact Hroot].
Qed.

(* ------------------------------------------------------------------------------------------ *)
(* from the XML document to the produced tree                                                   *)
(* ------------------------------------------------------------------------------------------ *)
Inductive xplain_at (w : xnode) : xnode -> Prop :=
  | xplain_here u t n f a ks : (t = TSvg \/ t = TG) -> no_links a -> In w ks ->
      xtag w = TShape -> no_links (xattrs w) -> xplain_at w (XN u t n f a ks)
  | xplain_below u t n f a ks y : (t = TSvg \/ t = TG) -> no_links a -> In y ks -> xplain_at w y ->
      xplain_at w (XN u t n f a ks).

Lemma bnode_keeps_plain dl nl w : forall x, xplain_at w x ->
  forall fuel doc origin depth st st' out,
  bnode dl nl fuel doc x origin false depth st = (st', OOk out) ->
  exists x' w', out = [x'] /\ plain_at w' x' /\ s_name w' = xname w.
Proof.
  intros x Hp. induction Hp as [u t n f a ks Ht Ha Hin Hwt Hwa | u t n f a ks y Ht Ha Hin Hp IH];
    intros fuel doc origin depth st st' out H.
  - destruct (bnode_ok_container dl nl fuel doc (XN u t n f a ks) origin false depth st st' out Ht H)
      as (f0 & id & st1 & ks' & -> & -> & Hk). cbn [xtag xname xflag xattrs xkids] in *.
    destruct (bkids_ok_in _ _ _ _ _ Hk w Hin) as (s & s1 & a0 & Hw & Hincl).
    destruct (bnode_ok_shape dl nl f0 doc w origin false _ s s1 a0 Hwt Hw) as (idw & ksw & ->).
    eexists _, (SN idw TShape (xname w) (xflag w) (xattrs w) ksw). split; [reflexivity|]. split; [|reflexivity].
    apply plain_here; try assumption; [apply Hincl; left; reflexivity|reflexivity].
  - destruct (bnode_ok_container dl nl fuel doc (XN u t n f a ks) origin false depth st st' out Ht H)
      as (f0 & id & st1 & ks' & -> & -> & Hk). cbn [xtag xname xflag xattrs xkids] in *.
    destruct (bkids_ok_in _ _ _ _ _ Hk y Hin) as (s & s1 & a0 & Hy & Hincl).
    destruct (IH _ _ _ _ _ _ _ Hy) as (y' & w' & -> & Hp' & Hnm).
    eexists _, w'. split; [reflexivity|]. split; [|exact Hnm].
    eapply plain_below; try eassumption. apply Hincl. left. reflexivity.
Qed.

Lemma build_with_keeps_plain dl nl fuel x w st s : xplain_at w x -> build_with dl nl fuel x = (st, OOk s) ->
  exists w', witness_in s w' /\ s_name w' = xname w.
Proof.
  intros Hp H. unfold build_with in H.
  destruct (bnode dl nl fuel x x [] false 0 bstate0)
    as [st1 [ks| |]] eqn:E; try discriminate.
  injection H as <- <-.
  eapply (bnode_keeps_plain _ _ w x Hp) in E. destruct E as (x' & w' & -> & Hp' & Hnm).
  exists w'. split; [|exact Hnm]. split; [constructor|]. exists x'. split; [left; reflexivity|exact Hp'].
Qed.

Lemma build_keeps_plain x w st s : xplain_at w x -> build x = (st, OOk s) ->
  exists w', witness_in s w' /\ s_name w' = xname w.
Proof. exact (build_with_keeps_plain DEPTH_LIMIT NODES_LIMIT build_fuel x w st s). Qed.

(* set_none keeps plain shapes plain *)
Lemma no_links_set_none k a : no_links a -> no_links (attrs_set_none k a).
Proof.
  induction 1 as [|[k' v] r Hh Hr IH]; [constructor|]. cbn [attrs_set_none].
  destruct (akey_eqb k k'); constructor; try assumption; reflexivity.
Qed.

Lemma set_none_no_links id k x : no_links (s_attrs x) -> no_links (s_attrs (set_none id k x)).
Proof. intro H. rewrite set_none_attrs. destruct (Nat.eqb (s_id x) id); [apply no_links_set_none|]; exact H. Qed.

Lemma set_none_plain id k w x : plain_at w x -> plain_at (set_none id k w) (set_none id k x).
Proof.
  induction 1 as [i t n f a ks Ht Ha Hin Hwt Hwa | i t n f a ks y Ht Ha Hin Hp IH]; cbn [set_none].
  - apply plain_here; try assumption.
    + destruct (Nat.eqb i id); [apply no_links_set_none|]; exact Ha.
    + apply in_map, Hin.
    + rewrite set_none_tag. exact Hwt.
    + apply set_none_no_links, Hwa.
  - eapply plain_below; try eassumption.
    + destruct (Nat.eqb i id); [apply no_links_set_none|]; exact Ha.
    + apply in_map, Hin.
Qed.

Definition has_witness (nm : option N) (d : snode) : Prop := exists w, witness_in d w /\ s_name w = nm.

Lemma set_none_witness nm id k d : has_witness nm d -> has_witness nm (set_none id k d).
Proof.
  intros (w & (Hroot & x & Hx & Hp) & Hnm). exists (set_none id k w). split; [|rewrite set_none_name; exact Hnm].
  split; [apply set_none_no_links, Hroot|]. exists (set_none id k x). split; [|apply set_none_plain, Hp].
  destruct d as [i t n f a ks]. cbn [set_none s_kids] in *. apply in_map, Hx.
Qed.

(* everything the pre-pass does is a sequence of set_none *)
Section Preserved.
Variable P : snode -> Prop.
Hypothesis HP : forall id k d, P d -> P (set_none id k d).

Lemma fix_loop_preserves find k : forall fuel d, P d -> P (fst (fst (fix_loop fuel find k d))).
Proof.
  induction fuel as [|f IH]; intros d Hd; cbn [fix_loop]; destruct (find d) as [id|]; try exact Hd.
  specialize (IH (set_none id k d) (HP id k d Hd)).
  destruct (fix_loop f find k (set_none id k d)) as [[d' n] fin]. exact IH.
Qed.

Lemma loop_doc_preserves find k d : P d -> P (loop_doc find k d).
Proof. intro H. unfold loop_doc, run_loop. apply fix_loop_preserves, H. Qed.

Lemma fold_set_none_preserves k : forall l d, P d -> P (fold_left (fun d id => set_none id k d) l d).
Proof. induction l as [|id r IH]; intros d Hd; [exact Hd|]. cbn [fold_left]. apply IH, HP, Hd. Qed.

Lemma prepass_step_preserves s d : P d -> P (prepass_step s d).
Proof.
  intro H. destruct s; cbn [prepass_step]; try exact H.
  - destruct G_PRE_PAT_LOOPS; [|exact H]. apply loop_doc_preserves, loop_doc_preserves, H.
  - destruct G_PRE_LINK_LOOP; [|exact H]. apply loop_doc_preserves, H.
  - destruct G_PRE_LINK_LOOP; [|exact H]. apply loop_doc_preserves, H.
  - destruct G_PRE_LINK_LOOP; [|exact H]. apply loop_doc_preserves, H.
  - unfold fix_fe_image. destruct G_PRE_FEIMAGE; [|exact H]. apply fold_set_none_preserves, H.
Qed.

Lemma prepass_preserves d : P d -> P (prepass d).
Proof.
  unfold prepass. generalize PREPASS. intro l. revert d.
  induction l as [|s r IH]; intros d Hd; [exact Hd|]. cbn [fold_left]. apply IH, prepass_step_preserves, Hd.
Qed.
End Preserved.

Lemma parse_of_total b : snd b <> OOut -> parse_of b <> POutOfFuel.
Proof.
  destruct b as [st [s|k|]]; cbn [snd parse_of]; intro H; try discriminate; [|congruence].
  destruct (convert (prepass s)) as [out c|] eqn:E; [discriminate|]. exfalso. exact (convert_terminates _ E).
Qed.

Lemma parse_total x : parse x <> POutOfFuel.
Proof. exact (parse_of_total (build x) (proj1 (build_inv x))). Qed.

Lemma parse_of_keeps_witness b nm :
  snd b <> OOut -> (forall st s, b = (st, OOk s) -> has_witness (Some nm) s) ->
  match parse_of b with
  | POk out _ => In nm (item_names out)
  | PErr => exists k, snd b = OErr k
  | POutOfFuel => False
  end.
Proof.
  destruct b as [st [s|k|]]; cbn [snd parse_of]; intros Ho Hw; [|exists k; reflexivity|congruence].
  assert (Hpre : has_witness (Some nm) (prepass s)).
  { apply prepass_preserves; [intros; apply set_none_witness; assumption|]. apply (Hw st s eq_refl). }
  destruct Hpre as (w2 & Hw2 & Hn2).
  destruct (convert_keeps_witness (prepass s) w2 nm Hw2 Hn2) as (out & c & -> & Hin). exact Hin.
Qed.

Lemma parse_keeps_witness x w nm : xplain_at w x -> xname w = Some nm ->
  match parse x with
  | POk out _ => In nm (item_names out)
  | PErr => exists k, snd (build x) = OErr k
  | POutOfFuel => False
  end.
Proof.
  intros Hp Hnm. apply (parse_of_keeps_witness (build x) nm (proj1 (build_inv x))).
  intros st s Hb. destruct (build_keeps_plain x w st s Hp Hb) as (w' & Hw & Hn'). exists w'. split; [exact Hw|congruence].
Qed.

(* ------------------------------------------------------------------------------------------ *)
(* removing references never creates a short cycle: the exit conditions of the earlier loops    *)
(* survive the later ones, so they all hold of the document the pre-pass returns                *)
(* ------------------------------------------------------------------------------------------ *)
Lemma find_map_comm {A} (S : A -> A) (p p' : A -> bool) l :
  (forall x, p' (S x) = p x) -> find p' (map S l) = option_map S (find p l).
Proof.
  intro H. induction l as [|a r IH]; [reflexivity|]. cbn [map find]. rewrite H.
  destruct (p a); [reflexivity|exact IH].
Qed.

Lemma lookup_set_none id k d nm : lookup (set_none id k d) nm = option_map (set_none id k) (lookup d nm).
Proof.
  unfold lookup. rewrite sflat_set_none, <- map_rev. apply find_map_comm.
  intro x. rewrite set_none_name. reflexivity.
Qed.

Lemma attr_link_set_none_node id k0 k n v :
  attr_link k (s_attrs (set_none id k0 n)) = Some v -> attr_link k (s_attrs n) = Some v.
Proof.
  rewrite set_none_attrs. destruct (Nat.eqb (s_id n) id); [apply attr_link_set_none|exact (fun H => H)].
Qed.

Lemma flist_set_none_length k a : length (flist (attrs_set_none k a)) = length (flist a).
Proof.
  unfold flist. rewrite !map_length. induction a as [|[k' v] r IH]; [reflexivity|]. cbn [attrs_set_none].
  assert (Hk : forall v1 v2, is_filter_key (k', v1) = is_filter_key (k', v2)) by reflexivity.
  destruct (akey_eqb k k'); cbn [filter]; rewrite ?(Hk None v); destruct (is_filter_key (k', v));
    cbn [length]; try (apply (f_equal S)); exact IH.
Qed.

Lemma is_flist_set_none id k0 k n : is_flist k (s_attrs (set_none id k0 n)) = is_flist k (s_attrs n).
Proof.
  rewrite set_none_attrs. destruct (Nat.eqb (s_id n) id); [|reflexivity].
  unfold is_flist. rewrite flist_set_none_length. reflexivity.
Qed.

Lemma node_attr_set_none id k0 d k n l' :
  node_attr (set_none id k0 d) k (set_none id k0 n) = Some l' ->
  exists l, l' = set_none id k0 l /\ node_attr d k n = Some l.
Proof.
  unfold node_attr. rewrite is_flist_set_none. destruct (G_NODEATTR_FUNCIRI && is_flist k (s_attrs n)); [discriminate|].
  destruct (attr_link k (s_attrs (set_none id k0 n))) as [nm|] eqn:E; [|discriminate].
  apply attr_link_set_none_node in E. rewrite E, lookup_set_none.
  destruct (lookup d nm) as [l|]; [|discriminate]. intros [= <-]. exists l. split; reflexivity.
Qed.

Lemma in_sflat_set_none id k x y' : In y' (sflat (set_none id k x)) -> exists y, y' = set_none id k y /\ In y (sflat x).
Proof.
  rewrite sflat_set_none. intro H. apply in_map_iff in H. destruct H as (y & <- & Hy). exists y. split; [reflexivity|exact Hy].
Qed.

Lemma no_short_link_set_none e k id k0 d : no_short_link_cycle e k d -> no_short_link_cycle e k (set_none id k0 d).
Proof.
  intros H node' child' link' Hnode Htag Hchild Hl.
  apply in_sflat_set_none in Hnode. destruct Hnode as (node & -> & Hnode).
  apply in_sflat_set_none in Hchild. destruct Hchild as (child & -> & Hchild).
  apply node_attr_set_none in Hl. destruct Hl as (link & -> & Hl).
  rewrite set_none_tag in Htag. rewrite !set_none_id.
  destruct (H node child link Hnode Htag Hchild Hl) as [H1 H2]. split; [exact H1|].
  intros n2' l2' Hn2 Hl2.
  apply in_sflat_set_none in Hn2. destruct Hn2 as (n2 & -> & Hn2).
  apply node_attr_set_none in Hl2. destruct Hl2 as (l2 & -> & Hl2).
  rewrite set_none_id. exact (H2 n2 l2 Hn2 Hl2).
Qed.

Lemma no_short_pattern_set_none k id k0 d : no_short_pattern_cycle k d -> no_short_pattern_cycle k (set_none id k0 d).
Proof.
  intros H p' node' lid Hp Htag Hnode Hl.
  apply in_sflat_set_none in Hp. destruct Hp as (p & -> & Hp).
  apply in_sflat_set_none in Hnode. destruct Hnode as (node & -> & Hnode).
  apply attr_link_set_none_node in Hl. rewrite set_none_tag in Htag. rewrite set_none_name.
  destruct (H p node lid Hp Htag Hnode Hl) as [H1 H2]. split; [exact H1|].
  intros ln' n2' l2 Hln Hn2 Hl2. rewrite lookup_set_none in Hln.
  destruct (lookup d lid) as [ln|] eqn:E; [|discriminate]. injection Hln as <-.
  apply in_sflat_set_none in Hn2. destruct Hn2 as (n2 & -> & Hn2).
  apply attr_link_set_none_node in Hl2. exact (H2 ln n2 l2 eq_refl Hn2 Hl2).
Qed.

Lemma loop_doc_post_link e k d : no_short_link_cycle e k (loop_doc (find_recursive_link e k) k d).
Proof.
  unfold loop_doc. pose proof (run_loop_adequate (find_recursive_link e k) k d (find_link_sound e k)) as H.
  destruct (run_loop (find_recursive_link e k) k d) as [[d' n] fin]. destruct H as (_ & _ & H). apply find_link_none, H.
Qed.

Lemma loop_doc_post_pattern k d : no_short_pattern_cycle k (loop_doc (find_recursive_pattern k) k d).
Proof.
  unfold loop_doc. pose proof (run_loop_adequate (find_recursive_pattern k) k d (find_pattern_sound k)) as H.
  destruct (run_loop (find_recursive_pattern k) k d) as [[d' n] fin]. destruct H as (_ & _ & H). apply find_pattern_none, H.
Qed.

Definition prepass_post (d : snode) : Prop :=
  no_short_pattern_cycle AFill d /\ no_short_pattern_cycle AStroke d /\
  no_short_link_cycle TClipPath AClip d /\ no_short_link_cycle TMask AMask d /\ no_short_link_cycle TFilter AFilter d.

Lemma prepass_establishes d : prepass_post (prepass d).
Proof.
  unfold prepass. change PREPASS with [PPatterns; PLinkClip; PLinkMask; PLinkFilter; PFeImage].
  cbn [fold_left prepass_step]. change G_PRE_PAT_LOOPS with true. change G_PRE_LINK_LOOP with true. cbn iota.
  set (d1 := loop_doc (find_recursive_pattern AFill) AFill d).
  set (d2 := loop_doc (find_recursive_pattern AStroke) AStroke d1).
  set (d3 := loop_doc (find_recursive_link TClipPath AClip) AClip d2).
  set (d4 := loop_doc (find_recursive_link TMask AMask) AMask d3).
  set (d5 := loop_doc (find_recursive_link TFilter AFilter) AFilter d4).
  assert (Hk : forall (P : snode -> Prop), (forall id k x, P x -> P (set_none id k x)) ->
               forall f k x, P x -> P (loop_doc f k x)) by (intros P HP f k x; apply loop_doc_preserves, HP).
  assert (Hf : forall (P : snode -> Prop), (forall id k x, P x -> P (set_none id k x)) -> forall x, P x -> P (fix_fe_image x)).
  { intros P HP x Hx. unfold fix_fe_image. destruct G_PRE_FEIMAGE; [|exact Hx]. apply fold_set_none_preserves; assumption. }
  assert (A1 : no_short_pattern_cycle AFill d1) by apply loop_doc_post_pattern.
  assert (A2 : no_short_pattern_cycle AStroke d2) by apply loop_doc_post_pattern.
  assert (A3 : no_short_link_cycle TClipPath AClip d3) by apply loop_doc_post_link.
  assert (A4 : no_short_link_cycle TMask AMask d4) by apply loop_doc_post_link.
  assert (A5 : no_short_link_cycle TFilter AFilter d5) by apply loop_doc_post_link.
  pose proof (fun id k x => no_short_pattern_set_none AFill id k x) as P1.
  pose proof (fun id k x => no_short_pattern_set_none AStroke id k x) as P2.
  pose proof (fun id k x => no_short_link_set_none TClipPath AClip id k x) as P3.
  pose proof (fun id k x => no_short_link_set_none TMask AMask id k x) as P4.
  pose proof (fun id k x => no_short_link_set_none TFilter AFilter id k x) as P5.
  split; [|split; [|split; [|split]]].
  - apply (Hf (no_short_pattern_cycle AFill) P1). fold d5. do 4 apply (Hk (no_short_pattern_cycle AFill) P1). exact A1.
  - apply (Hf (no_short_pattern_cycle AStroke) P2). fold d5. do 3 apply (Hk (no_short_pattern_cycle AStroke) P2). exact A2.
  - apply (Hf (no_short_link_cycle TClipPath AClip) P3). fold d5. do 2 apply (Hk (no_short_link_cycle TClipPath AClip) P3). exact A3.
  - apply (Hf (no_short_link_cycle TMask AMask) P4). fold d5. apply (Hk (no_short_link_cycle TMask AMask) P4). exact A4.
  - apply (Hf (no_short_link_cycle TFilter AFilter) P5). exact A5.
Qed.
