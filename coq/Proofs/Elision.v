(* C08: a conditionally written numeric attribute that is NOT written has (up to the comparison tolerance of the
   writer's own test) the value the parser assumes for the absent attribute. *)
From RV Require Import Gen.ElisionTables.
From RV Require Import Model.Elision.
From Coq Require Import String List Bool ZArith QArith Qabs Lqa.
Import ListNotations.

Lemma all_elision_sites_ok : chk_elision_sites = true.
Proof. vm_compute. reflexivity. Qed.

Lemma elided_close : forall c d v,
  cond_const c = Some d -> written c v = false -> Qabs (v - d) <= tol c.
Proof.
  intros [c0|c0 n|s] d v Hc Hw; simpl in Hc; inversion Hc; subst d; clear Hc.
  - simpl in Hw. apply negb_false_iff in Hw. apply Qeq_bool_iff in Hw.
    unfold tol. assert (E : v - c0 == 0) by (rewrite Hw; ring). rewrite (Qabs_wd _ _ E). vm_compute. discriminate.
  - unfold written in Hw. apply negb_false_iff in Hw. apply Qle_bool_iff in Hw. exact Hw.
Qed.

Lemma elision_numeric_sound : forall name c d v,
  In (name, c, d) elision_sites -> written c v = false ->
  exists d0, d = Some d0 /\ Qabs (v - d0) <= tol c.
Proof.
  intros name c d v HI Hw.
  pose proof all_elision_sites_ok as H. unfold chk_elision_sites in H. rewrite forallb_forall in H.
  specialize (H _ HI). unfold elision_site_ok in H. simpl in H.
  destruct (cond_const c) as [c0|] eqn:Ec; [|discriminate]. destruct d as [d0|]; [|discriminate].
  apply Qeq_bool_iff in H. exists d0. split; [reflexivity|].
  pose proof (elided_close c c0 v Ec Hw) as B.
  assert (E : v - d0 == v - c0) by (rewrite H; ring). rewrite (Qabs_wd _ _ E). exact B.
Qed.

(* exact conditions (`!=`): an elided value IS the parser default *)
Lemma elision_exact_sound : forall name c0 d v,
  In (name, CNe c0, d) elision_sites -> written (CNe c0) v = false -> exists d0, d = Some d0 /\ v == d0.
Proof.
  intros name c0 d v HI Hw.
  destruct (elision_numeric_sound _ _ _ _ HI Hw) as (d0 & E & B). exists d0. split; [exact E|].
  unfold tol in B. apply Qabs_Qle_condition in B. destruct B as [B1 B2]. lra.
Qed.
