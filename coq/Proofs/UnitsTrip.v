From RV Require Import Gen.UnitsTables.
From RV Require Import Model.UnitsTrip.
From Coq Require Import String List Bool.
Import ListNotations.

Lemma units_eqb_eq a b : units_eqb a b = true -> a = b.
Proof. destruct a, b; simpl; intros H; try discriminate; reflexivity. Qed.

Lemma all_units_sites_ok : chk_units_sites = true.
Proof. vm_compute. reflexivity. Qed.

(* every *Units attribute the writer emits, every value the site can hold: the parser reads the value back
   (written: through the keyword table; elided: because the writer's `def` is the parser's default for that attribute) *)
Lemma units_roundtrip : forall a c wdef pdef u,
  In (a, c, wdef, pdef) units_sites -> In u (site_values (a, c, wdef, pdef)) ->
  read_units (write_units u wdef) pdef = Some u.
Proof.
  intros a c wdef pdef u HI Hu.
  pose proof all_units_sites_ok as H. unfold chk_units_sites in H. rewrite forallb_forall in H.
  specialize (H _ HI). unfold units_site_ok in H. rewrite forallb_forall in H. specialize (H _ Hu).
  destruct (read_units (write_units u wdef) pdef) as [u'|]; [|discriminate]. apply units_eqb_eq in H. now subst.
Qed.

Lemma units_all_complete : forall u, In u units_all.
Proof. destruct u; vm_compute; auto. Qed.

Lemma visibility_roundtrip : forall b, read_visible (write_visibility b) = Some b.
Proof. destruct b; vm_compute; reflexivity. Qed.
