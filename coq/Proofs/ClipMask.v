(* C15: clipping, masking and opacity only remove paint. *)
From RV Require Import Model.Base.
From RV Require Import Model.F32.
From RV Require Import Gen.ClipTables.
From RV Require Import Model.Blend8.
From RV Require Import Model.ClipMask.
From RV Require Import Proofs.ByteSweep.
Local Open Scope Q_scope.

Lemma unit_mul : forall a b, unit_q a -> unit_q b -> unit_q (a * b).
Proof.
  intros a b [A0 A1] [B0 B1]. unfold unit_q. split.
  - apply Qmult_le_0_compat; assumption.
  - setoid_replace 1 with (1 * 1) by ring. apply Qle_trans with (1 * b).
    + apply Qmult_le_compat_r; assumption.
    + rewrite Qmult_1_l. setoid_replace (1 * 1) with 1 by ring. exact B1.
Qed.
Lemma unit_compl : forall a, unit_q a -> unit_q (1 - a).
Proof. intros a [A0 A1]. unfold unit_q. split; lra. Qed.

Lemma blend_cov_unit : forall mode b e, unit_q b -> unit_q e -> unit_q (blend_cov mode b e).
Proof. intros mode b e [Hb0 Hb1] [He0 He1]. unfold unit_q. destruct mode; cbn [blend_cov]; split; nra. Qed.

Lemma kid_step_unit : forall mode b k, unit_q b -> unit_q (snd k) -> unit_q (kid_step mode b k).
Proof. intros mode b [g e] Hb He. unfold kid_step. cbn [fst snd] in *. destruct g; apply blend_cov_unit; assumption. Qed.

Lemma buffer_after_unit : forall mode kids b, kids_ok kids -> unit_q b -> unit_q (buffer_after mode kids b).
Proof.
  intros mode kids. unfold buffer_after. induction kids as [|k r IH]; intros b Hk Hb; cbn [fold_left].
  - exact Hb.
  - inversion Hk; subst. apply IH; [assumption|]. apply kid_step_unit; assumption.
Qed.

Lemma init_unit : unit_q (if clip_buffer_initial_opaque then 1 else 0).
Proof. unfold unit_q. destruct clip_buffer_initial_opaque; lra. Qed.

(* the clip factor is a number in [0,1]: multiplying by it never increases a channel *)
Lemma clip_factor_unit : forall kids nested, kids_ok kids -> unit_q nested -> unit_q (clip_factor kids nested).
Proof.
  intros kids n Hk [Hn0 Hn1]. unfold clip_factor, clip_buffer.
  apply unit_mul; [|split; assumption].
  apply unit_compl. exact (buffer_after_unit clip_children_mode kids _ Hk init_unit).
Qed.
Lemma group_cov_unit : forall kids own, kids_ok kids -> unit_q own -> unit_q (group_cov kids own).
Proof.
  intros kids own Hk [Ho0 Ho1]. unfold group_cov.
  assert (unit_q 0) as Hz by (unfold unit_q; lra).
  apply unit_mul; [|split; assumption]. exact (buffer_after_unit clip_group_children_mode kids 0 Hk Hz).
Qed.

Lemma apply_factor_le : forall p f, 0 <= p -> unit_q f -> 0 <= apply_factor p f /\ apply_factor p f <= p.
Proof. intros p f Hp [H0 H1]. unfold apply_factor. split; nra. Qed.

(* the same for whole clip trees of any depth and shape *)
Fixpoint wf_child (c : cchild) : Prop :=
  match c with
  | CPath cov => unit_q cov
  | CGroup ks cl => (fix all (l : list cchild) : Prop := match l with [] => True | k :: r => wf_child k /\ all r end) ks /\ wf_clip cl
  end
with wf_clip (cl : cclip) : Prop :=
  match cl with
  | CClip ks n => (fix all (l : list cchild) : Prop := match l with [] => True | k :: r => wf_child k /\ all r end) ks /\
                  match n with Some m => wf_clip m | None => True end
  end.

Fixpoint eff_unit (c : cchild) : wf_child c -> unit_q (snd (eff c))
with eval_clip_unit (cl : cclip) : wf_clip cl -> unit_q (eval_clip cl).
Proof.
  - destruct c as [cov|ks cl]; cbn [eff snd wf_child].
    + intro H. exact H.
    + intros [Hks Hcl]. apply group_cov_unit; [|apply eval_clip_unit, Hcl].
      clear Hcl. induction ks as [|k r IH]; cbn [map]; constructor.
      * apply eff_unit. exact (proj1 Hks).
      * apply IH. exact (proj2 Hks).
  - destruct cl as [ks n]; cbn [eval_clip wf_clip]. intros [Hks Hn]. apply clip_factor_unit.
    + clear Hn. induction ks as [|k r IH]; cbn [map]; constructor.
      * apply eff_unit. exact (proj1 Hks).
      * apply IH. exact (proj2 Hks).
    + destruct n as [m|]; [apply eval_clip_unit, Hn|unfold unit_q; lra].
Qed.

(* ------------------------------------------------------------------ outside every child: transparent *)
Lemma buffer_all_zero : forall mode kids b, Forall (fun k => snd k == 0) kids -> buffer_after mode kids b == b.
Proof.
  intros mode kids. unfold buffer_after. induction kids as [|[g e] r IH]; intros b H; cbn [fold_left].
  - reflexivity.
  - inversion H as [|? ? He Hr]; subst. cbn [snd] in He. rewrite IH by assumption.
    unfold kid_step. cbn [fst snd]. destruct g.
    + destruct clip_group_merge_mode; cbn [blend_cov]; try rewrite He; ring.
    + destruct mode; cbn [blend_cov]; try rewrite He; ring.
Qed.

Lemma outside_clip_transparent : forall kids nested,
  clip_buffer_initial_opaque = true -> Forall (fun k => snd k == 0) kids -> clip_factor kids nested == 0.
Proof.
  intros kids n Hi H. unfold clip_factor, clip_buffer. rewrite Hi, buffer_all_zero by assumption. ring.
Qed.

(* ------------------------------------------------------------------ inside a child: unchanged (guarded) *)
Lemma clear_only_proper : forall kids a b, a == b -> clear_only kids a == clear_only kids b.
Proof.
  unfold clear_only. induction kids as [|k r IH]; intros a b H; cbn [fold_left]; [exact H|].
  apply IH. rewrite H. reflexivity.
Qed.
Lemma clear_only_zero : forall kids, clear_only kids 0 == 0.
Proof.
  induction kids as [|k r IH]; [reflexivity|].
  change (clear_only (k :: r) 0) with (clear_only r (0 * (1 - snd k))).
  rewrite (clear_only_proper r (0 * (1 - snd k)) 0) by ring. exact IH.
Qed.

Lemma clear_only_covered : forall kids b, Exists (fun k => snd k == 1) kids -> clear_only kids b == 0.
Proof.
  induction kids as [|k r IH]; intros b H; inversion H as [? ? Hk|? ? Hr]; subst.
  - change (clear_only (k :: r) b) with (clear_only r (b * (1 - snd k))).
    rewrite (clear_only_proper r (b * (1 - snd k)) 0) by (rewrite Hk; ring). apply clear_only_zero.
  - change (clear_only (k :: r) b) with (clear_only r (b * (1 - snd k))). apply IH. assumption.
Qed.

Lemma buffer_proper : forall mode kids a b, a == b -> buffer_after mode kids a == buffer_after mode kids b.
Proof.
  intros mode kids. unfold buffer_after. induction kids as [|[g e] r IH]; intros a b H; cbn [fold_left]; [exact H|].
  apply IH. unfold kid_step. cbn [fst snd].
  destruct g; [destruct clip_group_merge_mode|destruct mode]; cbn [blend_cov]; rewrite H; reflexivity.
Qed.

(* the blend modes of clip.rs as they are in the source now (regenerated on every run) *)
Lemma clip_modes_now :
  clip_buffer_initial_opaque = true /\ clip_children_mode = BClear /\
  clip_group_children_mode = BSourceOver /\ clip_group_merge_mode = BXor /\ clip_mode_flows_unchanged = true.
Proof. repeat split; reflexivity. Qed.

(* without the Xor hazard the buffer evolves exactly as if every child cleared by its coverage *)
Lemma no_hazard_is_clear_only : forall kids b, kids_ok kids -> unit_q b ->
  xor_hazard_from kids b = false -> buffer_after clip_children_mode kids b == clear_only kids b.
Proof.
  destruct clip_modes_now as (_ & Hc & _ & Hx & _).
  intros kids. induction kids as [|[g e] r IH]; intros b Hk Hb H.
  - reflexivity.
  - inversion Hk as [|? ? He Hr']; subst. cbn [snd] in He.
    cbn [xor_hazard_from] in H. apply orb_false_iff in H. destruct H as [Hh Hr]. cbn [fst snd] in Hh.
    unfold buffer_after, clear_only in *. cbn [fold_left].
    rewrite (IH _ Hr' (kid_step_unit clip_children_mode b (g, e) Hb He) Hr).
    apply clear_only_proper. unfold kid_step. cbn [fst snd]. destruct g.
    + rewrite Hx. cbn [blend_cov]. cbn [andb] in Hh. destruct Hb as [Hb0 Hb1]. destruct He as [He0 He1].
      destruct (Qltb 0 e) eqn:E1; cbn [andb] in Hh.
      * apply Qltb_false in Hh. assert (b == 1) as Eb by lra. rewrite Eb. ring.
      * apply Qltb_false in E1. assert (e == 0) as Ee by lra. rewrite Ee. ring.
    + rewrite Hc. cbn [blend_cov]. reflexivity.
Qed.

Lemma inside_clip_unchanged : forall kids nested, kids_ok kids -> xor_hazard kids = false ->
  Exists (fun k => snd k == 1) kids -> clip_factor kids nested == nested.
Proof.
  intros kids n Hk Hh He. unfold clip_factor, clip_buffer. destruct clip_modes_now as (Hi & _).
  rewrite Hi. unfold xor_hazard in Hh.
  assert (unit_q 1) as H1 by (unfold unit_q; lra).
  rewrite (no_hazard_is_clear_only kids 1 Hk H1 Hh), (clear_only_covered kids 1 He). ring.
Qed.

(* F16: the unguarded statement is false - a fully covering first child followed by an overlapping child
   that has its own clip-path leaves the pixel clipped away *)
Definition f16_kids : list kid := [(false, 1); (true, 1)].
Lemma inside_clip_unchanged_refuted :
  kids_ok f16_kids /\ Exists (fun k => snd k == 1) f16_kids /\ xor_hazard f16_kids = true /\ clip_factor f16_kids 1 == 0.
Proof.
  split; [repeat constructor; cbn; lra|]. split; [constructor; cbn; reflexivity|].
  split; [vm_compute; reflexivity|]. vm_compute. reflexivity.
Qed.
(* the hazard is specific: plain children never trigger it *)
Lemma plain_children_no_hazard : forall kids, Forall (fun k => fst k = false) kids -> forall b, xor_hazard_from kids b = false.
Proof.
  induction kids as [|[g e] r IH]; intros H b; cbn [xor_hazard_from]; [reflexivity|].
  inversion H as [|? ? Hg Hr]; subst. cbn [fst] in Hg. subst g. cbn [fst andb orb]. apply IH, Hr.
Qed.

(* nested clip-path = intersection: the factors multiply, so the result is below both *)
Lemma nested_clip_intersection : forall kids nested, kids_ok kids -> unit_q nested ->
  clip_factor kids nested == clip_factor kids 1 * nested /\
  clip_factor kids nested <= nested /\ clip_factor kids nested <= clip_factor kids 1.
Proof.
  intros kids n Hk [Hn0 Hn1]. assert (unit_q 1) as H1 by (unfold unit_q; lra).
  destruct (clip_factor_unit kids 1 Hk H1) as [F0 F1]. unfold clip_factor in *.
  split; [ring|]. split; nra.
Qed.

(* ------------------------------------------------------------------ masks and opacity *)
Lemma mask_factor_unit : forall coef region nested, unit_q coef -> unit_q region -> unit_q nested ->
  unit_q (mask_factor coef region nested).
Proof.
  intros c r n [C0 C1] [R0 R1] [N0 N1]. unfold mask_factor, unit_q.
  assert (0 <= c * r /\ c * r <= 1) as [A0 A1] by (split; nra). split; nra.
Qed.
Lemma outside_mask_region : forall coef nested, mask_factor coef 0 nested == 0.
Proof. intros. unfold mask_factor. ring. Qed.
Lemma white_mask_q : forall region nested, mask_factor 1 region nested == region * nested.
Proof. intros. unfold mask_factor. ring. Qed.

(* ------------------------------------------------------------------ exact u8 scaling of apply_mask (exhaustive) *)
Local Open Scope Z_scope.
Lemma scale_u8_sweep :
  forallb (fun m => forallb (fun c => (scale_u8 c m <=? c) && (0 <=? scale_u8 c m) &&
                                      ((m =? 255) || (scale_u8 c m <=? scale_u8 c (m + 1)))) bytes) bytes = true.
Proof. vm_compute. reflexivity. Qed.
Lemma scale_u8_le : forall c m, is_byte c -> is_byte m ->
  0 <= scale_u8 c m <= c /\ (m < 255 -> scale_u8 c m <= scale_u8 c (m + 1)).
Proof.
  intros c m Hc Hm.
  pose proof (sweep2 (fun c m => (scale_u8 c m <=? c) && (0 <=? scale_u8 c m) && ((m =? 255) || (scale_u8 c m <=? scale_u8 c (m + 1))))
                     scale_u8_sweep c m Hc Hm) as H.
  cbv beta in H. rewrite !andb_true_iff, orb_true_iff, !Z.leb_le, Z.eqb_eq in H. lia.
Qed.
Lemma scale_u8_full : forall c, is_byte c -> scale_u8 c 255 = c /\ scale_u8 c 0 = 0.
Proof.
  intros c Hc.
  assert (H : forallb (fun c => (scale_u8 c 255 =? c) && (scale_u8 c 0 =? 0)) bytes = true) by (vm_compute; reflexivity).
  pose proof (sweep1 _ H c Hc) as E. cbv beta in E. rewrite andb_true_iff, !Z.eqb_eq in E. exact E.
Qed.
Lemma white_luminance_is_full : lum_mask_u8 255 255 255 255 = 255 /\ lum_mask_u8 0 0 0 0 = 0 /\ lum_mask_u8 0 0 0 255 = 0.
Proof. vm_compute. repeat split; reflexivity. Qed.
