(* C18 lemmas, extension round 4: primitiveUnits scaling of filter parameters, the conversion caches of filters and masks. *)
From RV Require Import Model.Base Model.GeomPrims Model.StylePrims Model.ObbPrims Gen.LeafObb Model.Obb Model.ObbFilter Proofs.Obb.
Local Open Scope Q_scope.

(* ------------------------------------------------------------------ number attributes *)
Lemma pos_or_zero_eq q q' : q == q' -> Qunwrap_or (positive_new q) 0 == Qunwrap_or (positive_new q') 0.
Proof.
  intro E. unfold positive_new.
  destruct (Qleb 0 q) eqn:A; destruct (Qleb 0 q') eqn:A'; simpl; try lra.
  - apply Qleb_true in A. apply Qleb_false in A'. lra.
  - apply Qleb_false in A. apply Qleb_true in A'. lra.
Qed.
Lemma pos_or_zero_spec q : Qunwrap_or (positive_new q) 0 == (if Qleb 0 q then q else 0).
Proof. unfold positive_new. destruct (Qleb 0 q); simpl; lra. Qed.

Lemma Qeqb_intro a b : a == b -> Qeqb a b = true.
Proof. intro H. apply Qeqb_true. exact H. Qed.

Lemma Qleb_eq a a' b b' : a == a' -> b == b' -> Qleb a b = Qleb a' b'.
Proof.
  intros Ea Eb. destruct (Qleb a b) eqn:A; destruct (Qleb a' b') eqn:A'; try reflexivity; exfalso.
  - apply Qleb_true in A. apply Qleb_false in A'. lra.
  - apply Qleb_false in A. apply Qleb_true in A'. lra.
Qed.
Lemma approx_zero_eq q q' u : q == q' -> Qapprox_zero q u = Qapprox_zero q' u.
Proof.
  intro E. unfold Qapprox_zero. rewrite (Qleb_eq 0 0 q q' (Qeq_refl 0) E).
  rewrite (Qleb_eq q q' (u * F32_MIN_SUBNORMAL) (u * F32_MIN_SUBNORMAL) E (Qeq_refl _)). reflexivity.
Qed.
Lemma approx_zero_one : Qapprox_zero (1 # 1) (4 # 1) = false.
Proof. reflexivity. Qed.

(* feMorphology: two radius lists whose RESOLVED values (number * scale) agree give the same radii, whatever the two
   scales are: zero, one-zero and negative radii included (fallbacks and sign test act on the resolved values, the
   fallback radius is a constant) *)
Lemma morph_radii_compat l l' x y x' y' sc sc' :
  morph_pair l = (x, y) -> morph_pair l' = (x', y') ->
  x * sz_w sc == x' * sz_w sc' -> y * sz_h sc == y' * sz_h sc' ->
  fst (morph_radii (Some l) sc) == fst (morph_radii (Some l') sc') /\
  snd (morph_radii (Some l) sc) == snd (morph_radii (Some l') sc').
Proof.
  intros El El' Ea Eb. unfold morph_radii. rewrite El, El'. unfold morph_fix. cbv zeta.
  set (a := x * sz_w sc) in *. set (b := y * sz_h sc) in *.
  set (a' := x' * sz_w sc') in *. set (b' := y' * sz_h sc') in *.
  clearbody a b a' b'.
  assert (Q1 : Qleb 0 (1 # 1) = true) by reflexivity.
  assert (La : Qleb 0 a' = Qleb 0 a) by (apply Qleb_eq; [reflexivity|symmetry; exact Ea]).
  assert (Lb : Qleb 0 b' = Qleb 0 b) by (apply Qleb_eq; [reflexivity|symmetry; exact Eb]).
  destruct (Qapprox_zero a (4 # 1)) eqn:EA; destruct (Qapprox_zero b (4 # 1)) eqn:EB;
    repeat (progress (cbn [andb negb]; cbv beta iota;
                      rewrite <- ?(approx_zero_eq a a' (4 # 1) Ea), <- ?(approx_zero_eq b b' (4 # 1) Eb), ?approx_zero_one, ?EA, ?EB));
    unfold morph_positive, morph_scaled, positive_new, Qsign_positive;
    rewrite ?La, ?Lb, ?Q1;
    destruct (Qleb 0 a); destruct (Qleb 0 b);
    cbn [andb fst snd]; cbv beta iota; cbn [fst snd];
    split; first [ reflexivity | assumption ].
Qed.

(* the parameters resolved under primitiveUnits=objectBoundingBox for the box B are those of the same primitive
   written in user space with its numbers mapped through B: FULL strength, every attribute value (feMorphology radius
   absent, negative, zero, one-zero, positive) *)
Lemma param_equiv p B : 0 < rw B -> 0 < rh B ->
  rparam_eqb (resolve_param p (rw B, rh B)) (resolve_param (map_param p B) (1, 1)) = true.
Proof.
  intros Hw Hh.
  destruct p as [|a b c|dx dy|dx dy a b c|r|s]; simpl.
  - reflexivity.
  - unfold std_dev. destruct (std_dev_pair a b c) as [x y]. simpl.
    unfold std_dev_scaled, sz_w, sz_h. simpl.
    apply andb_true_intro; split; apply Qeqb_intro; apply pos_or_zero_eq; ring.
  - unfold offset_dx, offset_dy, sz_w, sz_h. simpl.
    apply andb_true_intro; split; apply Qeqb_intro; ring.
  - unfold std_dev. destruct (std_dev_pair a b c) as [x y]. simpl.
    unfold std_dev_scaled, shadow_dx, shadow_dy, sz_w, sz_h. simpl.
    repeat (apply andb_true_intro; split); apply Qeqb_intro; try (apply pos_or_zero_eq); ring.
  - destruct r as [l|]; [|reflexivity].
    destruct (morph_pair l) as [x y] eqn:El.
    cbn [map_param resolve_param].
    assert (K := morph_radii_compat l [x * rw B; y * rh B] x y (x * rw B) (y * rh B) (rw B, rh B) (1, 1) El eq_refl).
    unfold sz_w, sz_h in K. cbn [fst snd] in K.
    specialize (K ltac:(ring) ltac:(ring)).
    destruct (morph_radii (Some l) (rw B, rh B)) as [p q].
    destruct (morph_radii (Some [x * rw B; y * rh B]) (1, 1)) as [p' q'].
    cbn [fst snd] in K. destruct K as [K1 K2]. cbn [rparam_eqb].
    apply andb_true_intro; split; apply Qeqb_intro; assumption.
  - unfold displace_scale, sz_w, sz_h. simpl. apply Qeqb_intro. field.
Qed.

(* what the stored numbers are: stdDeviation never negative, offsets linear in the box size *)
Lemma std_dev_spec a b c sc :
  let '(x, y) := std_dev_pair a b c in
  fst (std_dev a b c sc) == (if Qleb 0 (x * sz_w sc) then x * sz_w sc else 0) /\
  snd (std_dev a b c sc) == (if Qleb 0 (y * sz_h sc) then y * sz_h sc else 0).
Proof.
  unfold std_dev. destruct (std_dev_pair a b c) as [x y]. unfold std_dev_scaled. simpl.
  split; apply pos_or_zero_spec.
Qed.

(* a list of primitives: same regions, mapped parameters, for every user *)
Lemma collect_loop_params units bbox region sc ps :
  map rp_par (collect_loop units bbox region sc ps) =
  map (fun p => resolve_param (fp_par p) sc) (firstn (length (collect_loop units bbox region sc ps)) ps).
Proof.
  induction ps as [|p r IH]; simpl; [reflexivity|].
  destruct (resolve_primitive_region _ _ _ _ _ _ _ _); simpl; [|reflexivity]. rewrite IH. reflexivity.
Qed.

(* ------------------------------------------------------------------ keyed cache *)
Lemma kc_get_cons {A} (c : list (N * A)) k v id :
  kc_get ((k, v) :: c) id = if N.eqb k id then Some v else kc_get c id.
Proof. reflexivity. Qed.

(* ------------------------------------------------------------------ filters *)
Lemma filter_resolve_indep f : filter_cacheable (fe_units f) (fe_punits f) = true ->
  forall b, filter_resolve f b = filter_resolve f None.
Proof.
  unfold filter_cacheable. intros H b. apply andb_true_iff in H as [H1 H2].
  destruct (fe_units f) eqn:Eu; simpl in H1; try discriminate.
  destruct (fe_punits f) eqn:Ep; simpl in H2; try discriminate.
  unfold filter_resolve. rewrite Eu, Ep. simpl.
  destruct (to_non_zero_rect (fe_rect f)); [|reflexivity].
  unfold collect_prims, prim_scale. simpl.
  assert (K : forall ps, collect_loop UserSpaceOnUse b q (1 # 1, 1 # 1) ps = collect_loop UserSpaceOnUse None q (1 # 1, 1 # 1) ps).
  { induction ps as [|p r IH]; simpl; [reflexivity|].
    destruct (fp_kind p); simpl; rewrite IH; reflexivity. }
  rewrite K. reflexivity.
Qed.

Local Open Scope N_scope.
Section FilterCache.
  Variable taken : list N.
  (* the filter elements of one document: an id names one element, ids are document ids *)
  Variable inD : felem -> Prop.
  Hypothesis D_inj : forall f1 f2, inD f1 -> inD f2 -> fe_id f1 = fe_id f2 -> f1 = f2.
  Hypothesis D_taken : forall f, inD f -> In (fe_id f) taken.

  Definition fresolved (f : felem) (bbox : option qrect) (v : fconv) : Prop :=
    filter_resolve f bbox = Some (fv_rect v, fv_prims v).
  (* keys are document ids or generated ids not above the counter; an entry sits under its own id; what is stored
     under the id of a fully user-space filter is its box-independent conversion *)
  Definition finv (st : fstate) : Prop :=
    (forall id v, kc_get (fs_cache st) id = Some v -> fv_id v = id /\ (In id taken \/ id <= fs_ctr st)) /\
    (forall f v, inD f -> filter_cacheable (fe_units f) (fe_punits f) = true ->
       kc_get (fs_cache st) (fe_id f) = Some v -> fresolved f None v).
  Definition fext (st st' : fstate) : Prop :=
    fs_ctr st <= fs_ctr st' /\ forall id v, kc_get (fs_cache st) id = Some v -> kc_get (fs_cache st') id = Some v.
  Definition fresult_ok (f : felem) (bbox : option qrect) (r : option fconv) (st' : fstate) : Prop :=
    match filter_resolve f bbox with
    | Some (rc, ps) => exists v, r = Some v /\ fv_rect v = rc /\ fv_prims v = ps /\ kc_get (fs_cache st') (fv_id v) = Some v
    | None => r = None
    end.

  Lemma filter_convert_ok f bbox st : inD f -> finv st ->
    let '(r, st') := filter_convert taken f bbox st in finv st' /\ fext st st' /\ fresult_ok f bbox r st'.
  Proof.
    intros Hin [I1 I2]. unfold filter_convert.
    destruct (filter_cacheable (fe_units f) (fe_punits f)) eqn:Ec.
    - (* fully user space: shared *)
      destruct (kc_get (fs_cache st) (fe_id f)) as [v|] eqn:Eg.
      + split; [split; assumption|]. split; [split; [lia|auto]|].
        unfold fresult_ok. rewrite (filter_resolve_indep f Ec bbox).
        pose proof (I2 f v Hin Ec Eg) as R. unfold fresolved in R. rewrite R.
        exists v. repeat split. destruct (I1 _ _ Eg) as [-> _]. exact Eg.
      + destruct (filter_resolve f bbox) as [[r ps]|] eqn:Er.
        * simpl negb. simpl andb. cbv iota. split; [|split].
          -- split.
             ++ intros id v. simpl fs_cache. rewrite kc_get_cons. destruct (N.eqb (fe_id f) id) eqn:Eid.
                ** intro H. inversion H; subst v. simpl. apply N.eqb_eq in Eid. split; [exact Eid|]. left. rewrite <- Eid. apply D_taken; exact Hin.
                ** intro H. apply I1 in H. exact H.
             ++ intros f2 v2 Hin2 Ec2. simpl fs_cache. rewrite kc_get_cons. destruct (N.eqb (fe_id f) (fe_id f2)) eqn:Eid.
                ** apply N.eqb_eq in Eid. pose proof (D_inj _ _ Hin Hin2 Eid) as <-. intro H. inversion H; subst v2.
                   unfold fresolved. simpl. rewrite <- (filter_resolve_indep f Ec bbox). exact Er.
                ** apply I2; assumption.
          -- split; [simpl; lia|]. intros id v H. simpl fs_cache. rewrite kc_get_cons.
             destruct (N.eqb (fe_id f) id) eqn:Eid; [|exact H]. apply N.eqb_eq in Eid. subst id. congruence.
          -- unfold fresult_ok. rewrite Er. eexists. split; [reflexivity|]. simpl. repeat split.
             rewrite N.eqb_refl. reflexivity.
        * split; [split; assumption|]. split; [split; [lia|auto]|]. unfold fresult_ok. rewrite Er. reflexivity.
    - (* objectBoundingBox units of either kind: converted afresh for this user's box, never looked up *)
      destruct (filter_resolve f bbox) as [[r ps]|] eqn:Er.
      + simpl negb. rewrite andb_true_l. unfold kc_has.
        destruct (gen_id_fresh taken (fs_ctr st)) as [G1 G2].
        set (id' := if match kc_get (fs_cache st) (fe_id f) with Some _ => true | None => false end
                    then gen_id taken (fs_ctr st) else fe_id f).
        set (ctr' := if match kc_get (fs_cache st) (fe_id f) with Some _ => true | None => false end
                     then gen_id taken (fs_ctr st) else fs_ctr st).
        assert (Hctr : fs_ctr st <= ctr') by (unfold ctr'; destruct (kc_get (fs_cache st) (fe_id f)); lia).
        assert (Hnew : kc_get (fs_cache st) id' = None).
        { unfold id'. destruct (kc_get (fs_cache st) (fe_id f)) eqn:Eg; [|exact Eg].
          destruct (kc_get (fs_cache st) (gen_id taken (fs_ctr st))) eqn:Eg2; [|reflexivity].
          exfalso. destruct (I1 _ _ Eg2) as [_ [K|K]]; [exact (G2 K)|lia]. }
        assert (Hid : In id' taken \/ id' <= ctr').
        { unfold id', ctr'. destruct (kc_get (fs_cache st) (fe_id f)); [right; lia|left; apply D_taken; exact Hin]. }
        split; [|split].
        * split.
          -- intros id v. simpl fs_cache. rewrite kc_get_cons. destruct (N.eqb id' id) eqn:Eid.
             ++ intro H. inversion H; subst v. simpl. apply N.eqb_eq in Eid. subst id. split; [reflexivity|exact Hid].
             ++ intro H. apply I1 in H. destruct H as [H1 [H2|H2]]; (split; [exact H1|]); [left; exact H2|right; simpl; lia].
          -- intros f2 v2 Hin2 Ec2. simpl fs_cache. rewrite kc_get_cons. destruct (N.eqb id' (fe_id f2)) eqn:Eid.
             ++ exfalso. apply N.eqb_eq in Eid. unfold id' in Eid. destruct (kc_get (fs_cache st) (fe_id f)).
                ** apply G2. rewrite Eid. apply D_taken; exact Hin2.
                ** pose proof (D_inj _ _ Hin Hin2 Eid) as <-. congruence.
             ++ apply I2; assumption.
        * split; [simpl; exact Hctr|]. intros id v H. simpl fs_cache. rewrite kc_get_cons.
          destruct (N.eqb id' id) eqn:Eid; [|exact H]. apply N.eqb_eq in Eid. subst id. congruence.
        * unfold fresult_ok. rewrite Er. eexists. split; [reflexivity|]. simpl. repeat split.
          rewrite N.eqb_refl. reflexivity.
      + split; [split; assumption|]. split; [split; [lia|auto]|]. unfold fresult_ok. rewrite Er. reflexivity.
  Qed.

  Lemma fext_trans a b c : fext a b -> fext b c -> fext a c.
  Proof. intros [A1 A2] [B1 B2]. split; [lia|auto]. Qed.

  (* any sequence of users of filters of the document: each gets the filter resolved for ITS box, and every returned
     definition is the entry of the final cache under its id (so two results with one id are one definition) *)
  Lemma filter_users_ok : forall us st, finv st -> Forall (fun p => inD (fst p)) us ->
    let '(rs, st') := filter_users taken us st in
    finv st' /\ fext st st' /\ Forall2 (fun p r => fresult_ok (fst p) (snd p) r st') us rs.
  Proof.
    induction us as [|[f b] rest IH]; intros st Hi Hus; simpl.
    - split; [exact Hi|]. split; [split; [lia|auto]|constructor].
    - inversion Hus as [|x y Hin Hr]; subst. simpl in Hin.
      pose proof (filter_convert_ok f b st Hin Hi) as K.
      destruct (filter_convert taken f b st) as [r st1]. destruct K as (Hi1 & He1 & R1).
      specialize (IH st1 Hi1 Hr). destruct (filter_users taken rest st1) as [rs st2]. destruct IH as (Hi2 & He2 & R2).
      split; [exact Hi2|]. split; [exact (fext_trans _ _ _ He1 He2)|].
      constructor; [|exact R2]. simpl. unfold fresult_ok in *.
      destruct (filter_resolve f b) as [[rc ps]|]; [|exact R1].
      destruct R1 as (v & -> & E1 & E2 & E3). exists v. repeat split; try assumption. apply He2. exact E3.
  Qed.
End FilterCache.

Lemma finv_empty (taken : list N) (inD : felem -> Prop) ctr : finv taken inD {| fs_cache := []; fs_ctr := ctr |}.
Proof. split; intros; simpl in *; discriminate. Qed.

Lemma filter_users_shared (taken : list N) (inD : felem -> Prop)
  (D_inj : forall f1 f2, inD f1 -> inD f2 -> fe_id f1 = fe_id f2 -> f1 = f2)
  (D_taken : forall f, inD f -> In (fe_id f) taken) us ctr :
  Forall (fun p => inD (fst p)) us ->
  let rs := fst (filter_users taken us {| fs_cache := []; fs_ctr := ctr |}) in
  Forall2 (fun p r => match filter_resolve (fst p) (snd p) with
                      | Some (rc, ps) => exists v, r = Some v /\ fv_rect v = rc /\ fv_prims v = ps
                      | None => r = None
                      end) us rs /\
  (forall v1 v2, In (Some v1) rs -> In (Some v2) rs -> fv_id v1 = fv_id v2 -> v1 = v2).
Proof.
  intros Hus. pose proof (filter_users_ok taken inD D_inj D_taken us _ (finv_empty taken inD ctr) Hus) as K.
  destruct (filter_users taken us {| fs_cache := []; fs_ctr := ctr |}) as [rs st']. simpl.
  destruct K as (_ & _ & R). split.
  - clear -R. induction R as [|p r us' rs' H R' IH]; constructor; [|exact IH].
    unfold fresult_ok in H. destruct (filter_resolve (fst p) (snd p)) as [[rc ps]|]; [|exact H].
    destruct H as (v & -> & E1 & E2 & _). exists v. repeat split; assumption.
  - assert (Hall : forall v, In (Some v) rs -> kc_get (fs_cache st') (fv_id v) = Some v).
    { clear -R. induction R as [|p r us' rs' H R' IH]; intros v Hv; [destruct Hv|].
      destruct Hv as [->|Hv]; [|apply IH; exact Hv].
      unfold fresult_ok in H. destruct (filter_resolve (fst p) (snd p)) as [[rc ps]|]; [|discriminate].
      destruct H as (v' & E & _ & _ & G). inversion E; subst v'. exact G. }
    intros v1 v2 H1 H2 E. apply Hall in H1, H2. rewrite E in H1. congruence.
Qed.

(* ------------------------------------------------------------------ masks *)
Lemma mask_elem_indep e : mask_cacheable (me_units e) (me_cunits e) = true ->
  forall b, mask_region e b = mask_region e None /\ mask_content_ts e b = mask_content_ts e None /\
            (forall r ma, mask_region e None = Some (r, ma) -> ma = false).
Proof.
  unfold mask_cacheable. intros H b. apply andb_true_iff in H as [H1 H2].
  destruct (me_units e) eqn:Eu; simpl in H1; try discriminate.
  destruct (me_cunits e) eqn:Ec; simpl in H2; try discriminate.
  unfold mask_region, mask_content_ts. rewrite Eu, Ec. simpl.
  repeat split. intros r ma. destruct (to_non_zero_rect (me_rect e)); intro K; inversion K; reflexivity.
Qed.
Lemma mask_expected_indep c : mchain_cacheable c = true -> forall b, mask_expected c b = mask_expected c None.
Proof.
  induction c as [|e link IH]; intros H b; [reflexivity|].
  unfold mchain_cacheable in H. simpl in H. apply andb_true_iff in H as [He Hl].
  destruct (mask_elem_indep e He b) as (E1 & E2 & _).
  simpl. rewrite E1, E2. rewrite (IH Hl b). reflexivity.
Qed.

Local Arguments mchain_cacheable : simpl never.
Section MaskCache.
  Variable taken : list N.
  (* the mask chains of one document: closed under links, an id names one element, ids are document ids *)
  Variable inD : msrc -> Prop.
  Hypothesis D_tl : forall e link, inD (e :: link) -> link = [] \/ inD link.
  Hypothesis D_inj : forall e1 l1 e2 l2, inD (e1 :: l1) -> inD (e2 :: l2) -> me_id e1 = me_id e2 -> e1 :: l1 = e2 :: l2.
  Hypothesis D_taken : forall e l, inD (e :: l) -> In (me_id e) taken.

  Definition mcache_ok (st : mstate) : Prop :=
    forall e link v, inD (e :: link) -> mchain_cacheable (e :: link) = true ->
      kc_get (ms_cache st) (me_id e) = Some v -> Some (mconv_vals v) = mask_expected (e :: link) None.
  Definition mresult_ok (c : msrc) (bbox : option qrect) (r : option mconv) : Prop :=
    match mask_expected c bbox with
    | Some l => exists v, r = Some v /\ mconv_vals v = l
    | None => r = None
    end.

  Lemma mask_insert_ok st1 e link (regen : bool) c0 v bbox ctr' :
    inD (e :: link) -> mcache_ok st1 ->
    Some (mconv_vals v) = mask_expected (e :: link) bbox ->
    mcache_ok {| ms_cache := ((if regen then gen_id taken c0 else me_id e), v) :: ms_cache st1; ms_ctr := ctr' |}.
  Proof.
    intros Hin Hc Hv e2 l2 v2 Hin2 Hc2. simpl ms_cache. rewrite kc_get_cons.
    destruct (N.eqb (if regen then gen_id taken c0 else me_id e) (me_id e2)) eqn:Eid.
    - apply N.eqb_eq in Eid. destruct regen.
      + exfalso. destruct (gen_id_fresh taken c0) as [_ G]. apply G. rewrite Eid. apply (D_taken e2 l2 Hin2).
      + pose proof (D_inj _ _ _ _ Hin Hin2 Eid) as Eq. inversion Eq; subst e2 l2.
        intro K. inversion K; subst v2. rewrite Hv. apply mask_expected_indep. exact Hc2.
    - apply Hc; assumption.
  Qed.

  Lemma mask_convert_ok : forall c, (c = [] \/ inD c) ->
    forall bbox st, mcache_ok st ->
      let '(r, st') := mask_convert taken c bbox st in mcache_ok st' /\ mresult_ok c bbox r.
  Proof.
    induction c as [|e link IH]; intros Hin bbox st Hc.
    - simpl. split; [exact Hc|]. unfold mresult_ok. simpl. exists []. split; reflexivity.
    - destruct Hin as [Hin|Hin]; [discriminate|].
      assert (Hlink : link = [] \/ inD link) by (apply (D_tl e); exact Hin).
      (* a hit: only for chains that are user space throughout *)
      assert (Hhit : forall v, mchain_cacheable (e :: link) = true -> kc_get (ms_cache st) (me_id e) = Some v ->
                mresult_ok (e :: link) bbox (Some v)).
      { intros v Hca Eg. unfold mresult_ok. rewrite (mask_expected_indep _ Hca bbox).
        rewrite <- (Hc e link v Hin Hca Eg). exists v. split; reflexivity. }
      (* a miss / not cacheable: converted for this user's box *)
      assert (Hmiss : forall regen : bool,
        let id' := if regen then gen_id taken (ms_ctr st) else me_id e in
        let st0 := {| ms_cache := ms_cache st; ms_ctr := if regen then gen_id taken (ms_ctr st) else ms_ctr st |} in
        let '(r, st') :=
          match mask_region e bbox return (option mconv * mstate) with
          | None => (None, st)
          | Some (r, mask_all) =>
              if mask_all
              then let v := [ {| mv_id := id'; mv_rect := r; mv_content := None |} ] in
                   (Some v, {| ms_cache := (id', v) :: ms_cache st0; ms_ctr := ms_ctr st0 |})
              else
                match mask_convert taken link bbox st0 with
                | (None, st1) => (None, st1)
                | (Some lk, st1) =>
                    match mask_content_ts e bbox with
                    | None => (None, st1)
                    | Some ct =>
                        if me_content e
                        then let v := {| mv_id := id'; mv_rect := r; mv_content := Some ct |} :: lk in
                             (Some v, {| ms_cache := (id', v) :: ms_cache st1; ms_ctr := ms_ctr st1 |})
                        else (None, st1)
                    end
                end
          end in mcache_ok st' /\ mresult_ok (e :: link) bbox r).
      { intros regen id' st0. unfold mresult_ok. simpl mask_expected.
        destruct (mask_region e bbox) as [[r ma]|] eqn:Er; [|split; [exact Hc|reflexivity]].
        destruct ma.
        - split.
          + apply (mask_insert_ok st0 e link regen (ms_ctr st) _ bbox); [exact Hin|exact Hc|].
            simpl mask_expected. rewrite Er. reflexivity.
          + eexists. split; reflexivity.
        - assert (Hc0 : mcache_ok st0) by exact Hc.
          specialize (IH Hlink bbox st0 Hc0).
          destruct (mask_convert taken link bbox st0) as [rl st1]. destruct IH as [Hc1 Rl].
          unfold mresult_ok in Rl.
          destruct (mask_expected link bbox) as [ll|] eqn:Ell.
          + destruct Rl as (lk & -> & Elk).
            destruct (mask_content_ts e bbox) as [ct|] eqn:Ect; [|split; [exact Hc1|reflexivity]].
            destruct (me_content e) eqn:Eco; [|split; [exact Hc1|reflexivity]].
            split.
            * apply (mask_insert_ok st1 e link regen (ms_ctr st) _ bbox); [exact Hin|exact Hc1|].
              simpl mask_expected. rewrite Er, Ell, Ect, Eco. unfold mconv_vals. simpl. fold (mconv_vals lk). rewrite Elk. reflexivity.
            * eexists. split; [reflexivity|]. unfold mconv_vals. simpl. fold (mconv_vals lk). rewrite Elk. reflexivity.
          + subst rl. split; [exact Hc1|reflexivity]. }
      simpl mask_convert.
      destruct (mchain_cacheable (e :: link)) eqn:Hca.
      + destruct (kc_get (ms_cache st) (me_id e)) as [v|] eqn:Eg.
        * split; [exact Hc|]. apply Hhit; reflexivity.
        * exact (Hmiss (negb true && kc_has (ms_cache st) (me_id e))).
      + exact (Hmiss (negb false && kc_has (ms_cache st) (me_id e))).
  Qed.

  Lemma mask_users_ok : forall us st, mcache_ok st ->
    Forall (fun p => inD (fst p)) us ->
    Forall2 (fun p r => mresult_ok (fst p) (snd p) r) us (mask_users taken us st).
  Proof.
    induction us as [|[c b] rest IH]; intros st Hc Hus; simpl; [constructor|].
    inversion Hus as [|x y Hin Hr]; subst. simpl in Hin.
    pose proof (mask_convert_ok c (or_intror Hin) b st Hc) as K.
    destruct (mask_convert taken c b st) as [r st']. destruct K as [Hc' R].
    constructor; [exact R|]. apply IH; assumption.
  Qed.
End MaskCache.

Lemma mcache_ok_empty (inD : msrc -> Prop) ctr : mcache_ok inD {| ms_cache := []; ms_ctr := ctr |}.
Proof. intros e link v _ _ E. simpl in E. discriminate. Qed.

(* two users with different boxes of one objectBoundingBox mask behind a user-space one (the F18 shape for masks) *)
Definition m18_chain : msrc :=
  [ {| me_id := 1; me_units := UserSpaceOnUse; me_cunits := UserSpaceOnUse; me_rect := {| rx := 0; ry := 0; rw := 200; rh := 200 |}; me_content := true |};
    {| me_id := 2; me_units := ObjectBoundingBox; me_cunits := ObjectBoundingBox;
       me_rect := {| rx := 0; ry := 0; rw := 1; rh := 1 |}; me_content := true |} ].

(* ------------------------------------------------------------------ validity of what the conversions emit (C04 regions clause) *)
Local Open Scope Q_scope.
Definition rect_pos (r : qrect) : Prop := 0 < rw r /\ 0 < rh r.
Lemma nz_rect_pos x y w h r : nzrect_from_xywh x y w h = Some r -> rect_pos r.
Proof. intro H. apply nz_some in H as (A & B & ->). split; assumption. Qed.
Lemma cbt_pos r B r' : checked_bbox_transform r B = Some r' -> rect_pos r'.
Proof. unfold checked_bbox_transform. cbv zeta. apply nz_rect_pos. Qed.
Lemma prim_region_pos k u x y w h bbox fr r :
  resolve_primitive_region k u x y w h bbox fr = Some r -> rect_pos r.
Proof.
  unfold resolve_primitive_region, prim_region_flood_obb, prim_region_other_obb, prim_region_user.
  destruct k, u; try destruct bbox; cbv zeta; intro H;
    repeat match type of H with
           | match ?e with _ => _ end = Some _ => destruct e eqn:?; try discriminate
           end;
    first [ discriminate | apply cbt_pos in H; exact H | apply nz_rect_pos in H; exact H ].
Qed.
Definition rparam_nonneg (p : rparam) : Prop :=
  match p with RP_blur sx sy => 0 <= sx /\ 0 <= sy | RP_shadow _ _ sx sy => 0 <= sx /\ 0 <= sy | _ => True end.
Lemma pos_or_zero_nonneg q : 0 <= Qunwrap_or (positive_new q) 0.
Proof. unfold positive_new. destruct (Qleb 0 q) eqn:E; simpl; [apply Qleb_true in E; exact E|lra]. Qed.
Lemma std_dev_nonneg a b c sc : 0 <= fst (std_dev a b c sc) /\ 0 <= snd (std_dev a b c sc).
Proof.
  unfold std_dev. destruct (std_dev_pair a b c) as [x y]. unfold std_dev_scaled. cbv zeta. simpl.
  split; apply pos_or_zero_nonneg.
Qed.
Lemma resolve_param_nonneg p sc : rparam_nonneg (resolve_param p sc).
Proof.
  destruct p; simpl; try exact I.
  - pose proof (std_dev_nonneg n1 n2 n3 sc) as K. destruct (std_dev n1 n2 n3 sc). exact K.
  - pose proof (std_dev_nonneg n1 n2 n3 sc) as K. destruct (std_dev n1 n2 n3 sc). exact K.
  - destruct (morph_radii radius sc). exact I.
Qed.
Definition rprim_valid (p : rprim) : Prop := rect_pos (rp_rect p) /\ rparam_nonneg (rp_par p).
Lemma collect_loop_valid units bbox region sc ps : Forall rprim_valid (collect_loop units bbox region sc ps).
Proof.
  induction ps as [|p r IH]; simpl; [constructor|].
  destruct (resolve_primitive_region _ _ _ _ _ _ _ _) eqn:E; [|constructor].
  constructor; [|exact IH]. split; simpl; [exact (prim_region_pos _ _ _ _ _ _ _ _ _ E)|apply resolve_param_nonneg].
Qed.
Lemma filter_resolve_valid f bbox r ps : filter_resolve f bbox = Some (r, ps) ->
  rect_pos r /\ ps <> [] /\ Forall rprim_valid ps.
Proof.
  unfold filter_resolve. destruct (to_non_zero_rect (fe_rect f)) as [r0|] eqn:E0; [|discriminate].
  apply nz_rect_pos in E0.
  destruct (units_eqb (fe_units f) ObjectBoundingBox).
  - destruct bbox as [B|]; [|discriminate]. destruct (checked_bbox_transform r0 B) as [r1|] eqn:E1; [|discriminate].
    apply cbt_pos in E1.
    destruct (collect_prims (fe_punits f) (Some B) r1 (fe_prims f)) eqn:Ep; [discriminate|].
    intro H. inversion H; subst. split; [exact E1|]. split; [discriminate|].
    rewrite <- Ep. unfold collect_prims. destruct (prim_scale _ _); [apply collect_loop_valid|constructor].
  - destruct (collect_prims (fe_punits f) bbox r0 (fe_prims f)) eqn:Ep; [discriminate|].
    intro H. inversion H; subst. split; [exact E0|]. split; [discriminate|].
    rewrite <- Ep. unfold collect_prims. destruct (prim_scale _ _); [apply collect_loop_valid|constructor].
Qed.
(* every filter handed to any user of any sequence (fresh or from the cache) is valid *)
Lemma filter_users_valid (taken : list N) (inD : felem -> Prop)
  (D_inj : forall f1 f2, inD f1 -> inD f2 -> fe_id f1 = fe_id f2 -> f1 = f2)
  (D_taken : forall f, inD f -> In (fe_id f) taken) us ctr :
  Forall (fun p => inD (fst p)) us ->
  forall v, In (Some v) (fst (filter_users taken us {| fs_cache := []; fs_ctr := ctr |})) ->
    rect_pos (fv_rect v) /\ fv_prims v <> [] /\ Forall rprim_valid (fv_prims v).
Proof.
  intros Hus. destruct (filter_users_shared taken inD D_inj D_taken us ctr Hus) as [R _].
  simpl in R. clear Hus.
  set (rs := fst (filter_users taken us {| fs_cache := []; fs_ctr := ctr |})) in *. clearbody rs.
  induction R as [|p r us' rs' H R' IH]; intros v Hv; [destruct Hv|].
  destruct Hv as [->|Hv]; [|apply IH; exact Hv].
  destruct (filter_resolve (fst p) (snd p)) as [[rc ps]|] eqn:E; [|discriminate].
  destruct H as (v' & Ev & E1 & E2). inversion Ev; subst v'. rewrite E1, E2.
  exact (filter_resolve_valid _ _ _ _ E).
Qed.
Lemma mask_region_pos e bbox r ma : mask_region e bbox = Some (r, ma) -> rect_pos r.
Proof.
  unfold mask_region. destruct (to_non_zero_rect (me_rect e)) as [r0|] eqn:E0; [|discriminate].
  apply nz_rect_pos in E0. destruct (units_eqb (me_units e) ObjectBoundingBox).
  - destruct bbox as [B|].
    + destruct (checked_bbox_transform r0 B) eqn:E1; [|discriminate]. apply cbt_pos in E1. intro H. inversion H; subst. exact E1.
    + intro H. inversion H; subst. exact E0.
  - intro H. inversion H; subst. exact E0.
Qed.
Lemma mask_expected_valid c : forall bbox l, mask_expected c bbox = Some l -> Forall (fun p => rect_pos (fst p)) l.
Proof.
  induction c as [|e link IH]; intros bbox l H; simpl in H.
  - inversion H. constructor.
  - destruct (mask_region e bbox) as [[r ma]|] eqn:Er; [|discriminate].
    pose proof (mask_region_pos _ _ _ _ Er) as P. destruct ma.
    + inversion H. constructor; [exact P|constructor].
    + destruct (mask_expected link bbox) as [ll|] eqn:El; [|discriminate].
      destruct (mask_content_ts e bbox); [|discriminate]. destruct (me_content e); [|discriminate].
      inversion H. constructor; [exact P|]. exact (IH bbox ll El).
Qed.
