(* C09: the read sites of presentation attributes accept one notation set per property (lemmas).
   The generic part holds for ANY site table; the instance `all_sites_ok` is decided by computation over the
   source-derived table Gen.ReadSites.read_sites, so an edit of a read site changes this obligation. *)
From Coq Require Import String.
From RV Require Import Model.Base Gen.SvgTables Gen.Units Model.CascadeBase Gen.SvgInsert Model.Cascade Gen.ReadSites Model.CascadeSites.
Local Open Scope string_scope.

Lemma nclass_eqb_eq : forall a b, nclass_eqb a b = true <-> a = b.
Proof.
  intros a b. split.
  - destruct a, b; intro H; try reflexivity; vm_compute in H; discriminate H.
  - intros ->. destruct b; reflexivity.
Qed.

Lemma nclist_eqb_eq : forall l m, nclist_eqb l m = true -> l = m.
Proof.
  induction l as [|a l IH]; destruct m as [|b m]; simpl; intro H; try reflexivity; try discriminate H.
  apply andb_true_iff in H. destruct H as [H1 H2]. apply nclass_eqb_eq in H1. subst b. f_equal. apply IH. exact H2.
Qed.

Lemma same_fn_refl : forall s, same_fn s s = true.
Proof. intro s. unfold same_fn. rewrite !String.eqb_refl. reflexivity. Qed.

Lemma AId_eqb_refl : forall a, AId_eqb a a = true.
Proof. intro a. unfold AId_eqb. apply N.eqb_refl. Qed.

Lemma AId_eqb_eq : forall a b, AId_eqb a b = true -> a = b.
Proof.
  intros a b H. unfold AId_eqb in H. apply N.eqb_eq in H.
  assert (Ha : AId_of_idx (AId_idx a) = Some a) by (destruct a; reflexivity).
  assert (Hb : AId_of_idx (AId_idx b) = Some b) by (destruct b; reflexivity).
  rewrite H in Ha. rewrite Ha in Hb. injection Hb. auto.
Qed.

Lemma class_in_all : forall c, c <> NC_Presence -> In c all_classes.
Proof. intros c H. destruct c; simpl; auto 15; exfalso; apply H; reflexivity. Qed.

(* a site's own class is among the classes of its function *)
Lemma own_class_in : forall sites s, In s sites -> value_site s = true -> In (site_class s) (fn_classes_in sites s).
Proof.
  intros sites s Hin Hv. unfold fn_classes_in. apply filter_In. split.
  - apply class_in_all. intro E. unfold value_site in Hv. rewrite E in Hv. discriminate Hv.
  - apply existsb_exists. exists s. split; [exact Hin|].
    rewrite same_fn_refl, AId_eqb_refl. simpl. apply nclass_eqb_eq. reflexivity.
Qed.

Section AnyTable.
  Variable sites : list read_site.
  Hypothesis Hok : forallb (site_ok_in sites) sites = true.

  Lemma site_ok_of : forall s, In s sites -> site_ok_in sites s = true.
  Proof. intros s H. exact (proj1 (forallb_forall _ _) Hok s H). Qed.

  Lemma gen_classified : forall s, In s sites -> is_presentation (rs_attr s) = true /\ site_class s <> NC_Unknown.
  Proof.
    intros s H. pose proof (site_ok_of s H) as K. unfold site_ok_in in K.
    apply andb_true_iff in K. destruct K as [K _]. apply andb_true_iff in K. destruct K as [K1 K2]. split; [exact K1|].
    intro E. rewrite E in K2. discriminate K2.
  Qed.

  Lemma gen_notation : forall s, In s sites -> value_site s = true -> fn_classes_in sites s = spec_classes (rs_attr s).
  Proof.
    intros s H Hv. pose proof (site_ok_of s H) as K. unfold site_ok_in in K. rewrite Hv in K.
    apply andb_true_iff in K. destruct K as [_ K]. apply andb_true_iff in K. destruct K as [K _].
    apply nclist_eqb_eq. exact K.
  Qed.

  Lemma gen_uniform : forall s1 s2, In s1 sites -> In s2 sites -> rs_attr s1 = rs_attr s2 ->
    value_site s1 = true -> value_site s2 = true -> fn_classes_in sites s1 = fn_classes_in sites s2.
  Proof.
    intros s1 s2 H1 H2 E V1 V2. rewrite (gen_notation s1 H1 V1), (gen_notation s2 H2 V2), E. reflexivity.
  Qed.

  Lemma gen_in_spec : forall s, In s sites -> value_site s = true -> In (site_class s) (spec_classes (rs_attr s)).
  Proof. intros s H Hv. rewrite <- (gen_notation s H Hv). apply own_class_in; assumption. Qed.

  Lemma gen_opacity : forall s, In s sites -> opacity_family (rs_attr s) = true -> value_site s = true ->
    rs_reader s = "Opacity".
  Proof.
    intros s H Ho Hv. pose proof (site_ok_of s H) as K. unfold site_ok_in in K. rewrite Hv, Ho in K.
    apply andb_true_iff in K. destruct K as [_ K]. apply andb_true_iff in K. destruct K as [_ K].
    apply String.eqb_eq. exact K.
  Qed.
End AnyTable.

(* THE OBLIGATION over the table generated from the current source *)
Lemma all_sites_ok : forallb site_ok read_sites = true.
Proof. vm_compute. reflexivity. Qed.

Lemma sites_classified : forall s, In s read_sites -> is_presentation (rs_attr s) = true /\ site_class s <> NC_Unknown.
Proof. exact (gen_classified read_sites all_sites_ok). Qed.

Lemma sites_notation : forall s, In s read_sites -> value_site s = true -> fn_classes s = spec_classes (rs_attr s).
Proof. exact (gen_notation read_sites all_sites_ok). Qed.

Lemma sites_uniform : forall s1 s2, In s1 read_sites -> In s2 read_sites -> rs_attr s1 = rs_attr s2 ->
  value_site s1 = true -> value_site s2 = true ->
  fn_classes s1 = fn_classes s2 /\ In (site_class s1) (fn_classes s2).
Proof.
  intros s1 s2 H1 H2 E V1 V2. split; [exact (gen_uniform read_sites all_sites_ok s1 s2 H1 H2 E V1 V2)|].
  unfold fn_classes. rewrite <- (gen_uniform read_sites all_sites_ok s1 s2 H1 H2 E V1 V2). apply own_class_in; assumption.
Qed.

Lemma sites_in_spec : forall s, In s read_sites -> value_site s = true -> In (site_class s) (spec_classes (rs_attr s)).
Proof. exact (gen_in_spec read_sites all_sites_ok). Qed.

Lemma sites_opacity : forall s, In s read_sites -> opacity_family (rs_attr s) = true -> value_site s = true ->
  rs_reader s = "Opacity".
Proof. exact (gen_opacity read_sites all_sites_ok). Qed.

(* single-class properties: any two value sites of the property have the same class *)
Lemma sites_same_class : forall s1 s2 c, In s1 read_sites -> In s2 read_sites -> rs_attr s1 = rs_attr s2 ->
  value_site s1 = true -> value_site s2 = true -> spec_classes (rs_attr s1) = [c] ->
  site_class s1 = site_class s2.
Proof.
  intros s1 s2 c H1 H2 E V1 V2 Hc.
  pose proof (sites_in_spec s1 H1 V1) as A. pose proof (sites_in_spec s2 H2 V2) as B.
  rewrite <- E in B. rewrite Hc in A, B. simpl in A, B.
  destruct A as [A|[]]. destruct B as [B|[]]. congruence.
Qed.

(* inherited properties are looked up through the ancestors at every site *)
Lemma all_lookups_ok : forallb site_lookup_ok read_sites = true.
Proof. vm_compute. reflexivity. Qed.

Lemma sites_lookup : forall s, In s read_sites -> value_site s = true -> spec_noninherited (rs_attr s) = false ->
  rs_walk s <> "none".
Proof.
  intros s H V N. pose proof (proj1 (forallb_forall _ _) all_lookups_ok s H) as K.
  unfold site_lookup_ok in K. rewrite V, N in K. simpl in K. unfold walks in K.
  intro E. rewrite E in K. discriminate K.
Qed.

(* non-inherited properties are read from the element itself (text baseline properties excepted) *)
Lemma all_own_ok : forallb site_own_ok read_sites = true.
Proof. vm_compute. reflexivity. Qed.

Lemma sites_own : forall s, In s read_sites -> value_site s = true -> spec_noninherited (rs_attr s) = true ->
  text_baseline_prop (rs_attr s) = false -> rs_walk s = "none".
Proof.
  intros s H V N T. pose proof (proj1 (forallb_forall _ _) all_own_ok s H) as K.
  unfold site_own_ok in K. rewrite V, N, T in K. simpl in K. unfold walks in K.
  apply negb_true_iff in K. apply negb_false_iff in K. apply String.eqb_eq. exact K.
Qed.

(* every <length> read goes through units::convert_length (or resolve_font_size's table) *)
Lemma all_lengths_ok : forallb site_length_ok read_sites = true.
Proof. vm_compute. reflexivity. Qed.

Lemma str_in_In : forall s l, str_in s l = true -> In s l.
Proof.
  intros s l K. unfold str_in in K. apply existsb_exists in K. destruct K as [x [Hx Ex]].
  apply String.eqb_eq in Ex. subst x. exact Hx.
Qed.

Lemma sites_length : forall s, In s read_sites -> length_site s = true ->
  In (rs_how s) length_converters \/ rs_attr s = A_FontSize \/
  exists t, In t read_sites /\ rs_file t = rs_file s /\ rs_fn t = rs_fn s /\ rs_attr t = rs_attr s /\ In (rs_how t) length_converters.
Proof.
  intros s H L. pose proof (proj1 (forallb_forall _ _) all_lengths_ok s H) as K.
  unfold site_length_ok, site_length_ok_in in K. rewrite L in K. cbn [implb] in K.
  apply orb_true_iff in K. destruct K as [K|K]; [apply orb_true_iff in K; destruct K as [K|K]|].
  - left. apply str_in_In. exact K.
  - right. left. apply AId_eqb_eq. exact K.
  - right. right. apply existsb_exists in K. destruct K as [t [Ht Et]]. exists t.
    apply andb_true_iff in Et. destruct Et as [Et E3]. apply andb_true_iff in Et. destruct Et as [E1 E2].
    unfold same_fn in E1. apply andb_true_iff in E1. destruct E1 as [Ea Eb].
    apply String.eqb_eq in Ea. apply String.eqb_eq in Eb. apply AId_eqb_eq in E2.
    apply str_in_In in E3. repeat split; auto.
Qed.

Lemma bad_sites_empty : bad_sites = [].
Proof. vm_compute. reflexivity. Qed.

Lemma family_all_read : forall a, opacity_family a = true -> family_read a = true.
Proof. intros a H. destruct a; try discriminate H; vm_compute; reflexivity. Qed.

(* flood-* is read by both primitives that take it, lighting-color by both lighting primitives *)
Lemma flood_readers : readers_of A_FloodOpacity = [E_FeDropShadow; E_FeFlood] /\ readers_of A_FloodColor = [E_FeDropShadow; E_FeFlood]
  /\ readers_of A_LightingColor = [E_FeDiffuseLighting; E_FeSpecularLighting].
Proof. vm_compute. repeat split. Qed.
