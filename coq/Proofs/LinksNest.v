(* C03 extension round 4: documents nested through image / feImage references are loaded to depth 1 only,
   whatever the files contain (a file may include itself), with at most one sub-document per reference. *)
From Coq Require Import List Bool Arith Lia.
From RV Require Import Gen.LinkGuards Model.LinksNest.
Import ListNotations.

Definition ropt_none : ropt := {| r_data := false; r_string := false |}.

(* the tie: with the guards found in load_sub_svg the sub-document resolves nothing *)
Lemma sub_opt_none o : sub_opt o = ropt_none.
Proof. reflexivity. Qed.

Lemma collect_skip {A} (l : list href) (g : href -> option (option A)) :
  (forall h, g h = Some None) -> collect (map g l) = Some [].
Proof. intro H. induction l as [|h r IH]; [reflexivity|]. cbn [map collect]. rewrite H. exact IH. Qed.

Definition sub_of (f : nat) (fs : fsys) (o : ropt) (h : href) : option (option ltree) :=
  match h with
  | HData d' => if r_data o then option_map Some (load f fs (sub_opt o) d') else Some None
  | HPath p =>
      if r_string o then
        match fs p with
        | Some d' => option_map Some (load f fs (sub_opt o) d')
        | None => Some None
        end
      else Some None
  end.
Lemma load_S f fs o d : load (S f) fs o d = option_map LT (collect (map (sub_of f fs o) d)).
Proof. reflexivity. Qed.

Lemma load_none_leaf f fs d : load (S f) fs ropt_none d = Some (LT []).
Proof.
  rewrite load_S, collect_skip; [reflexivity|]. intros [d'|p]; reflexivity.
Qed.

Lemma collect_leaves (l : list (option (option ltree))) :
  Forall (fun x => x = Some None \/ x = Some (Some (LT []))) l ->
  exists t, collect l = Some t /\ Forall (fun s => s = LT []) t /\ length t <= length l.
Proof.
  induction l as [|x r IH]; intro H.
  - exists []. repeat split; [constructor|simpl; lia].
  - inversion H as [|? ? Hx Hr]; subst. destruct (IH Hr) as (t & Ht & Hall & Hlen).
    destruct Hx as [->| ->]; cbn [collect].
    + exists t. repeat split; [exact Ht|exact Hall|simpl; lia].
    + rewrite Ht. exists (LT [] :: t). repeat split; [constructor; [reflexivity|exact Hall]|simpl; lia].
Qed.

Lemma depth_leaves t : Forall (fun s => s = LT []) t -> depth (LT t) <= 1.
Proof.
  cbn [depth]. induction t as [|s r IH]; intro H; [simpl; lia|].
  inversion H as [|? ? Hs Hr]; subst. specialize (IH Hr). cbn [fold_right depth] in *. lia.
Qed.

Lemma calls_leaves t : Forall (fun s => s = LT []) t -> calls (LT t) = S (length t).
Proof.
  cbn [calls]. induction t as [|s r IH]; intro H; [reflexivity|].
  inversion H as [|? ? Hs Hr]; subst. specialize (IH Hr). cbn [fold_right calls length] in *. lia.
Qed.

(* any options of the caller, any file system (cyclic ones included), any document, any fuel >= 2 *)
Lemma sub_of_leaf fuel fs o h : sub_of (S fuel) fs o h = Some None \/ sub_of (S fuel) fs o h = Some (Some (LT [])).
Proof.
  unfold sub_of. rewrite sub_opt_none. destruct h as [d'|p].
  - destruct (r_data o); [|left; reflexivity]. rewrite load_none_leaf. right. reflexivity.
  - destruct (r_string o); [|left; reflexivity]. destruct (fs p) as [d'|]; [|left; reflexivity].
    rewrite load_none_leaf. right. reflexivity.
Qed.

(* any options of the caller, any file system (cyclic ones included), any document, any fuel >= 2 *)
Lemma nest_bounded (fs : fsys) (o : ropt) (d : idoc) (fuel : nat) :
  exists t, load (S (S fuel)) fs o d = Some t /\ depth t <= 1 /\ calls t <= S (length d).
Proof.
  rewrite load_S.
  assert (H : Forall (fun x => x = Some None \/ x = Some (Some (LT []))) (map (sub_of (S fuel) fs o) d)).
  { rewrite Forall_forall. intros x Hx. apply in_map_iff in Hx. destruct Hx as (h & <- & _). apply sub_of_leaf. }
  destruct (collect_leaves _ H) as (t & Ht & Hall & Hlen). rewrite Ht. cbn [option_map].
  exists (LT t). split; [reflexivity|]. split; [apply depth_leaves, Hall|].
  rewrite (calls_leaves _ Hall). rewrite map_length in Hlen. lia.
Qed.

(* the fuel does not matter once it is 2: the result is the same tree *)
Lemma nest_fuel_irrelevant fs o d fuel : load (S (S fuel)) fs o d = load 2 fs o d.
Proof.
  rewrite !load_S. apply f_equal. apply f_equal. apply map_ext. intros [d'|p]; unfold sub_of; rewrite sub_opt_none.
  - destruct (r_data o); [|reflexivity]. rewrite !load_none_leaf. reflexivity.
  - destruct (r_string o); [|reflexivity]. destruct (fs p) as [d'|]; [|reflexivity]. rewrite !load_none_leaf. reflexivity.
Qed.
