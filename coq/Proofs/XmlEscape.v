(* Escaping of strings by xmlwriter / usvg's writer (Model/XmlEscape.v over Gen/XmlEscape.v): the in-place splice
   loop is a simultaneous replacement that touches only the appended string; what an XML parser reads back. *)
From RV Require Import Gen.XmlEscape.
From RV Require Import Model.XmlEscape.
From Coq Require Import NArith List Bool Lia String.
Import ListNotations.
Local Open Scope N_scope.

(* ---------------------------------------------------------------- position *)
Lemma position_some c s idx :
  position c s = Some idx -> exists a t, s = a ++ c :: t /\ List.length a = idx /\ ~ In c a.
Proof.
  revert idx. induction s as [|x r IH]; simpl; intros idx H; [discriminate|].
  destruct (x =? c) eqn:E.
  - apply N.eqb_eq in E. subst x. inversion H; subst. exists [], r. simpl. auto.
  - destruct (position c r) as [j|] eqn:P; [|discriminate]. simpl in H. inversion H; subst.
    destruct (IH j eq_refl) as (a & t & -> & Hl & Hn). exists (x :: a), t. simpl. repeat split; auto.
    intros [->|Hin]; [rewrite N.eqb_refl in E; discriminate|auto].
Qed.
Lemma position_none c s : position c s = None -> ~ In c s.
Proof.
  induction s as [|x r IH]; simpl; intros H; [tauto|].
  destruct (x =? c) eqn:E; [discriminate|]. destruct (position c r); [discriminate|].
  intros [->|Hin]; [rewrite N.eqb_refl in E; discriminate|]. apply IH; auto.
Qed.

Lemma replace_all_app c rep a b : replace_all c rep (a ++ b) = replace_all c rep a ++ replace_all c rep b.
Proof. unfold replace_all. apply flat_map_app. Qed.
Lemma replace_all_absent c rep a : ~ In c a -> replace_all c rep a = a.
Proof.
  induction a as [|x r IH]; simpl; intro H; [reflexivity|].
  destruct (x =? c) eqn:E; [apply N.eqb_eq in E; subst; exfalso; apply H; auto|].
  simpl. f_equal. apply IH. tauto.
Qed.
Lemma replace_all_cons_hit c rep t : replace_all c rep (c :: t) = rep ++ replace_all c rep t.
Proof. unfold replace_all. simpl. rewrite N.eqb_refl. reflexivity. Qed.

Lemma skipn_len_app {X} (a b : list X) : skipn (List.length a) (a ++ b) = b.
Proof. induction a; simpl; auto. Qed.
Lemma firstn_len_app {X} (a b : list X) : firstn (List.length a) (a ++ b) = a.
Proof. induction a; simpl; auto. f_equal. auto. Qed.

(* ---------------------------------------------------------------- the splice loop *)
Lemma esc_loop_replace c rep : forall fuel pre s,
  (List.length s < fuel)%nat ->
  esc_loop fuel c rep (List.length rep) (pre ++ s) (List.length pre) = pre ++ replace_all c rep s.
Proof.
  induction fuel as [|f IH]; intros pre s Hf; [lia|].
  cbn [esc_loop]. rewrite skipn_len_app.
  destruct (position c s) as [idx|] eqn:P.
  - destruct (position_some c s idx P) as (a & t & -> & Hl & Hn). subst idx.
    replace (List.length pre + List.length a)%nat with (List.length (pre ++ a)) by (rewrite app_length; reflexivity).
    rewrite (app_assoc pre a (c :: t)).
    rewrite firstn_len_app.
    replace (S (List.length (pre ++ a))) with (List.length ((pre ++ a) ++ [c])) by (rewrite (app_length (pre ++ a) [c]); simpl; lia).
    replace ((pre ++ a) ++ c :: t) with (((pre ++ a) ++ [c]) ++ t) by (rewrite <- (app_assoc (pre ++ a) [c] t); reflexivity).
    rewrite skipn_len_app.
    replace (List.length ((pre ++ a) ++ [c]) - 0)%nat with (List.length ((pre ++ a) ++ [c])) by lia.
    replace (List.length (pre ++ a) + List.length rep)%nat with (List.length ((pre ++ a) ++ rep)) by (rewrite (app_length (pre ++ a) rep); reflexivity).
    rewrite (app_assoc (pre ++ a) rep t).
    rewrite IH.
    + rewrite replace_all_app, replace_all_cons_hit, (replace_all_absent c rep a Hn).
      rewrite <- !app_assoc. reflexivity.
    + rewrite app_length in Hf. simpl in Hf. lia.
  - rewrite (replace_all_absent c rep s (position_none c s P)). reflexivity.
Qed.

(* xmlwriter's loop with `start = i + len(replacement)`: only the appended string changes, every occurrence is
   replaced exactly once (also when the replacement itself contains the byte) *)
Lemma xw_escape_in_replace c rep pre s :
  xw_escape_in (c, rep, List.length rep) pre s = pre ++ replace_all c rep s.
Proof. unfold xw_escape_in. apply esc_loop_replace. lia. Qed.
Lemma xw_escape_replace c rep s : xw_escape (c, rep, List.length rep) s = replace_all c rep s.
Proof. unfold xw_escape. apply (xw_escape_in_replace c rep [] s). Qed.

(* the generated tables have that step *)
Lemma attr_escape_eq sq s :
  escape_attr sq s = replace_all (quote_byte sq) (snd (fst (xw_attr_escape sq))) s.
Proof.
  unfold escape_attr. change (pre_replace "attribute" s) with s.
  destruct sq; exact (xw_escape_replace _ _ s).
Qed.
Definition amp_rep : bytes := [38; 97; 109; 112; 59].
Definition gt_rep : bytes := [38; 103; 116; 59].
Definition lt_rep : bytes := [38; 108; 116; 59].
(* writer.rs (since 94b8b4d): `&` -> `&amp;`, then `>` -> `&gt;`; xmlwriter: `<` -> `&lt;` *)
Lemma text_escape_eq s : escape_text s = replace_all 60 lt_rep (replace_all 62 gt_rep (replace_all 38 amp_rep s)).
Proof.
  unfold escape_text. change (pre_replace "text" s) with (replace_all 62 gt_rep (replace_all 38 amp_rep s)).
  exact (xw_escape_replace 60 lt_rep _).
Qed.

Definition enc_text (b : N) : bytes :=
  if b =? 38 then amp_rep else if b =? 62 then gt_rep else if b =? 60 then lt_rep else [b].
Lemma text_escape_map s : escape_text s = flat_map enc_text s.
Proof.
  rewrite text_escape_eq. induction s as [|b r IH]; [reflexivity|].
  change (replace_all 38 amp_rep (b :: r)) with ((if b =? 38 then amp_rep else [b]) ++ replace_all 38 amp_rep r).
  rewrite !replace_all_app, IH. simpl flat_map. f_equal.
  unfold enc_text. destruct (b =? 38) eqn:E; [reflexivity|].
  unfold replace_all. simpl. destruct (b =? 62) eqn:E2; [reflexivity|]. simpl. rewrite app_nil_r.
  destruct (b =? 60); reflexivity.
Qed.

(* ---------------------------------------------------------------- reading back *)
(* `enc` writes b either as itself (not an `&`) or as `&name` with `name` one of the predefined entities for b *)
Definition good_enc (enc : N -> bytes) (b : N) : Prop :=
  (b <> 38 /\ enc b = [b]) \/
  (exists name, enc b = 38 :: name /\ ~ In 38 name /\ forall rest, find_entity (name ++ rest) = Some (b, List.length name)).

Lemma unescape_f_map enc : forall s fuel,
  Forall (good_enc enc) s -> (List.length (flat_map enc s) <= fuel)%nat -> unescape_f fuel (flat_map enc s) = s.
Proof.
  induction s as [|b r IH]; intros fuel HF Hl.
  - destruct fuel; reflexivity.
  - inversion HF as [|? ? Hb Hr]; subst. simpl flat_map in *. rewrite app_length in Hl.
    destruct Hb as [[Hn E]|(name & E & _ & Hfind)]; rewrite E in *.
    + simpl in Hl. destruct fuel as [|f]; [lia|]. simpl.
      destruct (b =? 38) eqn:Eb; [apply N.eqb_eq in Eb; contradiction|]. f_equal. apply IH; auto. lia.
    + simpl in Hl. destruct fuel as [|f]; [lia|]. cbn [app unescape_f]. rewrite N.eqb_refl.
      rewrite Hfind, skipn_len_app. f_equal. apply IH; auto. lia.
Qed.
Lemma unescape_map enc s : Forall (good_enc enc) s -> unescape (flat_map enc s) = s.
Proof. intro H. unfold unescape. apply unescape_f_map; auto. Qed.

Lemma amp_ok_skip l r : ~ In 38 l -> amp_ok (l ++ r) = amp_ok r.
Proof.
  induction l as [|x l IH]; simpl; intro H; [reflexivity|].
  destruct (x =? 38) eqn:E; [apply N.eqb_eq in E; subst; exfalso; apply H; auto|]. simpl. apply IH. tauto.
Qed.
Lemma amp_ok_map enc s : Forall (good_enc enc) s -> amp_ok (flat_map enc s) = true.
Proof.
  induction 1 as [|b r Hb Hr IH]; [reflexivity|]. simpl flat_map.
  destruct Hb as [[Hn E]|(name & E & Hno & Hfind)]; rewrite E.
  - simpl. destruct (b =? 38) eqn:Eb; [apply N.eqb_eq in Eb; contradiction|]. exact IH.
  - cbn [app amp_ok]. rewrite N.eqb_refl, Hfind. simpl. rewrite amp_ok_skip; auto.
Qed.

Lemma has_byte_false b s : has_byte b s = false <-> ~ In b s.
Proof.
  unfold has_byte. split.
  - intros H Hin. assert (existsb (N.eqb b) s = true) by (apply existsb_exists; exists b; split; auto; apply N.eqb_refl). congruence.
  - intro H. destruct (existsb (N.eqb b) s) eqn:E; auto. apply existsb_exists in E. destruct E as (x & Hx & Ex).
    apply N.eqb_eq in Ex. subst. contradiction.
Qed.
Lemma not_in_flat_map {X} (f : X -> bytes) c l : (forall x, In x l -> ~ In c (f x)) -> ~ In c (flat_map f l).
Proof. intros H Hin. apply in_flat_map in Hin. destruct Hin as (x & Hx & Hc). exact (H x Hx Hc). Qed.

(* ---------------------------------------------------------------- text: all strings *)
Lemma good_enc_text b : good_enc enc_text b.
Proof.
  unfold good_enc, enc_text. destruct (b =? 38) eqn:E.
  - apply N.eqb_eq in E. subst. right. exists [97; 109; 112; 59]. repeat split.
    simpl. intros H. repeat (destruct H as [H|H]; [discriminate|]). exact H.
  - destruct (b =? 62) eqn:E3.
    + apply N.eqb_eq in E3. subst. right. exists [103; 116; 59]. repeat split.
      simpl. intros H. repeat (destruct H as [H|H]; [discriminate|]). exact H.
    + destruct (b =? 60) eqn:E2.
      * apply N.eqb_eq in E2. subst. right. exists [108; 116; 59]. repeat split.
        simpl. intros H. repeat (destruct H as [H|H]; [discriminate|]). exact H.
      * left. split; auto. apply N.eqb_neq. exact E.
Qed.

Lemma text_roundtrip s : unescape (escape_text s) = s.
Proof. rewrite text_escape_map. apply unescape_map. apply Forall_forall. intros b _. apply good_enc_text. Qed.

Lemma enc_text_no b c : (c = 60 \/ c = 62) -> ~ In c (enc_text b).
Proof.
  intros Hc. unfold enc_text.
  destruct (b =? 38); [destruct Hc; subst; simpl; intros H; repeat (destruct H as [H|H]; [discriminate|]); exact H|].
  destruct (b =? 62) eqn:E2; [destruct Hc; subst; simpl; intros H; repeat (destruct H as [H|H]; [discriminate|]); exact H|].
  destruct (b =? 60) eqn:E; [destruct Hc; subst; simpl; intros H; repeat (destruct H as [H|H]; [discriminate|]); exact H|].
  simpl. intros [H|[]]. subst b. destruct Hc; subst; rewrite N.eqb_refl in *; discriminate.
Qed.

(* `]]>` needs a `>` *)
Lemma cdata_end_needs_gt s : has_cdata_end s = true -> In 62 s.
Proof.
  induction s as [|a s IH]; [discriminate|]. cbn [has_cdata_end]. intro H. apply orb_true_iff in H. destruct H as [H|H].
  - destruct s as [|b [|c s]]; cbn [starts_with] in H; try (rewrite ?andb_false_r in H; discriminate).
    apply andb_true_iff in H. destruct H as [_ H]. apply andb_true_iff in H. destruct H as [_ H].
    apply andb_true_iff in H. destruct H as [H _]. apply N.eqb_eq in H. subst c. right. right. left. reflexivity.
  - right. apply IH. exact H.
Qed.

(* full strength, ALL strings: no raw `<`, no raw `>` (hence no `]]>`), every `&` starts a predefined entity *)
Lemma text_no_gt s : has_byte 62 (escape_text s) = false.
Proof. apply has_byte_false. rewrite text_escape_map. apply not_in_flat_map. intros b _. apply enc_text_no. auto. Qed.
Lemma text_wf s : char_data_wf (escape_text s) = true.
Proof.
  unfold char_data_wf. apply andb_true_intro. split; [apply andb_true_intro; split|].
  - apply negb_true_iff, has_byte_false. rewrite text_escape_map. apply not_in_flat_map. intros b _. apply enc_text_no. auto.
  - rewrite text_escape_map. apply amp_ok_map. apply Forall_forall. intros b _. apply good_enc_text.
  - apply negb_true_iff. destruct (has_cdata_end (escape_text s)) eqn:E; [|reflexivity].
    apply cdata_end_needs_gt in E. pose proof (text_no_gt s) as G. apply has_byte_false in G. contradiction.
Qed.

(* ---------------------------------------------------------------- attributes *)
Definition enc_attr (sq : bool) (b : N) : bytes := if b =? quote_byte sq then snd (fst (xw_attr_escape sq)) else [b].
Lemma attr_escape_map sq s : escape_attr sq s = flat_map (enc_attr sq) s.
Proof. rewrite attr_escape_eq. reflexivity. Qed.

(* the value never contains the quote that ends it: for ALL strings *)
Lemma attr_no_quote sq s : has_byte (quote_byte sq) (escape_attr sq s) = false.
Proof.
  apply has_byte_false. rewrite attr_escape_map. apply not_in_flat_map. intros b _. unfold enc_attr.
  destruct (b =? quote_byte sq) eqn:E.
  - destruct sq; simpl; intros H; repeat (destruct H as [H|H]; [discriminate|]); exact H.
  - simpl. intros [H|[]]. subst. rewrite N.eqb_refl in E. discriminate.
Qed.

Lemma good_enc_attr sq b : b <> 38 -> good_enc (enc_attr sq) b.
Proof.
  intro Hb. unfold good_enc, enc_attr. destruct (b =? quote_byte sq) eqn:E.
  - apply N.eqb_eq in E. subst b. right. destruct sq.
    + exists [97; 112; 111; 115; 59]. repeat split. simpl. intros H. repeat (destruct H as [H|H]; [discriminate|]). exact H.
    + exists [113; 117; 111; 116; 59]. repeat split. simpl. intros H. repeat (destruct H as [H|H]; [discriminate|]). exact H.
  - left. split; auto.
Qed.

(* a value without `&` and `<` is written as a well-formed AttValue that reads back as itself *)
Lemma attr_guarded sq s :
  has_byte 38 s = false -> has_byte 60 s = false ->
  attr_value_wf sq (escape_attr sq s) = true /\ unescape (escape_attr sq s) = s.
Proof.
  intros Ha Hl. apply has_byte_false in Ha. apply has_byte_false in Hl.
  assert (G : Forall (good_enc (enc_attr sq)) s).
  { apply Forall_forall. intros b Hb. apply good_enc_attr. intros ->. contradiction. }
  split.
  - unfold attr_value_wf. rewrite attr_no_quote. simpl. rewrite attr_escape_map.
    apply andb_true_intro. split; [|apply amp_ok_map; exact G].
    apply negb_true_iff, has_byte_false, not_in_flat_map. intros b Hb. unfold enc_attr.
    destruct (b =? quote_byte sq).
    + destruct sq; simpl; intros H; repeat (destruct H as [H|H]; [discriminate|]); exact H.
    + simpl. intros [H|[]]. subst. contradiction.
  - rewrite attr_escape_map. apply unescape_map. exact G.
Qed.

(* .. and the guard is needed (class unescaped-xml-char, F42) *)
Lemma attr_raw_special_refuted :
  (exists s, attr_value_wf false (escape_attr false s) = false) /\
  (exists s, attr_value_wf false (escape_attr false s) = true /\ unescape (escape_attr false s) <> s).
Proof.
  split.
  - exists [97; 60; 98]. reflexivity.                          (* a<b  is written  a<b *)
  - exists [97; 38; 97; 109; 112; 59; 98]. split; [reflexivity|].   (* the id `a&amp;b` is written as is and read back as `a&b` *)
    vm_compute. discriminate.
Qed.
