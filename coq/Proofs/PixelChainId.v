(* Identity chains are no-ops (extension round 4, second pass): ANY list of identity primitives (zero offset / zero blur, identity
   colour matrix, saturate 1, hueRotate 0, identity / linear 1 0 / table 0 1 transfer functions, merge of one input), wired in any
   way (SourceGraphic, named results incl. shadowed and unknown names), all computing in one colour space c, gives back the source
   pixel exactly when c = sRGB, and exactly ONE linearRGB round trip through the real lookup tables - however long the chain -
   when c = linearRGB. *)
From RV Require Import Model.F32.
From RV Require Import Gen.PixelTables.
From RV Require Import Model.Pixel.
From RV Require Import Model.FilterWire.
From RV Require Import Proofs.PixelBase.
From RV Require Import Proofs.PixelValid.
From RV Require Import Proofs.PixelIdentity.
From RV Require Import Proofs.PixelIdentity2.
From RV Require Import Proofs.PixelEarly.
From RV Require Import Proofs.FilterWire.
Local Open Scope Z_scope.

Definition src_like (i : winput) : Prop := match i with WSourceAlpha => False | _ => True end.
Definition id_cm (k : cm_kind) : Prop := k = CMMatrix identity_matrix \/ k = CMSaturate f1 \/ k = CMHueRotate f1 fzero.
Definition id_fs (fs : list tf) : Prop := forall j, tf_dummy (nthZ fs j TFIdentity) = true \/ tf_is_id (nthZ fs j TFIdentity).
Definition identity_prim (c : cspace) (p : wprim) : Prop :=
  match w_kind p with
  | WOffset0 i => src_like i
  | WColorMatrix k i => id_cm k /\ src_like i /\ w_cs p = c
  | WTransfer fs i => id_fs fs /\ src_like i /\ w_cs p = c
  | WMerge [i] => src_like i /\ w_cs p = c
  | _ => False
  end.
Definition home (c : cspace) (src : px) : px := match c with CsSRGB => src | CsLinear => px_into_linear src end.
Definition at_home (c : cspace) (src : px) (v : img) : Prop := v = (src, CsSRGB) \/ v = (home c src, c).

Lemma home_ok : forall c src, byte_px src -> valid_px src -> byte_px (home c src) /\ valid_px (home c src).
Proof. intros [|] src B V; cbn [home]; [split; assumption|]. destruct (into_linear_valid src B). split; assumption. Qed.

Lemma into_cs_home : forall c src v, at_home c src v -> into_cs c v = home c src.
Proof. intros c src v [-> | ->]; destruct c; reflexivity. Qed.

Lemma find_last_P : forall (P : img -> Prop) results name acc, Forall (fun nv => P (snd nv)) results ->
  match acc with Some v => P v | None => True end ->
  match find_last results name acc with Some v => P v | None => True end.
Proof.
  intros P. induction results as [|[n v] r IH]; intros name acc H Hacc; cbn [find_last]; [exact Hacc|].
  inversion H as [|x l Hv Hr]; subst. apply IH; [exact Hr|]. destruct (N.eqb n name); [exact Hv|exact Hacc].
Qed.

Lemma get_input_home : forall c src results i, src_like i -> Forall (fun nv => at_home c src (snd nv)) results ->
  at_home c src (get_input src results i).
Proof.
  intros c src results i Hi Hr. destruct i as [| |n]; cbn [get_input].
  - left. reflexivity.
  - contradiction.
  - pose proof (find_last_P (at_home c src) results n None Hr I) as H.
    destruct (find_last results n None); [exact H|left; reflexivity].
Qed.

Lemma over_px0 : forall p, over_px p px0 = p.
Proof.
  intros [r g b a]. unfold over_px, px0, over_u8, round_div255. cbn [pr pg pb pa]. rewrite !Z.mul_0_l.
  change ((2 * 0 + 255) / 510) with 0. rewrite !Z.add_0_r. reflexivity.
Qed.

Lemma id_cm_noop : forall k p, id_cm k -> byte_px p -> valid_px p -> px_color_matrix k p = p.
Proof.
  intros k p [->|[->| ->]] B V; [apply color_matrix_identity|apply color_matrix_saturate1|apply color_matrix_hue0]; assumption.
Qed.

Lemma run_prim_home : forall c src results p, byte_px src -> valid_px src -> identity_prim c p ->
  Forall (fun nv => at_home c src (snd nv)) results -> at_home c src (run_prim src results p).
Proof.
  intros c src results p B V Hp Hr. destruct (home_ok c src B V) as [HB HV].
  unfold identity_prim in Hp. unfold run_prim.
  destruct (w_kind p) as [i|k i|fs i|is|k1 k2 k3 k4 i1 i2|i1 i2|pv d b k i]; try contradiction.
  - apply get_input_home; assumption.
  - destruct Hp as (Hk & Hi & ->). right. rewrite (into_cs_home c src _ (get_input_home c src results i Hi Hr)).
    rewrite id_cm_noop by assumption. reflexivity.
  - destruct Hp as (Hf & Hi & ->). right. rewrite (into_cs_home c src _ (get_input_home c src results i Hi Hr)).
    rewrite component_transfer_identity by assumption. reflexivity.
  - destruct is as [|i [|j r]]; try contradiction. destruct Hp as (Hi & ->). right. cbn [fold_left].
    rewrite (into_cs_home c src _ (get_input_home c src results i Hi Hr)), over_px0. reflexivity.
Qed.

Lemma run_prims_home : forall c src ps results, byte_px src -> valid_px src -> Forall (identity_prim c) ps ->
  Forall (fun nv => at_home c src (snd nv)) results -> Forall (fun nv => at_home c src (snd nv)) (run_prims src results ps).
Proof.
  intros c src ps. induction ps as [|p r IH]; intros results B V Hp Hr; cbn [run_prims]; [exact Hr|].
  inversion Hp as [|x l Hx Hl]; subst. apply IH; try assumption.
  apply Forall_app. split; [exact Hr|]. constructor; [|constructor]. cbn [snd]. apply run_prim_home; assumption.
Qed.

Lemma run_prims_nonempty : forall src ps results, ps <> [] -> run_prims src results ps <> [].
Proof.
  intros src ps results H. destruct ps as [|p r]; [contradiction|]. cbn [run_prims].
  destruct (run_prims_app src r (results ++ [(w_name p, run_prim src results p)])) as [a ->].
  intro E. apply app_eq_nil in E. destruct E as [E _]. apply app_eq_nil in E. destruct E as [_ E]. discriminate E.
Qed.

Theorem identity_chain : forall c ps src, byte_px src -> valid_px src -> Forall (identity_prim c) ps -> ps <> [] ->
  run_filter ps src = src \/ (c = CsLinear /\ run_filter ps src = px_into_srgb (px_into_linear src)).
Proof.
  intros c ps src B V Hp Hne.
  pose proof (run_prims_home c src ps [] B V Hp (Forall_nil _)) as R.
  pose proof (run_prims_nonempty src ps [] Hne) as NE.
  unfold run_filter. destruct (rev (run_prims src [] ps)) as [|[n v] r] eqn:E.
  - exfalso. apply NE. rewrite <- (rev_involutive (run_prims src [] ps)), E. reflexivity.
  - rewrite Forall_forall in R. assert (H : at_home c src v).
    { apply (R (n, v)). apply in_rev. rewrite E. left. reflexivity. }
    destruct H as [-> | ->]; [left; reflexivity|]. destruct c; [left; reflexivity|right; split; reflexivity].
Qed.

Theorem identity_chain_noop : forall ps src, byte_px src -> valid_px src -> Forall (identity_prim CsSRGB) ps -> ps <> [] ->
  run_filter ps src = src.
Proof.
  intros ps src B V Hp Hne. destruct (identity_chain CsSRGB ps src B V Hp Hne) as [H|[H _]]; [exact H|discriminate H].
Qed.
