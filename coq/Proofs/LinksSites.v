(* C03 second pass: the graph argument - which guard stops a reference walk on which shape of graph.
   (1) a walk that keeps the list of visited elements (is_cacheable in clippath.rs / mask.rs) ends on EVERY
       graph, rho shapes (tail + cycle) included, after at most |document| pushes;
   (2) the weaker guards found elsewhere in the code base (stop at the current element; stop at the current or
       the first element) do not: on the rho-shaped chain m0 -> m1 -> m2 -> m3 -> m1 they never stop;
   (3) every link-following construct of parser/** is classified with a mechanism of the first sort. *)
From Coq Require Import ZArith NArith List Bool Lia.
From RV Require Import Gen.Consts Gen.LinkGuards Model.SvgBuild Model.Links Model.LinksSites Proofs.Links.
Import ListNotations.

Lemma mem_nat_true n l : mem_nat n l = true -> In n l.
Proof.
  unfold mem_nat. intro H. apply existsb_exists in H. destruct H as (x & Hx & E). apply Nat.eqb_eq in E. subst. exact Hx.
Qed.

(* invariant of the visited-list walk *)
Definition chain_inv (d : snode) (chain : list snode) : Prop :=
  NoDup (map s_id chain) /\ (forall x, In x chain -> In x (sflat d)).

Lemma chain_inv_len d chain : chain_inv d chain -> length chain <= length (sflat d).
Proof.
  intros [Hnd Hin]. rewrite <- (map_length s_id chain), <- (map_length s_id (sflat d)).
  apply NoDup_incl_length; [exact Hnd|]. intros i Hi. apply in_map_iff in Hi. destruct Hi as (x & <- & Hx).
  apply in_map, Hin, Hx.
Qed.

Lemma chain_go_visited d k origin : forall fuel curr chain,
  chain_inv d chain -> length (sflat d) < fuel + length chain ->
  let r := chain_go WVisited fuel d k origin curr chain in
  snd r = false /\ chain_inv d (fst r) /\ length (fst r) <= length (sflat d).
Proof.
  induction fuel as [|f IH]; intros curr chain Hinv Hlen; cbn [chain_go];
    destruct (node_attr d k curr) as [link|] eqn:E; cbn [fst snd];
    try (split; [reflexivity|split; [exact Hinv|apply chain_inv_len, Hinv]]).
  - pose proof (chain_inv_len _ _ Hinv). lia.
  - cbn [wstop]. destruct (mem_nat (s_id link) (map s_id chain)) eqn:M; cbn [fst snd];
      [split; [reflexivity|split; [exact Hinv|apply chain_inv_len, Hinv]]|].
    apply IH.
    + destruct Hinv as [Hnd Hin]. split.
      * cbn [map]. constructor; [apply mem_nat_false, M|exact Hnd].
      * intros x [<-|Hx]; [eapply node_attr_in; exact E|apply Hin, Hx].
    + cbn [length]. lia.
Qed.

(* (1) is_cacheable's walk, for every document and every start element: ends by itself, visits each element at
   most once, stays inside the document *)
Lemma chain_walk_terminates d k n : In n (sflat d) -> (k = AClip \/ k = AMask) ->
  snd (chain_walk d k n) = false /\ NoDup (map s_id (fst (chain_walk d k n))) /\
  length (fst (chain_walk d k n)) <= length (sflat d).
Proof.
  intros Hn Hk. unfold chain_walk.
  assert (Hg : chain_guard k = WVisited) by (destruct Hk as [-> | ->]; reflexivity). rewrite Hg.
  assert (Hinv : chain_inv d [n]).
  { split; [cbn [map]; constructor; [intros []|constructor]|]. intros x [<-|[]]. exact Hn. }
  destruct (chain_go_visited d k n (length (sflat d)) n [n] Hinv) as (H1 & [H2 _] & H3); [cbn [length]; lia|].
  repeat split; assumption.
Qed.

(* (2) the rho-shaped chain of seed C01-12: m0 -> m1 -> m2 -> m3 -> m1 *)
Local Open Scope N_scope.
Definition rho_doc : snode := SN 0 TSvg None false [] [
  SN 1 TMask (Some 10) true [(AMask, Some 11)] []; SN 2 TMask (Some 11) true [(AMask, Some 12)] [];
  SN 3 TMask (Some 12) true [(AMask, Some 13)] []; SN 4 TMask (Some 13) true [(AMask, Some 11)] []].
Definition rho_m (i : nat) : snode := nth i (s_kids rho_doc) rho_doc.
Local Close Scope N_scope.

Lemma rho_never_stops g : g = WSelf \/ g = WOrigin \/ g = WNone ->
  forall fuel chain, snd (chain_go g fuel rho_doc AMask (rho_m 0) (rho_m 1) chain) = true /\
                     snd (chain_go g fuel rho_doc AMask (rho_m 0) (rho_m 2) chain) = true /\
                     snd (chain_go g fuel rho_doc AMask (rho_m 0) (rho_m 3) chain) = true.
Proof.
  intros Hg. induction fuel as [|f IH]; intro chain.
  - destruct Hg as [-> |[-> | ->]]; repeat split; reflexivity.
  - destruct (IH (rho_m 2 :: chain)) as (_ & A2 & _). destruct (IH (rho_m 3 :: chain)) as (_ & _ & A3).
    destruct (IH (rho_m 1 :: chain)) as (A1 & _ & _).
    destruct Hg as [-> |[-> | ->]]; repeat split; first [exact A1 | exact A2 | exact A3].
Qed.

Lemma weak_guards_refuted g : g = WSelf \/ g = WOrigin \/ g = WNone ->
  forall fuel, snd (chain_go g (S fuel) rho_doc AMask (rho_m 0) (rho_m 0) [rho_m 0]) = true.
Proof.
  intros Hg fuel. destruct (rho_never_stops g Hg fuel [rho_m 1; rho_m 0]) as (A1 & _ & _).
  destruct Hg as [-> |[-> | ->]]; exact A1.
Qed.

(* ... while the visited list stops it after the four elements *)
Lemma rho_visited_stops :
  chain_walk rho_doc AMask (rho_m 0) = ([rho_m 3; rho_m 2; rho_m 1; rho_m 0], false).
Proof. vm_compute. reflexivity. Qed.

(* (3) the generated table of link-following constructs is covered by mechanisms that stop on every graph *)
Lemma all_sites_covered : sites_covered = true.
Proof. vm_compute. reflexivity. Qed.

Lemma sites_have_complete_guards :
  forall s, In s SITES -> exists c, In c CLASSIFIED /\ site_matches s c = true.
Proof.
  intros s Hs. pose proof all_sites_covered as H. unfold sites_covered in H.
  destruct uncovered_sites eqn:E; [|discriminate].
  assert (Hc : site_covered s = true).
  { destruct (site_covered s) eqn:C; [reflexivity|]. exfalso.
    assert (In s uncovered_sites) by (apply filter_In; split; [exact Hs|rewrite C; reflexivity]).
    rewrite E in H0. destruct H0. }
  unfold site_covered in Hc. apply existsb_exists in Hc. exact Hc.
Qed.

(* final pass: textPath and switch.  The element a textPath references is handed to shapes::convert only
   (G_TEXTPATH_NO_FOLLOW) and no function of shapes.rs / switch.rs contains a link-following construct: a reference
   that ends in text.rs resolve_text_flow has no outgoing edge in the walk, so it cannot close a cycle; a switch
   adds no edge of its own and passes the caller's state on (G_SWITCH_AS_GROUP is part of guard_push). *)
Lemma textpath_switch_follow_nothing :
  G_TEXTPATH_NO_FOLLOW = true /\ G_SWITCH_AS_GROUP = true /\ no_follow_files = true /\
  (forall m, guard_push m = true).
Proof. repeat split. intro m. destruct m; reflexivity. Qed.
