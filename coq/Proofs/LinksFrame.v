(* C03 extension round 4: the frame clause of the svgtree pre-pass.  Everything fix_recursive_* does is a
   sequence of `attribute := none` on references that lie on a cycle of length <= 2 OF THE DOCUMENT IT WAS
   GIVEN; the tree skeleton, every other attribute and every reference outside such a cycle are unchanged. *)
From Coq Require Import ZArith NArith List Bool Lia.
From RV Require Import Gen.Consts Gen.LinkGuards Model.SvgBuild Model.Links Model.LinksChk Proofs.Links.
Import ListNotations.

(* ---- what "on a short cycle" means ---- *)
Definition on_link_cycle (e : tagk) (k : akey) (d : snode) (id : nat) : Prop :=
  exists node child link, In node (sflat d) /\ s_tag node = e /\ In child (sflat node) /\ node_attr d k child = Some link /\
    ((s_id child = id /\ s_id link = s_id node) \/
     (exists n2 l2, In n2 (sflat link) /\ node_attr d k n2 = Some l2 /\ s_id l2 = s_id node /\ s_id n2 = id)).

Definition on_pattern_cycle (k : akey) (d : snode) (id : nat) : Prop :=
  exists p node lid, In p (sflat d) /\ s_tag p = TPattern /\ In node (sflat p) /\ attr_link k (s_attrs node) = Some lid /\
    ((s_id node = id /\ Some lid = s_name p) \/
     (exists ln n2 l2, lookup d lid = Some ln /\ In n2 (sflat ln) /\ attr_link k (s_attrs n2) = Some l2 /\
                       Some l2 = s_name p /\ s_id n2 = id)).

Definition on_feimage_cycle (d : snode) (id : nat) : Prop :=
  exists p fe link u, In p (sflat d) /\ In fe (s_kids p) /\ s_tag fe = TFeImage /\ node_attr d AHref fe = Some link /\
    In (Some u) (flist (s_attrs link)) /\ Some u = s_name p /\ s_id link = id.

Definition on_short_cycle (d : snode) (id : nat) (k : akey) : Prop :=
  match k with
  | AFill => on_pattern_cycle AFill d id
  | AStroke => on_pattern_cycle AStroke d id
  | AClip => on_link_cycle TClipPath AClip d id
  | AMask => on_link_cycle TMask AMask d id
  | AFilter => on_link_cycle TFilter AFilter d id \/ on_feimage_cycle d id
  | _ => False
  end.

(* ---- the finders report such references only ---- *)
Lemma find_link_just e k d id : find_recursive_link e k d = Some id -> on_link_cycle e k d id.
Proof.
  unfold find_recursive_link. intro H.
  apply find_map_some in H. destruct H as (node & Hnode & H).
  destruct (tag_eqb (s_tag node) e) eqn:Et; [|discriminate]. apply tag_eqb_eq in Et.
  rewrite link_scope_eq in H.
  apply find_map_some in H. destruct H as (child & Hchild & H).
  destruct (node_attr d k child) as [link|] eqn:El; [|discriminate].
  exists node, child, link. repeat (split; [assumption|]).
  destruct (Nat.eqb (s_id link) (s_id node)) eqn:E.
  - destruct G_PRE_LINK_SELF; [|discriminate]. injection H as <-. left. split; [reflexivity|apply Nat.eqb_eq, E].
  - destruct G_PRE_LINK_TWO; [|discriminate].
    apply find_map_some in H. destruct H as (n2 & Hn2 & H).
    destruct (node_attr d k n2) as [l2|] eqn:E2; [|discriminate].
    destruct (Nat.eqb (s_id l2) (s_id node)) eqn:E3; [|discriminate]. injection H as <-.
    right. exists n2, l2. repeat split; try assumption. apply Nat.eqb_eq, E3.
Qed.

Lemma find_pattern_just k d id : find_recursive_pattern k d = Some id -> on_pattern_cycle k d id.
Proof.
  unfold find_recursive_pattern. intro H.
  apply find_map_some in H. destruct H as (p & Hp & H).
  destruct (tag_eqb (s_tag p) TPattern) eqn:Et; [|discriminate]. apply tag_eqb_eq in Et.
  rewrite pat_scope_eq in H.
  apply find_map_some in H. destruct H as (node & Hnode & H).
  destruct (attr_link k (s_attrs node)) as [lid|] eqn:El; [|discriminate].
  exists p, node, lid. repeat (split; [assumption|]).
  destruct (optN_eqb (Some lid) (s_name p)) eqn:E.
  - destruct G_PRE_PAT_SELF; [|discriminate]. injection H as <-. left. split; [reflexivity|apply optN_eqb_eq, E].
  - destruct G_PRE_PAT_TWO; [|discriminate].
    destruct (lookup d lid) as [ln|] eqn:Eln; [|discriminate].
    apply find_map_some in H. destruct H as (n2 & Hn2 & H).
    destruct (attr_link k (s_attrs n2)) as [l2|] eqn:E2; [|discriminate].
    destruct (optN_eqb (Some l2) (s_name p)) eqn:E3; [|discriminate]. injection H as <-.
    right. exists ln, n2, l2. repeat split; try assumption. apply optN_eqb_eq, E3.
Qed.

Lemma fe_image_ids_just d id : In id (fe_image_ids d) -> on_feimage_cycle d id.
Proof.
  unfold fe_image_ids. intro H. apply in_flat_map in H. destruct H as (p & Hp & H).
  apply in_flat_map in H. destruct H as (fe & Hfe & H).
  destruct (tag_eqb (s_tag fe) TFeImage) eqn:Et; [|destruct H]. apply tag_eqb_eq in Et.
  destruct (node_attr d AHref fe) as [link|] eqn:El; [|destruct H].
  apply in_flat_map in H. destruct H as ([u|] & Hu & H); [|destruct H].
  destruct (optN_eqb (Some u) (s_name p)) eqn:E; [|destruct H]. destruct H as [<-|[]].
  exists p, fe, link, u. repeat split; try assumption. apply optN_eqb_eq, E.
Qed.

(* ---- a cycle of the document with a reference removed is a cycle of the document ---- *)
Lemma set_none_kids id k x : s_kids (set_none id k x) = map (set_none id k) (s_kids x).
Proof. destruct x; reflexivity. Qed.

Lemma link_cycle_back e k id0 k0 d id : on_link_cycle e k (set_none id0 k0 d) id -> on_link_cycle e k d id.
Proof.
  intros (node' & child' & link' & Hnode & Htag & Hchild & Hl & H).
  apply in_sflat_set_none in Hnode. destruct Hnode as (node & -> & Hnode).
  apply in_sflat_set_none in Hchild. destruct Hchild as (child & -> & Hchild).
  apply node_attr_set_none in Hl. destruct Hl as (link & -> & Hl).
  rewrite set_none_tag in Htag. rewrite !set_none_id in H.
  exists node, child, link. repeat (split; [assumption|]).
  destruct H as [H|(n2' & l2' & Hn2 & Hl2 & H1 & H2)]; [left; exact H|right].
  apply in_sflat_set_none in Hn2. destruct Hn2 as (n2 & -> & Hn2).
  apply node_attr_set_none in Hl2. destruct Hl2 as (l2 & -> & Hl2).
  rewrite set_none_id in *. exists n2, l2. repeat split; assumption.
Qed.

Lemma pattern_cycle_back k id0 k0 d id : on_pattern_cycle k (set_none id0 k0 d) id -> on_pattern_cycle k d id.
Proof.
  intros (p' & node' & lid & Hp & Htag & Hnode & Hl & H).
  apply in_sflat_set_none in Hp. destruct Hp as (p & -> & Hp).
  apply in_sflat_set_none in Hnode. destruct Hnode as (node & -> & Hnode).
  apply attr_link_set_none_node in Hl. rewrite set_none_tag in Htag. rewrite set_none_name, set_none_id in H.
  exists p, node, lid. repeat (split; [assumption|]).
  destruct H as [H|(ln' & n2' & l2 & Hln & Hn2 & Hl2 & H1 & H2)]; [left; exact H|right].
  rewrite lookup_set_none in Hln. destruct (lookup d lid) as [ln|] eqn:E; [|discriminate]. injection Hln as <-.
  apply in_sflat_set_none in Hn2. destruct Hn2 as (n2 & -> & Hn2).
  apply attr_link_set_none_node in Hl2. rewrite set_none_id in H2.
  exists ln, n2, l2. repeat split; assumption.
Qed.

Lemma flist_set_none_back id k0 n u : In (Some u) (flist (s_attrs (set_none id k0 n))) -> In (Some u) (flist (s_attrs n)).
Proof.
  rewrite set_none_attrs. destruct (Nat.eqb (s_id n) id); [|exact (fun H => H)].
  unfold flist. generalize (s_attrs n). intro a. induction a as [|[k' v] r IH]; [exact (fun H => H)|].
  assert (Hk : forall v1 v2, is_filter_key (k', v1) = is_filter_key (k', v2)) by reflexivity.
  cbn [attrs_set_none]. destruct (akey_eqb k0 k'); cbn [filter]; rewrite ?(Hk None v); destruct (is_filter_key (k', v));
    cbn [map snd]; try exact IH; intros [H|H]; try discriminate H; [right; apply IH, H|left; exact H|right; apply IH, H].
Qed.

Lemma feimage_cycle_back id0 k0 d id : on_feimage_cycle (set_none id0 k0 d) id -> on_feimage_cycle d id.
Proof.
  intros (p' & fe' & link' & u & Hp & Hfe & Htag & Hl & Hu & Hn & Hid).
  apply in_sflat_set_none in Hp. destruct Hp as (p & -> & Hp).
  rewrite set_none_kids in Hfe. apply in_map_iff in Hfe. destruct Hfe as (fe & <- & Hfe).
  apply node_attr_set_none in Hl. destruct Hl as (link & -> & Hl).
  apply flist_set_none_back in Hu. rewrite set_none_tag in Htag. rewrite set_none_name in Hn. rewrite set_none_id in Hid.
  exists p, fe, link, u. repeat split; assumption.
Qed.

Lemma short_cycle_back id0 k0 d id k : on_short_cycle (set_none id0 k0 d) id k -> on_short_cycle d id k.
Proof.
  destruct k; cbn [on_short_cycle]; try exact (fun H => H);
    try apply pattern_cycle_back; try apply link_cycle_back.
  intros [H|H]; [left; eapply link_cycle_back; exact H|right; eapply feimage_cycle_back; exact H].
Qed.

(* ---- sequences of removals ---- *)
Definition rm1 (d : snode) (p : nat * akey) : snode := set_none (fst p) (snd p) d.
Definition apply_rm (S : list (nat * akey)) (d : snode) : snode := fold_left rm1 S d.
Definition just (d : snode) (p : nat * akey) : Prop := on_short_cycle d (fst p) (snd p).
(* d' is d with some references on short cycles of d removed *)
Definition removes (d d' : snode) : Prop := exists S, d' = apply_rm S d /\ Forall (just d) S.

Lemma short_cycle_back_all S : forall d id k, on_short_cycle (apply_rm S d) id k -> on_short_cycle d id k.
Proof.
  induction S as [|[i0 k0] r IH]; intros d id k H; [exact H|].
  cbn [apply_rm fold_left] in H. apply IH in H. unfold rm1 in H. cbn [fst snd] in H. eapply short_cycle_back, H.
Qed.

Lemma removes_refl d : removes d d.
Proof. exists []. split; [reflexivity|constructor]. Qed.

Lemma removes_trans d1 d2 d3 : removes d1 d2 -> removes d2 d3 -> removes d1 d3.
Proof.
  intros (S1 & -> & H1) (S2 & -> & H2). exists (S1 ++ S2). split.
  - unfold apply_rm. rewrite fold_left_app. reflexivity.
  - apply Forall_app. split; [exact H1|]. eapply Forall_impl; [|exact H2].
    intros [i k] H. unfold just in *. eapply short_cycle_back_all, H.
Qed.

Lemma removes_one d id k : on_short_cycle d id k -> removes d (set_none id k d).
Proof. intro H. exists [(id, k)]. split; [reflexivity|]. constructor; [exact H|constructor]. Qed.

Definition finder_just (find : snode -> option nat) (k : akey) : Prop :=
  forall d id, find d = Some id -> on_short_cycle d id k.

Lemma fix_loop_removes find k : finder_just find k ->
  forall fuel d, removes d (fst (fst (fix_loop fuel find k d))).
Proof.
  intro Hj. induction fuel as [|f IH]; intro d; cbn [fix_loop]; destruct (find d) as [id|] eqn:E; try apply removes_refl.
  specialize (IH (set_none id k d)). destruct (fix_loop f find k (set_none id k d)) as [[d' n] fin]. cbn [fst] in *.
  eapply removes_trans; [apply removes_one, Hj, E|exact IH].
Qed.

Lemma loop_doc_removes find k d : finder_just find k -> removes d (loop_doc find k d).
Proof. intro H. unfold loop_doc, run_loop. apply fix_loop_removes, H. Qed.

(* a list of removals that are all justified in the same document *)
Lemma apply_rm_removes S d : Forall (just d) S -> removes d (apply_rm S d).
Proof. intro H. exists S. split; [reflexivity|exact H]. Qed.

Lemma fold_fe_as_rm : forall l d,
  fold_left (fun d id => set_none id AFilter d) l d = apply_rm (map (fun id => (id, AFilter)) l) d.
Proof. induction l as [|id r IH]; intro d; [reflexivity|]. cbn [fold_left map apply_rm]. rewrite IH. reflexivity. Qed.

Lemma fix_fe_image_removes d : removes d (fix_fe_image d).
Proof.
  unfold fix_fe_image. destruct G_PRE_FEIMAGE; [|apply removes_refl].
  rewrite fold_fe_as_rm. apply apply_rm_removes. rewrite Forall_forall. intros [i k] Hin.
  apply in_map_iff in Hin. destruct Hin as (id & [= <- <-] & Hin). unfold just. cbn [fst snd on_short_cycle].
  right. apply fe_image_ids_just, Hin.
Qed.

Lemma prepass_step_removes s d : removes d (prepass_step s d).
Proof.
  destruct s; cbn [prepass_step]; try apply removes_refl.
  - destruct G_PRE_PAT_LOOPS; [|apply removes_refl].
    eapply removes_trans; apply loop_doc_removes; intros x id H; cbn [on_short_cycle]; apply find_pattern_just, H.
  - destruct G_PRE_LINK_LOOP; [|apply removes_refl]. apply loop_doc_removes. intros x id H. cbn [on_short_cycle]. apply find_link_just, H.
  - destruct G_PRE_LINK_LOOP; [|apply removes_refl]. apply loop_doc_removes. intros x id H. cbn [on_short_cycle]. apply find_link_just, H.
  - destruct G_PRE_LINK_LOOP; [|apply removes_refl]. apply loop_doc_removes. intros x id H. cbn [on_short_cycle]. left. apply find_link_just, H.
  - apply fix_fe_image_removes.
Qed.

Lemma prepass_removes d : removes d (prepass d).
Proof.
  unfold prepass. generalize PREPASS. intro l. revert d.
  induction l as [|s r IH]; intro d; [apply removes_refl|]. cbn [fold_left].
  eapply removes_trans; [apply prepass_step_removes|apply IH].
Qed.

(* ---- what a removal leaves alone ---- *)
Inductive skn := SK (id : nat) (tag : tagk) (name : option N) (flag : bool) (keys : list akey) (kids : list skn).
Fixpoint skel (x : snode) : skn :=
  match x with SN i t n f a ks => SK i t n f (map fst a) (map skel ks) end.

Lemma attrs_set_none_keys k a : map fst (attrs_set_none k a) = map fst a.
Proof.
  induction a as [|[k' v] r IH]; [reflexivity|]. cbn [attrs_set_none].
  destruct (akey_eqb k k'); cbn [map fst]; rewrite IH; reflexivity.
Qed.

Lemma skel_set_none id k : forall x, skel (set_none id k x) = skel x.
Proof.
  induction x as [i t n f a ks IH] using snode_ind'. cbn [set_none skel]. f_equal.
  - destruct (Nat.eqb i id); [apply attrs_set_none_keys|reflexivity].
  - rewrite map_map. induction ks as [|c r IHr]; [reflexivity|].
    inversion IH as [|? ? Hc Hr]; subst. cbn [map]. rewrite Hc, IHr; [reflexivity|exact Hr].
Qed.

Lemma skel_apply_rm S : forall d, skel (apply_rm S d) = skel d.
Proof. induction S as [|[i k] r IH]; intro d; [reflexivity|]. cbn [apply_rm fold_left]. rewrite IH. apply skel_set_none. Qed.

Lemma link_table_in d id k v :
  In (id, k, v) (link_table d) <-> exists n, In n (sflat d) /\ s_id n = id /\ In (k, Some v) (s_attrs n).
Proof.
  unfold link_table. rewrite in_flat_map. split.
  - intros (n & Hn & H). rewrite in_flat_map in H. destruct H as ([k' [v'|]] & Hkv & H); [|destruct H].
    destruct H as [[= <- <- <-]|[]]. exists n. repeat split; assumption.
  - intros (n & Hn & <- & Hkv). exists n. split; [exact Hn|]. rewrite in_flat_map. exists (k, Some v). split; [exact Hkv|left; reflexivity].
Qed.

Lemma in_attrs_set_none_keep k0 a k v : k <> k0 -> In (k, Some v) a -> In (k, Some v) (attrs_set_none k0 a).
Proof.
  intros Hne. induction a as [|[k' v'] r IH]; [exact (fun H => H)|]. cbn [attrs_set_none].
  destruct (akey_eqb k0 k') eqn:E; intros [H|H].
  - injection H as -> ->. apply akey_eqb_eq in E. congruence.
  - right. apply IH, H.
  - left. exact H.
  - right. apply IH, H.
Qed.

Lemma in_attrs_set_none_back k0 a k v : In (k, Some v) (attrs_set_none k0 a) -> In (k, Some v) a.
Proof.
  induction a as [|[k' v'] r IH]; [exact (fun H => H)|]. cbn [attrs_set_none].
  destruct (akey_eqb k0 k') eqn:E; intros [H|H].
  - discriminate H.
  - right. apply IH, H.
  - left. exact H.
  - right. apply IH, H.
Qed.

Lemma link_table_set_none_keep id0 k0 d id k v : (id, k) <> (id0, k0) ->
  In (id, k, v) (link_table d) -> In (id, k, v) (link_table (set_none id0 k0 d)).
Proof.
  intros Hne H. rewrite link_table_in in *. destruct H as (n & Hn & Hid & Hkv).
  exists (set_none id0 k0 n). split; [rewrite sflat_set_none; apply in_map, Hn|]. rewrite set_none_id. split; [exact Hid|].
  rewrite set_none_attrs. destruct (Nat.eqb (s_id n) id0) eqn:E; [|exact Hkv].
  apply Nat.eqb_eq in E. apply in_attrs_set_none_keep; [|exact Hkv]. intros ->. apply Hne. congruence.
Qed.

Lemma link_table_set_none_back id0 k0 d e : In e (link_table (set_none id0 k0 d)) -> In e (link_table d).
Proof.
  destruct e as [[id k] v]. rewrite !link_table_in. intros (n' & Hn & Hid & Hkv).
  apply in_sflat_set_none in Hn. destruct Hn as (n & -> & Hn). rewrite set_none_id in Hid.
  exists n. split; [exact Hn|]. split; [exact Hid|].
  rewrite set_none_attrs in Hkv. destruct (Nat.eqb (s_id n) id0); [eapply in_attrs_set_none_back, Hkv|exact Hkv].
Qed.

Lemma link_table_apply_rm_back S : forall d e, In e (link_table (apply_rm S d)) -> In e (link_table d).
Proof.
  induction S as [|[i k] r IH]; intros d e H; [exact H|]. cbn [apply_rm fold_left] in H.
  apply IH in H. eapply link_table_set_none_back, H.
Qed.

Lemma link_table_apply_rm_keep S : forall d id k v, ~ In (id, k) S ->
  In (id, k, v) (link_table d) -> In (id, k, v) (link_table (apply_rm S d)).
Proof.
  induction S as [|[i0 k0] r IH]; intros d id k v Hn H; [exact H|]. cbn [apply_rm fold_left].
  apply IH; [intro Hc; apply Hn; right; exact Hc|].
  apply link_table_set_none_keep; [intro Hc; apply Hn; left; symmetry; exact Hc|exact H].
Qed.

Lemma prepass_frame d :
  skel (prepass d) = skel d /\
  (forall e, In e (link_table (prepass d)) -> In e (link_table d)) /\
  (forall id k v, In (id, k, v) (link_table d) -> ~ on_short_cycle d id k -> In (id, k, v) (link_table (prepass d))).
Proof.
  destruct (prepass_removes d) as (S & -> & HS). split; [apply skel_apply_rm|]. split; [apply link_table_apply_rm_back|].
  intros id k v Hin Hn. apply link_table_apply_rm_keep; [|exact Hin].
  intro Hc. rewrite Forall_forall in HS. apply Hn. exact (HS _ Hc).
Qed.

(* ---- the boolean test used by the correspondence holds of everything the Prop holds of ---- *)
Lemma link_cycle_b e k d id : on_link_cycle e k d id -> on_link_cycle_b e k d id = true.
Proof.
  intros (node & child & link & Hnode & Htag & Hchild & Hl & H).
  unfold on_link_cycle_b. apply existsb_exists. exists node. split; [exact Hnode|].
  rewrite Htag, tag_eqb_refl. cbn [andb]. apply existsb_exists. exists child. split; [exact Hchild|]. rewrite Hl.
  apply orb_true_iff. destruct H as [[H1 H2]|(n2 & l2 & Hn2 & Hl2 & H1 & H2)].
  - left. rewrite H1, H2, !Nat.eqb_refl. reflexivity.
  - right. apply existsb_exists. exists n2. split; [exact Hn2|]. rewrite Hl2, H1, H2, !Nat.eqb_refl. reflexivity.
Qed.

Lemma optN_eqb_refl' a b : a = b -> optN_eqb a b = true.
Proof. intro H. apply optN_eqb_eq, H. Qed.

Lemma pattern_cycle_b k d id : on_pattern_cycle k d id -> on_pattern_cycle_b k d id = true.
Proof.
  intros (p & node & lid & Hp & Htag & Hnode & Hl & H).
  unfold on_pattern_cycle_b. apply existsb_exists. exists p. split; [exact Hp|].
  rewrite Htag. cbn [tag_eqb andb]. apply existsb_exists. exists node. split; [exact Hnode|]. rewrite Hl.
  apply orb_true_iff. destruct H as [[H1 H2]|(ln & n2 & l2 & Hln & Hn2 & Hl2 & H1 & H2)].
  - left. rewrite H1, Nat.eqb_refl, (optN_eqb_refl' _ _ H2). reflexivity.
  - right. rewrite Hln. apply existsb_exists. exists n2. split; [exact Hn2|].
    rewrite Hl2, H2, Nat.eqb_refl, (optN_eqb_refl' _ _ H1). reflexivity.
Qed.

Lemma feimage_cycle_b d id : on_feimage_cycle d id -> on_feimage_cycle_b d id = true.
Proof.
  intros (p & fe & link & u & Hp & Hfe & Htag & Hl & Hu & Hn & Hid).
  unfold on_feimage_cycle_b. apply existsb_exists. exists p. split; [exact Hp|].
  apply existsb_exists. exists fe. split; [exact Hfe|].
  rewrite Htag, Hl, Hid, Nat.eqb_refl. cbn [tag_eqb andb]. apply existsb_exists. exists (Some u). split; [exact Hu|].
  apply optN_eqb_refl', Hn.
Qed.

Lemma short_cycle_b d id k : on_short_cycle d id k -> on_short_cycle_b d id k = true.
Proof.
  destruct k; cbn [on_short_cycle on_short_cycle_b];
    try (intro H; exact (match H with end)); try apply pattern_cycle_b; try apply link_cycle_b.
  intros [H|H]; apply orb_true_iff; [left; apply link_cycle_b, H|right; apply feimage_cycle_b, H].
Qed.

(* the frame clause with the decidable test: what the checker calls "not on a short cycle" is kept *)
Lemma prepass_frame_b d id k v :
  In (id, k, v) (link_table d) -> on_short_cycle_b d id k = false -> In (id, k, v) (link_table (prepass d)).
Proof.
  intros Hin Hb. apply (proj2 (proj2 (prepass_frame d))); [exact Hin|].
  intro H. apply short_cycle_b in H. congruence.
Qed.
