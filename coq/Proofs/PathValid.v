(* C04 lemmas: every path the PathBuilder model hands out is valid, for all scripts of builder calls. *)
From RV Require Import Model.Base Model.ShapePath Gen.ShapePaths Model.PathValid.
Local Open Scope Q_scope.

(* invariant of a builder (verbs in reverse order): without verbs a move is required; the FIRST verb is a move;
   never two moves in a row *)
Definition ends_move (r : list seg) : bool := match r with [] => true | _ => is_move (last r SZ) end.
Definition binv (b : pbuilder) : Prop :=
  (b_rev b = [] -> b_mtr b = true) /\ ends_move (b_rev b) = true /\ no_double_move (b_rev b) = true.

Lemma ends_move_cons s r : r <> [] -> ends_move (s :: r) = ends_move r.
Proof. destruct r as [|a r']; [congruence|]. intros _. reflexivity. Qed.

Lemma binv_new : binv pb_new.
Proof. repeat split. Qed.

Lemma binv_move b x y : binv b -> binv (pb_move_to b x y) /\ b_rev (pb_move_to b x y) <> [].
Proof.
  intros (I1 & I2 & I3). unfold pb_move_to.
  destruct (b_rev b) as [|s r] eqn:E.
  - split; [|simpl; discriminate]. repeat split; simpl; try reflexivity. discriminate.
  - destruct s; try (split; [|simpl; discriminate]; repeat split; simpl b_rev; try discriminate;
      [rewrite ends_move_cons by discriminate; exact I2 | cbn [no_double_move is_move andb negb]; exact I3]).
    (* a trailing move is overwritten *)
    split; [|simpl; discriminate]. repeat split; simpl b_rev; try discriminate.
    + destruct r as [|a r']; [reflexivity|]. exact I2.
    + destruct r as [|a r']; [reflexivity|]. exact I3.
Qed.

Lemma binv_inject b : binv b -> binv (pb_inject b) /\ b_rev (pb_inject b) <> [].
Proof.
  intros I. unfold pb_inject. destruct (b_mtr b) eqn:M.
  - destruct (b_lm b); apply binv_move; exact I.
  - split; [exact I|]. destruct I as (I1 & _). intro E. apply I1 in E. congruence.
Qed.

Lemma binv_push b s : is_move s = false -> binv b ->
  binv (pb_push b s) /\ (2 <= length (b_rev (pb_push b s)))%nat.
Proof.
  intros Hs I. destruct (binv_inject b I) as [(J1 & J2 & J3) Hne]. unfold pb_push. simpl b_rev.
  destruct (b_rev (pb_inject b)) as [|a r] eqn:E; [congruence|]. split.
  - repeat split; simpl b_rev; try discriminate.
    + rewrite ends_move_cons by discriminate. exact J2.
    + cbn [no_double_move]. rewrite Hs. cbn [andb negb]. exact J3.
  - simpl. lia.
Qed.

Lemma binv_close b : binv b -> binv (pb_close b).
Proof.
  intros (I1 & I2 & I3). unfold pb_close. destruct (b_rev b) as [|s r] eqn:E.
  - repeat split.
  - destruct s; repeat split; simpl b_rev; try discriminate; try assumption;
      try (rewrite ends_move_cons by discriminate; exact I2); cbn [no_double_move is_move andb negb]; exact I3.
Qed.

Lemma binv_op b o : binv b -> binv (run_op b o).
Proof.
  intro I. destruct o; simpl.
  - apply binv_move; exact I.
  - apply binv_push; [reflexivity|exact I].
  - apply binv_push; [reflexivity|exact I].
  - apply binv_push; [reflexivity|exact I].
  - unfold pb_arc_to. destruct (pb_is_empty b); [exact I|]. apply binv_push; [reflexivity|exact I].
  - apply binv_close; exact I.
Qed.

Lemma binv_script l : forall b, binv b -> binv (run_script l b).
Proof. induction l as [|o r IH]; intros b I; simpl; [exact I|]. apply IH. apply binv_op. exact I. Qed.

Lemma ndm_app_one l s : l <> [] ->
  no_double_move (l ++ [s]) = no_double_move l && negb (is_move (last l SZ) && is_move s).
Proof.
  induction l as [|a r IH]; [congruence|]. intros _.
  destruct r as [|b r'].
  - simpl. rewrite andb_true_r. reflexivity.
  - change ((a :: b :: r') ++ [s]) with (a :: ((b :: r') ++ [s])).
    change (no_double_move (a :: (b :: r') ++ [s])) with (negb (is_move a && is_move b) && no_double_move ((b :: r') ++ [s])).
    rewrite IH by discriminate. change (last (a :: b :: r') SZ) with (last (b :: r') SZ).
    change (no_double_move (a :: b :: r')) with (negb (is_move a && is_move b) && no_double_move (b :: r')).
    rewrite andb_assoc. reflexivity.
Qed.
Lemma ndm_rev r : no_double_move (rev r) = no_double_move r.
Proof.
  induction r as [|a r IH]; [reflexivity|]. simpl rev.
  destruct r as [|b r']; [reflexivity|].
  assert (Hne : rev (b :: r') <> []).
  { intro E. apply (f_equal (@length seg)) in E. rewrite rev_length in E. discriminate. }
  rewrite (ndm_app_one _ a Hne), IH.
  assert (L : last (rev (b :: r')) SZ = b) by (simpl; apply last_last).
  rewrite L. change (no_double_move (a :: b :: r')) with (negb (is_move a && is_move b) && no_double_move (b :: r')).
  rewrite (andb_comm (is_move b) (is_move a)). apply andb_comm.
Qed.
Lemma rev_head_last r : r <> [] -> exists t, rev r = last r SZ :: t.
Proof.
  induction r as [|a r IH]; [congruence|]. intros _. destruct r as [|b r'].
  - exists []. reflexivity.
  - destruct (IH ltac:(discriminate)) as [t Ht]. simpl rev in *. rewrite Ht. exists (t ++ [a]). reflexivity.
Qed.

(* finish hands out only valid paths *)
Lemma finish_valid b p : binv b -> pb_finish b = Some p -> path_valid p = true.
Proof.
  intros (I1 & I2 & I3). unfold pb_finish. destruct (b_rev b) as [|a r] eqn:E; [discriminate|].
  destruct r as [|c r']; [discriminate|]. intro H.
  assert (Hp : p = rev (a :: c :: r')) by (inversion H; reflexivity). subst p. clear H. unfold path_valid.
  rewrite rev_length. rewrite ndm_rev, I3.
  destruct (rev_head_last (a :: c :: r') ltac:(discriminate)) as [t Ht]. rewrite Ht.
  change (ends_move (a :: c :: r')) with (is_move (last (a :: c :: r') SZ)) in I2.
  destruct (last (a :: c :: r') SZ); try discriminate. reflexivity.
Qed.

(* ALL scripts of builder calls *)
Lemma script_valid l : opath_valid (pb_finish (run_script l pb_new)) = true.
Proof.
  destruct (pb_finish (run_script l pb_new)) as [p|] eqn:E; [|reflexivity].
  simpl. exact (finish_valid _ _ (binv_script l _ binv_new) E).
Qed.

(* path data: every list of simplified segments *)
Lemma convert_path_valid d : opath_valid (convert_path d) = true.
Proof. unfold convert_path. apply script_valid. Qed.

(* the number of verbs never shrinks, a drawing call leaves at least two *)
Lemma len_op b o : (length (b_rev b) <= length (b_rev (run_op b o)))%nat.
Proof.
  assert (Hm : forall x y, (length (b_rev b) <= length (b_rev (pb_move_to b x y)))%nat).
  { intros. unfold pb_move_to. destruct (b_rev b) as [|s r]; [simpl; lia|]. destruct s; simpl; lia. }
  assert (Hi : (length (b_rev b) <= length (b_rev (pb_inject b)))%nat).
  { unfold pb_inject. destruct (b_mtr b); [|lia]. destruct (b_lm b); apply Hm. }
  destruct o; simpl; try apply Hm; try (unfold pb_line_to, pb_quad_to, pb_cubic_to, pb_push; simpl; lia).
  - unfold pb_arc_to. destruct (pb_is_empty b); [lia|]. unfold pb_push; simpl; lia.
  - unfold pb_close. destruct (b_rev b) as [|s r]; [simpl; lia|]. destruct s; simpl; lia.
Qed.
Lemma len_script l : forall b, (length (b_rev b) <= length (b_rev (run_script l b)))%nat.
Proof. induction l as [|o r IH]; intro b; simpl; [lia|]. pose proof (len_op b o). pose proof (IH (run_op b o)). lia. Qed.
Lemma convert_path_draws d : existsb draws d = true -> exists p, convert_path d = Some p.
Proof.
  unfold convert_path. intro H.
  assert (K : forall l b, binv b -> existsb draws l = true -> (2 <= length (b_rev (run_script (map path_seg_op l) b)))%nat).
  { induction l as [|s r IH]; intros b I Hd; [discriminate|]. simpl in Hd. simpl map. simpl run_script.
    destruct (draws s) eqn:Ds.
    - assert (L : (2 <= length (b_rev (run_op b (path_seg_op s))))%nat).
      { destruct s; try discriminate; cbn [path_seg_op run_op]; unfold pb_line_to, pb_quad_to, pb_cubic_to;
          apply binv_push; try reflexivity; exact I. }
      pose proof (len_script (map path_seg_op r) (run_op b (path_seg_op s))). lia.
    - simpl in Hd. apply IH; [apply binv_op; exact I|exact Hd]. }
  specialize (K d pb_new binv_new H). unfold pb_finish.
  destruct (b_rev (run_script (map path_seg_op d) pb_new)) as [|a r]; [simpl in K; lia|].
  destruct r; [simpl in K; lia|]. eexists. reflexivity.
Qed.
(* ... and moves alone never give a path (each overwrites the previous one: a lone MoveTo is rejected by finish);
   "M x y Z" does pass finish as [MoveTo; Close] *)
Definition only_move (s : simple_seg) : bool := match s with PMove _ _ => true | _ => false end.
Lemma convert_path_only_moves d : forallb only_move d = true -> convert_path d = None.
Proof.
  unfold convert_path. intro H.
  assert (K : forall l b, forallb only_move l = true -> (b_rev b = [] \/ exists x y, b_rev b = [SM x y]) ->
              (length (b_rev (run_script (map path_seg_op l) b)) <= 1)%nat).
  { induction l as [|s r IH]; intros b Hd Hb.
    - simpl. destruct Hb as [->|(x & y & ->)]; simpl; lia.
    - simpl in Hd. apply andb_true_iff in Hd as [Ds Hr].
      simpl map. simpl run_script. apply IH; [exact Hr|].
      destruct s; try discriminate; simpl. right. unfold pb_move_to.
      destruct Hb as [->|(x0 & y0 & ->)]; simpl; eexists; eexists; reflexivity. }
  specialize (K d pb_new H (or_introl eq_refl)). unfold pb_finish.
  destruct (b_rev (run_script (map path_seg_op d) pb_new)) as [|a r]; [reflexivity|].
  destruct r; [reflexivity|simpl in K; lia].
Qed.

(* basic shapes *)
Lemma points_inv pts : forall b, binv b -> binv (fold_left points_to_path_step pts b).
Proof.
  induction pts as [|p r IH]; intros b I; simpl; [exact I|]. apply IH. unfold points_to_path_step.
  destruct (pb_is_empty b); apply binv_op; exact I.
Qed.
Lemma shapes_valid :
  (forall pts, opath_valid (convert_polyline pts) = true) /\
  (forall pts, opath_valid (convert_polygon pts) = true) /\
  (forall x1 y1 x2 y2, opath_valid (convert_line x1 y1 x2 y2) = true) /\
  (forall cx cy rx ry, opath_valid (convert_ellipse cx cy rx ry) = true) /\
  (forall cx cy r, opath_valid (convert_circle cx cy r) = true) /\
  (forall x y w h rx ry, opath_valid (rect_path x y w h rx ry) = true).
Proof.
  (* the line case computes *)
  repeat split; intros.
  - unfold convert_polyline, points_to_path. destruct (Nat.ltb _ _); [reflexivity|].
    destruct (pb_finish _) as [p|] eqn:E; [|reflexivity]. simpl. exact (finish_valid _ _ (points_inv pts _ binv_new) E).
  - unfold convert_polygon, points_to_path. destruct (Nat.ltb _ _); [reflexivity|].
    destruct (pb_finish _) as [p|] eqn:E; [|reflexivity]. simpl.
    exact (finish_valid _ _ (binv_script [BClose] _ (points_inv pts _ binv_new)) E).
  - unfold convert_ellipse. destruct (valid_length rx && valid_length ry); [|reflexivity]. unfold ellipse_to_path. apply script_valid.
  - unfold convert_circle. destruct (valid_length r); [|reflexivity]. unfold ellipse_to_path. apply script_valid.
  - unfold rect_path. destruct (Qeqb rx 0); [reflexivity|]. apply script_valid.
Qed.
