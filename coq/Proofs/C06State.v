(* C06 (extension round 4): when every cell of the ledger is in a discharged class, a call is a pure function of
   its input for ALL histories and ALL schedules; an undischarged cell breaks both.  Sorted-order lemmas. *)
From Coq Require Import List Bool Arith PeanoNat Lia Permutation Sorted.
Import ListNotations.
From RV Require Import Model.C06State.

Section Proofs.
  Variable F : nat -> nat -> nat -> nat.
  Variable G : nat -> nat -> nat.
  Variable Hc : nat -> nat -> nat.
  Variable classes : list cls.
  Variable init : nat -> nat.
  Variable prog : nat -> list instr.

  Notation step := (step F G Hc classes).
  Notation pstep := (pstep F G Hc classes init).
  Notation exec := (exec F G Hc classes).
  Notation pexec := (pexec F G Hc classes init).
  Notation call := (call F G Hc classes init prog).
  Notation hrun := (hrun F G Hc classes init prog).
  Notation instr_ok := (instr_ok classes).
  Notation store0 := (store0 init).

  Hypothesis AD : forallb discharged classes = true.

  Lemma no_mutable : forall c, nth_error classes c = Some Mutable -> False.
  Proof.
    intros c E. apply nth_error_In in E. rewrite forallb_forall in AD. specialize (AD _ E). discriminate.
  Qed.

  (* what the discharged classes guarantee about the shared store *)
  Definition Inv (sh : store) : Prop := forall c,
    match nth_error classes c with
    | Some ImmInit | Some ExtInput => fst (sh c) = init c
    | Some (KeyedDet g) => forall k v, In (k, v) (snd (sh c)) -> v = G g k
    | _ => True
    end.

  Lemma Inv_store0 : Inv store0.
  Proof. intro c. unfold C06State.store0. destruct (nth_error classes c) as [[]|]; simpl; auto; intros ? ? []. Qed.

  Lemma lookup_in : forall k l v, lookup k l = Some v -> In (k, v) l.
  Proof.
    induction l as [|[k' v'] r IH]; simpl; intros v E; [discriminate|].
    destruct (Nat.eqb_spec k k'); [inversion E; subst; auto | right; auto].
  Qed.

  Lemma step_pure : forall x i l sh, instr_ok i = true -> Inv sh ->
    fst (step x i l sh) = pstep x i l /\ Inv (snd (step x i l sh)).
  Proof.
    intros x i [acc ls] sh OK I. unfold C06State.step, C06State.pstep.
    destruct (local_instr classes i) eqn:L; [simpl; auto|].
    destruct i as [f|c|c|c f]; simpl in *.
    - discriminate.
    - (* IRead *) unfold local_instr, is_local in L. simpl in L. pose proof (I c) as Ic.
      destruct (nth_error classes c) as [[]|] eqn:E; try discriminate; simpl.
      + rewrite Ic. auto.
      + rewrite Ic. auto.
      + exfalso. eapply no_mutable; eauto.
    - (* IWrite *) unfold local_instr, is_local in L. simpl in L.
      destruct (nth_error classes c) as [[]|] eqn:E; try discriminate; simpl.
      + split; auto. intro c'. unfold upd. destruct (Nat.eqb_spec c' c); [subst; rewrite E; exact Logic.I | apply I].
      + exfalso. eapply no_mutable; eauto.
    - (* IMemo *) unfold local_instr, is_local in L. simpl in L. pose proof (I c) as Ic.
      destruct (nth_error classes c) as [[]|] eqn:E; try discriminate.
      + apply Nat.eqb_eq in OK. subst g. unfold memo.
        destruct (lookup acc (snd (sh c))) as [v|] eqn:Lk; simpl.
        * rewrite (Ic _ _ (lookup_in _ _ _ Lk)). split; auto.
          intro c'. unfold upd. destruct (Nat.eqb_spec c' c); [subst; rewrite E; exact Ic | apply I].
        * split; auto. intro c'. unfold upd. destruct (Nat.eqb_spec c' c); [subst; rewrite E|apply I].
          simpl. intros k v [X|X]; [inversion X; subst; auto | eauto].
      + exfalso. eapply no_mutable; eauto.
  Qed.

  Lemma exec_pure : forall x p l sh, forallb instr_ok p = true -> Inv sh ->
    fst (exec x p l sh) = pexec x p l /\ Inv (snd (exec x p l sh)).
  Proof.
    induction p as [|i r IH]; intros l sh OK I; simpl; [auto|].
    simpl in OK. apply andb_true_iff in OK. destruct OK as [Oi Or].
    destruct (step_pure x i l sh Oi I) as [A B].
    destruct (step x i l sh) as [l' sh'] eqn:S. simpl in A, B. subst l'. apply IH; auto.
  Qed.

  Hypothesis POK : forall x, forallb instr_ok (prog x) = true.

  Lemma call_pure : forall x sh, Inv sh ->
    fst (call x sh) = pure_out F G Hc classes init prog x /\ Inv (snd (call x sh)).
  Proof.
    intros x sh I. unfold C06State.call, pure_out. simpl.
    destruct (exec_pure x (prog x) (loc0 init) sh (POK x) I) as [A B]. rewrite A. auto.
  Qed.

  Lemma run_inv : forall h sh, Inv sh -> Inv (hrun h sh).
  Proof.
    induction h as [|x r IH]; intros sh I; simpl; auto. apply IH. apply call_pure; auto.
  Qed.

  (* item 1: the output of a call does not depend on the history of the process *)
  Theorem history_independent : forall h1 h2 x,
    fst (call x (hrun h1 store0)) = fst (call x (hrun h2 store0)).
  Proof.
    intros h1 h2 x.
    rewrite (proj1 (call_pure x _ (run_inv h1 _ Inv_store0))).
    rewrite (proj1 (call_pure x _ (run_inv h2 _ Inv_store0))). reflexivity.
  Qed.

  (* ---- schedules ---- *)
  Notation tstep := (tstep F G Hc classes).
  Notation interleave := (interleave F G Hc classes).
  Notation final := (final F G Hc classes init).
  Notation thread_ok := (thread_ok classes).

  Lemma tstep_final : forall th sh, thread_ok th = true -> Inv sh ->
    final (fst (tstep th sh)) = final th /\ thread_ok (fst (tstep th sh)) = true /\ Inv (snd (tstep th sh)).
  Proof.
    intros [x p l] sh OK I. unfold C06State.tstep, C06State.final, C06State.thread_ok in *. simpl in *.
    destruct p as [|i r]; simpl; auto.
    apply andb_true_iff in OK. destruct OK as [Oi Or].
    destruct (step_pure x i l sh Oi I) as [A B].
    destruct (step x i l sh) as [l' sh'] eqn:S. simpl in *. subst l'. auto.
  Qed.

  Lemma map_set_nth : forall (B : Type) (f : thread -> B) ths t th th', nth_error ths t = Some th -> f th' = f th ->
    map f (set_nth ths t th') = map f ths.
  Proof.
    induction ths as [|a r IH]; intros [|t] th th' E Q; simpl in *; try discriminate; auto.
    - inversion E; subst. rewrite Q. reflexivity.
    - f_equal. eapply IH; eauto.
  Qed.

  Lemma forallb_set_nth : forall (f : thread -> bool) ths t th', forallb f ths = true -> f th' = true ->
    forallb f (set_nth ths t th') = true.
  Proof.
    induction ths as [|a r IH]; intros [|t] th' A B; simpl in *; auto;
      apply andb_true_iff in A; destruct A as [A1 A2]; apply andb_true_iff; split; auto.
  Qed.

  Lemma interleave_final : forall sched ths sh, forallb thread_ok ths = true -> Inv sh ->
    map final (fst (interleave sched ths sh)) = map final ths
    /\ Inv (snd (interleave sched ths sh)).
  Proof.
    induction sched as [|t r IH]; intros ths sh OK I; simpl; auto.
    destruct (nth_error ths t) as [th|] eqn:E; [|apply IH; auto].
    assert (Oth : thread_ok th = true) by (rewrite forallb_forall in OK; apply OK; eapply nth_error_In; eauto).
    destruct (tstep_final th sh Oth I) as [A [B C]].
    destruct (tstep th sh) as [th' sh'] eqn:S. simpl in *.
    destruct (IH (set_nth ths t th') sh' (forallb_set_nth _ _ _ _ OK B) C) as [X Y].
    split; auto. rewrite X. eapply map_set_nth; eauto.
  Qed.

  (* item 3: N threads, shared store already used by any history h, ANY schedule: a thread that has run to
     completion holds exactly the output of a single call in a fresh process *)
  Theorem any_schedule : forall (xs h sched : list nat) i th,
    nth_error (fst (interleave sched (map (spawn init prog) xs) (hrun h store0))) i = Some th ->
    t_prog th = [] ->
    exists x, nth_error xs i = Some x /\ fst (t_loc th) = fst (call x store0).
  Proof.
    intros xs h sched i th E Done.
    assert (OK : forallb thread_ok (map (spawn init prog) xs) = true).
    { apply forallb_forall. intros t Ht. apply in_map_iff in Ht. destruct Ht as [x [Q _]]. subst t.
      unfold C06State.thread_ok, spawn. simpl. apply POK. }
    destruct (interleave_final sched _ _ OK (run_inv h _ Inv_store0)) as [A _].
    assert (Q : nth_error (map final (fst (interleave sched (map (spawn init prog) xs) (hrun h store0)))) i = Some (final th))
      by (apply map_nth_error; exact E).
    rewrite A in Q. rewrite map_map in Q.
    destruct (nth_error xs i) as [x|] eqn:Ex.
    - exists x. split; auto. erewrite map_nth_error in Q by eauto. inversion Q as [Q'].
      rewrite (proj1 (call_pure x _ Inv_store0)). unfold pure_out.
      unfold C06State.final in Q'. rewrite Done in Q'. simpl in Q'. unfold spawn in Q'. simpl in Q'. rewrite <- Q'. reflexivity.
    - apply nth_error_None in Ex. assert (nth_error (map (fun x => final (spawn init prog x)) xs) i = None)
        by (apply nth_error_None; rewrite map_length; exact Ex). congruence.
  Qed.

  (* two schedules, two histories: the same thread ends with the same output *)
  Corollary schedules_agree : forall xs h1 h2 s1 s2 i t1 t2,
    nth_error (fst (interleave s1 (map (spawn init prog) xs) (hrun h1 store0))) i = Some t1 -> t_prog t1 = [] ->
    nth_error (fst (interleave s2 (map (spawn init prog) xs) (hrun h2 store0))) i = Some t2 -> t_prog t2 = [] ->
    fst (t_loc t1) = fst (t_loc t2).
  Proof.
    intros xs h1 h2 s1 s2 i t1 t2 E1 D1 E2 D2.
    destruct (any_schedule xs h1 s1 i t1 E1 D1) as [x [X1 Y1]].
    destruct (any_schedule xs h2 s2 i t2 E2 D2) as [x' [X2 Y2]]. congruence.
  Qed.
End Proofs.

(* ---- non-vacuity: a ledger with every discharged class, a program that touches every cell ------------------ *)
Definition exF (f acc x : nat) : nat := (acc * 3 + x + f) mod 17.
Definition exG (g k : nat) : nat := (k * k + g) mod 13.
Definition exHc (acc v : nat) : nat := (acc + 2 * v) mod 19.
Definition ex_classes : list cls := [ImmInit; KeyedDet 7; NotOutput; CallLocal; ExtInput].
Definition ex_init (c : nat) : nat := 10 + c.
Definition ex_prog (x : nat) : list instr :=
  [IPure 1; IRead 0; IMemo 1 7; IWrite 2; IWrite 3; IPure 2; IRead 3; IMemo 3 5; IRead 4; IMemo 1 7].

Lemma ex_ok : forallb discharged ex_classes = true /\ forall x, forallb (instr_ok ex_classes) (ex_prog x) = true.
Proof. split; [reflexivity | intro; reflexivity]. Qed.

Lemma ex_history :
  fst (call exF exG exHc ex_classes ex_init ex_prog 5 (hrun exF exG exHc ex_classes ex_init ex_prog [1; 2; 5; 3] (store0 ex_init)))
  = fst (call exF exG exHc ex_classes ex_init ex_prog 5 (store0 ex_init))
  /\ fst (call exF exG exHc ex_classes ex_init ex_prog 5 (store0 ex_init)) <> fst (call exF exG exHc ex_classes ex_init ex_prog 6 (store0 ex_init)).
Proof. vm_compute. split; [reflexivity | discriminate]. Qed.

(* three threads, a round-robin schedule and a sequential one: all complete, same outputs *)
Definition ex_rr : list nat := concat (repeat [0; 1; 2] 10).
Definition ex_seq : list nat := repeat 2 10 ++ repeat 0 10 ++ repeat 1 10.
Definition outs (r : list thread * store) : list (nat * nat) := map (fun t => (length (t_prog t), fst (t_loc t))) (fst r).
Lemma ex_schedules :
  outs (interleave exF exG exHc ex_classes ex_rr (map (spawn ex_init ex_prog) [5; 6; 5]) (store0 ex_init))
  = outs (interleave exF exG exHc ex_classes ex_seq (map (spawn ex_init ex_prog) [5; 6; 5])
            (hrun exF exG exHc ex_classes ex_init ex_prog [9; 9] (store0 ex_init)))
  /\ map fst (outs (interleave exF exG exHc ex_classes ex_rr (map (spawn ex_init ex_prog) [5; 6; 5]) (store0 ex_init))) = [0; 0; 0].
Proof. vm_compute. split; reflexivity. Qed.

(* ---- the converse: ONE undischarged cell breaks both theorems --------------------------------------------
   C06-14 in miniature: a per-thread counter read at entry and written back (never reset). *)
Definition bad_classes : list cls := [Mutable].
Definition bad_prog (_ : nat) : list instr := [IRead 0; IPure 1; IWrite 0].

Theorem history_dependence_with_mutable_cell :
  exists F G Hc classes init prog h1 h2 x,
    (forall y, forallb (instr_ok classes) (prog y) = true) /\
    forallb discharged classes = false /\
    fst (call F G Hc classes init prog x (hrun F G Hc classes init prog h1 (store0 init)))
    <> fst (call F G Hc classes init prog x (hrun F G Hc classes init prog h2 (store0 init))).
Proof.
  exists exF, exG, exHc, bad_classes, (fun _ => 0), bad_prog, [], [4], 4.
  split; [intro; reflexivity|]. split; [reflexivity|]. vm_compute. discriminate.
Qed.

Theorem schedule_dependence_with_mutable_cell :
  exists F G Hc classes init prog xs s1 s2,
    (forall y, forallb (instr_ok classes) (prog y) = true) /\
    map (fun t => length (t_prog t)) (fst (interleave F G Hc classes s1 (map (spawn init prog) xs) (store0 init))) = [0; 0] /\
    map (fun t => length (t_prog t)) (fst (interleave F G Hc classes s2 (map (spawn init prog) xs) (store0 init))) = [0; 0] /\
    map (fun t => fst (t_loc t)) (fst (interleave F G Hc classes s1 (map (spawn init prog) xs) (store0 init)))
    <> map (fun t => fst (t_loc t)) (fst (interleave F G Hc classes s2 (map (spawn init prog) xs) (store0 init))).
Proof.
  exists exF, exG, exHc, bad_classes, (fun _ => 0), bad_prog, [4; 4], [0; 0; 0; 1; 1; 1], [0; 1; 0; 1; 0; 1].
  split; [intro; reflexivity|]. vm_compute. repeat split; try reflexivity. discriminate.
Qed.

(* ---- sorted order ---------------------------------------------------------------------------------------- *)
Section SortProofs.
  Variable A : Type.
  Variable key : A -> nat.
  Notation sinsert := (sinsert A key).
  Notation ssort := (ssort A key).
  Notation keyfilter := (keyfilter A key).
  Definition ksorted (l : list A) : Prop := StronglySorted (fun a b => key a <= key b) l.

  Lemma sinsert_perm : forall a l, Permutation (a :: l) (sinsert a l).
  Proof.
    induction l as [|b r IH]; simpl; auto. destruct (Nat.leb (key a) (key b)); auto.
    eapply perm_trans; [apply perm_swap|]. auto.
  Qed.
  Lemma ssort_perm : forall l, Permutation l (ssort l).
  Proof. induction l; simpl; auto. eapply perm_trans; [|apply sinsert_perm]. auto. Qed.

  Lemma sinsert_sorted : forall a l, ksorted l -> ksorted (sinsert a l).
  Proof.
    induction l as [|b r IH]; intro S; simpl.
    - constructor; constructor.
    - inversion S as [|? ? Sr Fb]; subst. destruct (Nat.leb_spec (key a) (key b)).
      + constructor; auto. constructor; auto. eapply Forall_impl; [|exact Fb]. simpl. intros; lia.
      + constructor; [apply IH; exact Sr|]. eapply Permutation_Forall; [apply sinsert_perm|]. constructor; [lia | exact Fb].
  Qed.
  Lemma ssort_sorted : forall l, ksorted (ssort l).
  Proof. induction l; simpl; [constructor | apply sinsert_sorted; auto]. Qed.

  (* stability: elements with equal keys keep their source order *)
  Lemma sinsert_filter : forall k a l, ksorted l ->
    keyfilter k (sinsert a l) = keyfilter k (a :: l).
  Proof.
    induction l as [|b r IH]; intro S; simpl; auto.
    inversion S as [|? ? Sr Fb]; subst.
    destruct (Nat.leb_spec (key a) (key b)); simpl; auto.
    unfold C06State.keyfilter in *. simpl in *. rewrite (IH Sr).
    destruct (Nat.eqb_spec (key a) k), (Nat.eqb_spec (key b) k); auto. lia.
  Qed.
  Lemma ssort_stable : forall k l, keyfilter k (ssort l) = keyfilter k l.
  Proof.
    induction l as [|a r IH]; simpl; auto. rewrite sinsert_filter by apply ssort_sorted.
    unfold C06State.keyfilter in *. simpl. rewrite IH. reflexivity.
  Qed.

  Lemma filter_in_key : forall k a l, In a (keyfilter k l) <-> In a l /\ key a = k.
  Proof. intros. unfold C06State.keyfilter. rewrite filter_In. rewrite Nat.eqb_eq. tauto. Qed.

  (* a sorted list is determined by its per-key subsequences: the stable result is THE ONLY stable sorted order *)
  Lemma sorted_determined_by_keyfilters : forall l1 l2, ksorted l1 -> ksorted l2 ->
    (forall k, keyfilter k l1 = keyfilter k l2) -> l1 = l2.
  Proof.
    induction l1 as [|a r1 IH]; intros l2 S1 S2 Q.
    - destruct l2 as [|b r2]; auto. specialize (Q (key b)). unfold C06State.keyfilter in Q. simpl in Q.
      rewrite Nat.eqb_refl in Q. discriminate.
    - destruct l2 as [|b r2].
      + specialize (Q (key a)). unfold C06State.keyfilter in Q. simpl in Q. rewrite Nat.eqb_refl in Q. discriminate.
      + inversion S1 as [|? ? Sr1 Fa]; inversion S2 as [|? ? Sr2 Fb]; subst.
        assert (Kab : key a = key b).
        { assert (In a (b :: r2)) by (apply (filter_in_key (key a)); rewrite <- Q; apply filter_in_key; simpl; auto).
          assert (In b (a :: r1)) by (apply (filter_in_key (key b)); rewrite Q; apply filter_in_key; simpl; auto).
          rewrite Forall_forall in Fa, Fb.
          assert (key b <= key a) by (destruct H as [->|H]; [lia | apply Fb; auto]).
          assert (key a <= key b) by (destruct H0 as [->|H0]; [lia | apply Fa; auto]). lia. }
        pose proof (Q (key a)) as Qa. unfold C06State.keyfilter in Qa. simpl in Qa.
        rewrite <- Kab in Qa. rewrite Nat.eqb_refl in Qa. inversion Qa as [[Eab Qr]]. subst b. f_equal.
        apply IH; auto. intro k. pose proof (Q k) as Qk. unfold C06State.keyfilter in *. simpl in Qk.
        destruct (Nat.eqb (key a) k); [inversion Qk; auto | auto].
  Qed.

  Theorem stable_sort_unique : forall l l', ksorted l' -> (forall k, keyfilter k l' = keyfilter k l) -> l' = ssort l.
  Proof.
    intros l l' S Q. apply sorted_determined_by_keyfilters; auto using ssort_sorted.
    intro k. rewrite Q, ssort_stable. reflexivity.
  Qed.

  (* an UNSTABLE sort (any sorted permutation) is still determined when the keys are pairwise different *)
  Lemma keyfilter_nodup : forall k l, NoDup (map key l) -> forall a, In a l -> key a = k -> keyfilter k l = [a].
  Proof.
    induction l as [|b r IH]; intros ND a Hin Ka; [destruct Hin|].
    inversion ND as [|? ? Nb NDr]; subst. unfold C06State.keyfilter in *. simpl.
    destruct Hin as [->|Hin].
    - rewrite Nat.eqb_refl. f_equal.
      assert (X : forall c, In c r -> Nat.eqb (key c) (key a) = false).
      { intros c Hc. apply Nat.eqb_neq. intro E. apply Nb. rewrite <- E. apply in_map. exact Hc. }
      clear -X. induction r as [|c r IH]; simpl; auto. rewrite X by (simpl; auto). apply IH. intros; apply X; simpl; auto.
    - destruct (Nat.eqb_spec (key b) (key a)) as [E|E].
      + exfalso. apply Nb. rewrite E. apply in_map. exact Hin.
      + apply IH; auto.
  Qed.
  Lemma keyfilter_none : forall k l, (forall a, In a l -> key a <> k) -> keyfilter k l = [].
  Proof.
    induction l as [|b r IH]; intro X; auto. unfold C06State.keyfilter in *. simpl.
    destruct (Nat.eqb_spec (key b) k) as [E|E]; [exfalso; eapply X; simpl; eauto | apply IH; intros; apply X; simpl; auto].
  Qed.

  Theorem unstable_sort_determined_when_keys_distinct : forall l l1 l2, NoDup (map key l) ->
    Permutation l l1 -> ksorted l1 -> Permutation l l2 -> ksorted l2 -> l1 = l2.
  Proof.
    intros l l1 l2 ND P1 S1 P2 S2. apply sorted_determined_by_keyfilters; auto.
    assert (ND1 : NoDup (map key l1)) by (eapply Permutation_NoDup; [apply Permutation_map; exact P1 | exact ND]).
    assert (ND2 : NoDup (map key l2)) by (eapply Permutation_NoDup; [apply Permutation_map; exact P2 | exact ND]).
    intro k. destruct (in_dec Nat.eq_dec k (map key l)) as [I|I].
    - apply in_map_iff in I. destruct I as [a [Ka Ia]].
      rewrite (keyfilter_nodup k l1 ND1 a (Permutation_in _ P1 Ia) Ka).
      rewrite (keyfilter_nodup k l2 ND2 a (Permutation_in _ P2 Ia) Ka). reflexivity.
    - rewrite !keyfilter_none; auto; intros a Ha E; apply I; rewrite <- E; apply in_map;
        [eapply Permutation_in; [apply Permutation_sym; exact P2 | exact Ha]
        |eapply Permutation_in; [apply Permutation_sym; exact P1 | exact Ha]].
  Qed.
End SortProofs.

(* stability matters for the CSS cascade: two rules of equal specificity that set the same property; both orders are
   sorted permutations (what an unstable sort may return), the winning value differs; the stable sort gives the later rule *)
Theorem css_cascade_needs_stable_sort :
  exists rules l1 l2, Permutation rules l1 /\ ksorted _ fst l1 /\ Permutation rules l2 /\ ksorted _ fst l2
    /\ cascade l1 <> cascade l2 /\ css_value rules = Some 22.
Proof.
  exists [(1, 11); (1, 22); (0, 5)], [(0, 5); (1, 11); (1, 22)], [(0, 5); (1, 22); (1, 11)].
  repeat split.
  - apply Permutation_sym. apply Permutation_cons_app with (l1 := [(1, 11); (1, 22)]) (l2 := []). simpl. auto.
  - repeat constructor; simpl; lia.
  - eapply perm_trans; [apply perm_swap|]. apply Permutation_sym.
    apply Permutation_cons_app with (l1 := [(1, 22); (1, 11)]) (l2 := []). simpl. auto.
  - repeat constructor; simpl; lia.
  - vm_compute. discriminate.
Qed.

(* with the stable sort the cascade is a function of (specificity, source order) alone: any stable sorted arrangement
   of the rules gives the same winner *)
Theorem css_cascade_stable_deterministic : forall rules l', ksorted _ fst l' ->
  (forall k, keyfilter _ fst k l' = keyfilter _ fst k rules) -> cascade l' = css_value rules.
Proof. intros rules l' S Q. unfold css_value. rewrite (stable_sort_unique _ fst rules l' S Q). reflexivity. Qed.
