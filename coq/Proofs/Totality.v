(* C01 round 4: lemmas for Model/Totality.v and the loop ledger (HAND-MAINTAINED, one entry per loop of Gen/Totality.v
   `parser_loops`; coq/Gen/Loops.lines.txt shows line numbers and body text).
     LVisited   walk over a reference attribute with a visited list: terminates by `visited_walk_terminates`
     LFinder    `while let Some(id) = find_recursive_*(doc) { remove the attribute }`: Proofs/Links.v run_loop_adequate
                (Props C01_fix_loops_terminate)
     LCounter   counter loop, argued informally - NOT PROVED          LGenId  id generator: `gen_id_terminates` (at most |taken| + 1
     LOwned     walk down an owned (Arc) tree - NOT PROVED                     iterations, the id is not taken)
     LReviewed  read and argued informally - NOT PROVED
   A loop that follows reference attributes (l_links) is accepted only with a proved class. *)
From Coq Require Import QArith Bool List String NArith Arith Lia.
From RV Require Import Model.Base Model.Xq Gen.Sites Gen.Totality Model.Totality.
Import ListNotations.
Local Open Scope Q_scope.

(* ---- (1) guards ---- *)
Lemma approx_zero_mono : forall k k' x, (k <= k')%nat -> x_approx_zero k x = true -> x_approx_zero k' x = true.
Proof.
  intros k k' [q| | |] Hk H; simpl in *; try discriminate.
  apply andb_true_iff in H. destruct H as [H0 H1]. apply andb_true_iff. split; [exact H0|].
  apply Qleb_true in H1. apply Qleb_true. eapply Qle_trans; [exact H1|].
  apply Qmult_le_compat_r; [|unfold F32_MIN_SUB; discriminate].
  rewrite <- Zle_Qle. lia.
Qed.

Lemma atom_le_sound : forall a g x, atom_le a g = true -> atom_holds true a x = true -> atom_holds false g x = true.
Proof.
  intros a g x Hle Ha.
  destruct a, g; simpl in Hle; try discriminate; simpl in *; try exact Ha.
  - apply Nat.leb_le in Hle. eapply approx_zero_mono; eauto.
  - destruct x; simpl in *; try discriminate; reflexivity.
  - destruct x; simpl in *; try discriminate; reflexivity.
  - destruct x; simpl in *; try discriminate; try reflexivity.
    apply Qltb_true in Ha. apply Qleb_true. apply Qlt_le_weak. exact Ha.
Qed.

Lemma guard_covers_sound : forall rejects guard, guard_covers rejects guard = true ->
  forall x, guard_passes guard x = true -> ctor_accepts rejects x = true.
Proof.
  intros rejects guard Hc x Hp. unfold ctor_accepts, guard_passes, rejects_any in *.
  apply negb_true_iff in Hp. apply negb_true_iff.
  destruct (existsb (fun a => atom_holds true a x) rejects) eqn:E; [|reflexivity].
  apply existsb_exists in E. destruct E as (a & Hin & Ha).
  unfold guard_covers in Hc. rewrite forallb_forall in Hc. specialize (Hc a Hin).
  apply existsb_exists in Hc. destruct Hc as (g & Hg & Hle).
  assert (existsb (fun a0 => atom_holds false a0 x) guard = true) as E2.
  { apply existsb_exists. exists g. split; [exact Hg|]. eapply atom_le_sound; eauto. }
  rewrite E2 in Hp. discriminate.
Qed.

(* every NonZeroF32::new(v).unwrap() of the parser is reached only by values the constructor (as it is written in
   tree/mod.rs today) accepts *)
Lemma nonzero_sites_guarded : forallb nonzero_site_guarded parser_sites = true.
Proof. vm_compute. reflexivity. Qed.

Lemma nonzero_unwraps_safe : forall f g t v guard, In (f, g, t, v, guard) G_NONZERO_F32_UNWRAPS ->
  forall x, guard_passes guard x = true -> x_nonzero_f32 x = true.
Proof.
  intros f g t v guard Hin. apply guard_covers_sound.
  assert (forallb (fun u => match u with (_, _, _, _, gd) => guard_covers G_NONZERO_F32_REJECTS gd end) G_NONZERO_F32_UNWRAPS = true) as H
    by (vm_compute; reflexivity).
  rewrite forallb_forall in H. exact (H _ Hin).
Qed.

Local Open Scope string_scope.
(* the ledger entry of the feConvolveMatrix site (Proofs/Ledger.v) *)
Lemma convolve_divisor_guard : forall x,
  guard_passes (guard_of "parser/filter.rs" "convert_convolve_matrix" "divisor: NonZeroF32::new(divisor).unwrap()") x = true ->
  x_nonzero_f32 x = true.
Proof. apply guard_covers_sound. vm_compute. reflexivity. Qed.

(* what the constructor accepts, spelled out (pinned: an edit of NonZeroF32::new must be looked at) *)
Lemma nonzero_f32_iff : forall x, x_nonzero_f32 x = true <-> x_approx_zero 4 x = false.
Proof.
  intro x. unfold x_nonzero_f32, ctor_accepts, rejects_any. change G_NONZERO_F32_REJECTS with [AApproxZero 4]. simpl.
  rewrite orb_false_r. apply negb_true_iff.
Qed.
Local Close Scope string_scope.

(* ---- (2) the visited-set walk ends, whatever the link function does ---- *)
Lemma existsb_eqb_false_notin : forall l chain, existsb (N.eqb l) chain = false -> ~ In l chain.
Proof.
  intros l chain H Hin. assert (existsb (N.eqb l) chain = true) as E.
  { apply existsb_exists. exists l. split; [exact Hin|apply N.eqb_refl]. }
  rewrite E in H. discriminate.
Qed.

Lemma walk_inv : forall next univ start, (forall a b, next a = Some b -> In b univ) ->
  forall fuel seen last, NoDup seen -> incl seen univ -> (length univ < fuel + length seen)%nat ->
  exists r, walk next fuel (seen ++ [start]) last = Some r /\ (length r <= S (length univ))%nat.
Proof.
  intros next univ start Hrange fuel. induction fuel as [|f IH]; intros seen last Hnd Hincl Hlen.
  - pose proof (NoDup_incl_length Hnd Hincl). simpl in Hlen. lia.
  - simpl. pose proof (NoDup_incl_length Hnd Hincl) as Hle.
    destruct (next last) as [l|] eqn:En.
    + destruct (existsb (N.eqb l) (seen ++ [start])) eqn:Ee.
      * eexists. split; [reflexivity|]. rewrite app_length. simpl. lia.
      * apply existsb_eqb_false_notin in Ee.
        change (l :: seen ++ [start]) with ((l :: seen) ++ [start]).
        apply IH.
        -- constructor; [|exact Hnd]. intro Hin. apply Ee. apply in_or_app. left. exact Hin.
        -- intros z [Hz|Hz]; [subst z; eapply Hrange; eauto|apply Hincl; exact Hz].
        -- simpl. lia.
    + eexists. split; [reflexivity|]. rewrite app_length. simpl. lia.
Qed.

Theorem visited_walk_terminates : forall next univ start, (forall a b, next a = Some b -> In b univ) ->
  exists chain, visited_walk next univ start = Some chain /\ (length chain <= S (length univ))%nat.
Proof.
  intros next univ start Hrange. unfold visited_walk.
  apply (walk_inv next univ start Hrange (S (length univ)) [] start); [constructor|intros z []|simpl; lia].
Qed.

(* ... and a walk that only compares with its starting node does not: the rho-shaped chain 0 -> 1 -> 2 -> 3 -> 1 *)
Lemma start_only_rho_aux : forall fuel,
  walk_start_only rho_next fuel 0 1 = None /\ walk_start_only rho_next fuel 0 2 = None /\ walk_start_only rho_next fuel 0 3 = None.
Proof.
  induction fuel as [|f (H1 & H2 & H3)]; [repeat split|]. simpl. repeat split; assumption.
Qed.
Theorem start_only_walk_diverges : forall fuel, walk_start_only rho_next fuel 0 0 = None.
Proof. intros [|f]; [reflexivity|]. simpl. apply start_only_rho_aux. Qed.

(* ---- (3) a cached definition is converted at most once, however often it is requested ---- *)
Lemma memN_false_notin : forall i l, memN i l = false -> ~ In i l.
Proof. intros i l. apply existsb_eqb_false_notin. Qed.

Lemma conversions_bounded : forall (U : list N) reqs cache,
  (forall r, In r reqs -> snd r = true /\ In (fst r) U) -> NoDup cache -> incl cache U ->
  (conversions cache reqs + length cache <= length U)%nat.
Proof.
  intros U reqs. induction reqs as [|[id c] r IH]; intros cache Hall Hnd Hincl.
  - simpl. exact (NoDup_incl_length Hnd Hincl).
  - destruct (Hall (id, c) (or_introl eq_refl)) as [Hc HU]. simpl in Hc, HU. subst c. simpl.
    assert (forall r0, In r0 r -> snd r0 = true /\ In (fst r0) U) as Hall' by (intros r0 H0; apply Hall; right; exact H0).
    destruct (memN id cache) eqn:Em.
    + apply IH; assumption.
    + apply memN_false_notin in Em.
      assert (conversions (id :: cache) r + length (id :: cache) <= length U)%nat as H.
      { apply IH; [exact Hall'|constructor; assumption|]. intros z [Hz|Hz]; [subst z; exact HU|apply Hincl; exact Hz]. }
      simpl in H. lia.
Qed.

Theorem cached_conversions_linear : forall (U : list N) reqs,
  (forall r, In r reqs -> snd r = true /\ In (fst r) U) -> (conversions [] reqs <= length U)%nat.
Proof.
  intros U reqs H. pose proof (conversions_bounded U reqs [] H (NoDup_nil N) (fun z (Hz : In z []) => match Hz with end)) as B.
  simpl in B. lia.
Qed.

(* without the lookup every request is a conversion: the class reference-fan-out-exponential *)
Theorem uncached_conversions_all : forall reqs cache, (forall r, In r reqs -> snd r = false) -> conversions cache reqs = length reqs.
Proof.
  induction reqs as [|[id c] r IH]; intros cache H; [reflexivity|].
  pose proof (H (id, c) (or_introl eq_refl)) as Hc. simpl in Hc. subst c. simpl. f_equal. apply IH. intros r0 H0. apply H. right. exact H0.
Qed.

Local Open Scope string_scope.
(* the lookup sites as they are in the source today: paint servers are looked up unconditionally; clip paths, masks and
   filters under `cacheable`, defined from the units attributes *)
Lemma cache_sites_pinned :
  lookup_unconditional "paint" = true /\
  lookup_under "clip_paths" "cacheable" "cacheable = is_cacheable(node)" = true /\
  lookup_under "masks" "cacheable" "cacheable = is_cacheable(node)" = true /\
  lookup_under "filters" "cacheable" "cacheable = units == Units::UserSpaceOnUse && primitive_units == Units::UserSpaceOnUse" = true /\
  length G_CACHE_LOOKUPS = 4%nat /\
  G_CACHE_INSERTS = [("paint", "convert", "insert"); ("clip_paths", "convert", "insert"); ("masks", "convert", "insert");
                     ("masks", "convert", "insert"); ("filters", "convert_url", "insert")].
Proof. vm_compute. repeat split; reflexivity. Qed.

(* ---- (4) an id generator returns after at most |taken| + 1 iterations with an id that is not taken ---- *)
Lemma filter_len_le : forall (P Q : N -> bool) l, (forall t, Q t = true -> P t = true) ->
  (length (filter Q l) <= length (filter P l))%nat.
Proof.
  intros P Q l H. induction l as [|a l IH]; [simpl; lia|]. simpl.
  destruct (Q a) eqn:Eq; [rewrite (H a Eq); simpl; lia|]. destruct (P a); simpl; lia.
Qed.
Lemma filter_shrink : forall (P Q : N -> bool) l x, In x l -> P x = true -> Q x = false ->
  (forall t, Q t = true -> P t = true) -> (length (filter Q l) < length (filter P l))%nat.
Proof.
  intros P Q l x Hin HP HQ H. induction l as [|a l IH]; [destruct Hin|]. simpl. destruct Hin as [->|Hin].
  - rewrite HP, HQ. simpl. pose proof (filter_len_le P Q l H). lia.
  - specialize (IH Hin). destruct (Q a) eqn:Eq; [rewrite (H a Eq); simpl; lia|]. destruct (P a); simpl; lia.
Qed.

Lemma gen_id_inv : forall taken fuel n, (length (filter (fun t => N.ltb n t) taken) < fuel)%nat ->
  exists r k, gen_id taken fuel n = Some (r, k) /\ ~ In r taken /\ (n < r)%N.
Proof.
  intros taken fuel. induction fuel as [|f IH]; intros n Hlen; [lia|]. simpl.
  destruct (memN (N.succ n) taken) eqn:Em.
  - assert (In (N.succ n) taken) as Hin.
    { unfold memN in Em. apply existsb_exists in Em. destruct Em as (y & Hy & Heq). apply N.eqb_eq in Heq. subst y. exact Hy. }
    assert (length (filter (fun t => N.ltb (N.succ n) t) taken) < length (filter (fun t => N.ltb n t) taken))%nat as Hs.
    { apply (filter_shrink _ _ taken (N.succ n) Hin).
      - apply N.ltb_lt. lia.
      - apply N.ltb_ge. lia.
      - intros t Ht. apply N.ltb_lt in Ht. apply N.ltb_lt. lia. }
    destruct (IH (N.succ n)) as (r & k & H1 & H2 & H3); [lia|]. exists r, k. repeat split; [exact H1|exact H2|lia].
  - exists (N.succ n), (S f). repeat split; [apply memN_false_notin; exact Em|lia].
Qed.

Lemma filter_true_id : forall l : list N, filter (fun _ : N => true) l = l.
Proof. induction l as [|a l IHl]; [reflexivity|]. simpl. rewrite IHl. reflexivity. Qed.

Theorem gen_id_terminates : forall taken n,
  exists r k, gen_id taken (S (length taken)) n = Some (r, k) /\ ~ In r taken /\ (n < r)%N.
Proof.
  intros taken n. apply gen_id_inv.
  pose proof (filter_len_le (fun _ => true) (fun t => N.ltb n t) taken (fun _ _ => eq_refl)) as H.
  rewrite filter_true_id in H. lia.
Qed.

(* ---- loop ledger ---- *)
Definition loop_ledger : list (string * string * string * string * lterm) := [
  ("parser/clippath.rs", "is_cacheable", "while let Some(link) = chain.last().and_then(|n| n.attribute::<SvgNode>(AId::ClipPath))", "647727500cbe", LVisited);
  ("parser/converter.rs", "gen_linear_gradient_id", "loop", "fb80be823c9a", LGenId);
  ("parser/converter.rs", "gen_radial_gradient_id", "loop", "04db28fbe4df", LGenId);
  ("parser/converter.rs", "gen_pattern_id", "loop", "e2b6492a70af", LGenId);
  ("parser/converter.rs", "gen_clip_path_id", "loop", "6dfaf3beaacd", LGenId);
  ("parser/converter.rs", "gen_mask_id", "loop", "64243b562b13", LGenId);
  ("parser/converter.rs", "gen_filter_id", "loop", "2b9af52574b2", LGenId);
  ("parser/converter.rs", "gen_image_id", "loop", "5a959846c852", LGenId);
  ("parser/filter.rs", "gen_result", "loop", "c3be2f65bbdd", LGenId);
  ("parser/marker.rs", "draw_markers", "while i < total", "986c1ed4cf2b", LCounter "`i` is advanced by 1 at the end of every iteration (no `continue`), `total` is fixed");
  ("parser/mask.rs", "is_cacheable", "while let Some(link) = chain.last().and_then(|n| n.attribute::<SvgNode>(AId::Mask))", "647727500cbe", LVisited);
  ("parser/paint_server.rs", "convert_stops", "while i < stops.len() - 2", "8ad9d2a9f43d", LCounter "`i += 1` on every path of the body; a removal shrinks stops.len() instead");
  ("parser/paint_server.rs", "convert_stops", "while i < stops.len() - 1", "d6d9b3ac9468", LCounter "`i += 1` on every path of the body; a removal shrinks stops.len() instead");
  ("parser/paint_server.rs", "convert_stops", "while i < stops.len()", "9f53ebb699c6", LCounter "`i += 1` on every path of the body; a removal shrinks stops.len() instead");
  ("parser/paint_server.rs", "node_to_user_coordinates", "while let Some(m) = mask.and_then(Arc::get_mut)", "3c7813f2ca8d", LOwned);
  ("parser/svgtree/parse.rs", "fix_recursive_patterns", "while let Some(node_id) = find_recursive_pattern(AId::Fill, doc)", "8d3ab3cc360c", LFinder);
  ("parser/svgtree/parse.rs", "fix_recursive_patterns", "while let Some(node_id) = find_recursive_pattern(AId::Stroke, doc)", "3b2d925ba429", LFinder);
  ("parser/svgtree/parse.rs", "fix_recursive_links", "while let Some(node_id) = find_recursive_link(eid, aid, doc)", "8b9467bfb14e", LFinder);
  ("parser/svgtree/text.rs", "trim_text_nodes", "while i < len", "393d77f4ed3d", LCounter "`i += 1` at the end of every iteration, `len` fixed");
  ("tree/mod.rs", "subroots", "while let Some(c) = clip", "19bfd3bc43be", LOwned);
  ("tree/mod.rs", "subroots", "while let Some(m) = mask", "b04d5d856304", LOwned);
  ("tree/mod.rs", "collect_clip_paths", "while let Some(c) = clip", "21d8a56310ed", LOwned);
  ("tree/mod.rs", "collect_masks", "while let Some(m) = mask", "90403164f857", LOwned)
].

Lemma loops_discharged : forallb (loop_discharged_by loop_ledger) parser_loops = true.
Proof. vm_compute. reflexivity. Qed.
Lemma loop_ledger_tight : forallb loop_entry_live loop_ledger = true.
Proof. vm_compute. reflexivity. Qed.

(* ---- recursion ledger (HAND-MAINTAINED; the member lists are in Gen/Totality.v) ---- *)
Local Open Scope string_scope.
Definition rec_ledger : list (string * rterm) := [
  ("f1d7d3acbf04", RGuarded "converter: every cycle either descends to a child of an svgtree node (depth <= DEPTH_LIMIT + 2, C01_build_depth_bounded) or follows a reference attribute, where the pre-pass removed self / 2-cycles (C01_fix_loops_terminate), the in-progress lists parent_defs / parent_markers stop longer cycles (C03 theorems, C01_convert_terminates), use instances are counted against NODES_LIMIT and nested marker instances against the limit of fix 0f46e14"); (* parser/clippath.rs::convert ... *)
  ("58482c074915", RNameClash); (* parser/converter.rs::new *)
  ("88c9411cbc48", RReviewed "load_sub_svg parses a nested SVG image with image loading of the sub-document disabled (its resolvers return None), so the nesting depth is 1; the other members are a name clash (Default::default)"); (* parser/image.rs::default ... *)
  ("4f17e3f9cb92", RNameClash); (* parser/marker.rs::is_valid ... *)
  ("eacb59ad4bb4", RNameClash); (* parser/options.rs::default *)
  ("a719d839b92c", RStructural "walks the converted usvg tree (Group children, pattern / mask / clip roots): owned, finite, acyclic by construction (Arc without back references)"); (* parser/paint_server.rs::node_to_user_coordinates ... *)
  ("dcd5cd03a314", RStructural "recursion over the children of a usvg Group / svgtree node: an owned, finite tree"); (* parser/svgtree/mod.rs::descendants *)
  ("31da94d9a03f", RNameClash); (* parser/svgtree/mod.rs::eq *)
  ("378c31e7410f", RNameClash); (* parser/svgtree/mod.rs::get ... *)
  ("8624618bf31f", RNameClash); (* parser/svgtree/mod.rs::new *)
  ("646af28683f7", RStructural "Debug printing: descends the svgtree"); (* parser/svgtree/mod.rs::print_children *)
  ("f80352ce05d1", RReviewed "resolve_inherit calls Document::append_attribute (a different fn of the same name), which does not call back"); (* parser/svgtree/parse.rs::append_attribute ... *)
  ("3185eeaaa9ce", RNameClash); (* parser/svgtree/parse.rs::parent_element *)
  ("fc969d51b50a", RDepthProved); (* parser/svgtree/parse.rs::parse_svg_use_element ... *)
  ("dacf2f854da0", RNameClash); (* parser/svgtree/parse.rs::prev_sibling_element *)
  ("fc21d90e9773", RStructural "descends the svgtree below a text element: depth <= DEPTH_LIMIT (fix 09fa255)"); (* parser/svgtree/text.rs::collect_text_nodes *)
  ("aff018da9099", RDepthProved); (* parser/svgtree/text.rs::parse_svg_text_element_impl *)
  ("d7fe19289e28", RNameClash); (* tree/mod.rs::abs_bounding_box *)
  ("3f1a0ea96474", RNameClash); (* tree/mod.rs::abs_layer_bounding_box *)
  ("c4de38030094", RNameClash); (* tree/mod.rs::abs_stroke_bounding_box *)
  ("ffd673750ea4", RNameClash); (* tree/mod.rs::abs_transform *)
  ("cebe16feed99", RNameClash); (* tree/mod.rs::bounding_box *)
  ("10268ca17a5f", RNameClash); (* tree/mod.rs::calculate_stroke_bbox ... *)
  ("062be26c3f56", RStructural "recursion over the children of a usvg Group / svgtree node: an owned, finite tree"); (* tree/mod.rs::collect_clip_paths *)
  ("d7b3cac2ca88", RStructural "recursion over the children of a usvg Group / svgtree node: an owned, finite tree"); (* tree/mod.rs::collect_filters *)
  ("98de5a81ad4e", RStructural "recursion over the children of a usvg Group / svgtree node: an owned, finite tree"); (* tree/mod.rs::collect_masks *)
  ("0ea5dbc8bde6", RNameClash); (* tree/mod.rs::default *)
  ("581b4ab6a5f0", RNameClash); (* tree/mod.rs::empty *)
  ("acc7274dc9c3", RStructural "recursion over the children of a usvg Group / svgtree node: an owned, finite tree"); (* tree/mod.rs::has_text_nodes *)
  ("ffb02d0b488b", RStructural "recursion over the children of a usvg Group / svgtree node: an owned, finite tree"); (* tree/mod.rs::loop_over_paint_servers *)
  ("3f996616b63d", RStructural "recursion over the children of a usvg Group / svgtree node: an owned, finite tree"); (* tree/mod.rs::node_by_id *)
  ("d8fcefd695c2", RNameClash); (* tree/mod.rs::stroke_bounding_box *)
  ("03cff86c3b3a", RStructural "recursion over the children of a usvg Group / svgtree node: an owned, finite tree") (* tree/mod.rs::subroots *)
].

Lemma recursions_discharged : forallb (rec_discharged_by rec_ledger) parser_recursions = true.
Proof. vm_compute. reflexivity. Qed.
Lemma rec_ledger_tight : forallb rec_entry_live rec_ledger = true.
Proof. vm_compute. reflexivity. Qed.

(* ---- iterator ledger (HAND-MAINTAINED) ---- *)
Definition iter_ledger : list (string * string * string * iterm) := [
  ("parser/svgtree/mod.rs", "Ancestors", "4c7cf639c194", ITree "next = parent(): the parent id is smaller than the node id (nodes are appended after their parent), the root has none");
  ("parser/svgtree/mod.rs", "Children", "202a98a86ac0", ITree "front moves to next_sibling until it passes back; sibling ids grow");
  ("parser/svgtree/mod.rs", "Traverse", "3532087cbc6e", ITree "Open / Close edges of a depth-first walk over the subtree of the root: 2 x (number of nodes) steps");
  ("parser/svgtree/mod.rs", "Descendants", "4058cad6ad04", ITree "Traverse filtered to Open edges");
  ("parser/svgtree/mod.rs", "HrefIter", "f343e7b01eb6", IHrefProved)
].
Lemma iterators_discharged :
  forallb (iter_discharged_by iter_ledger) parser_iterators = true /\ forallb iter_entry_live iter_ledger = true /\
  parser_unbounded_sources = [].
Proof. vm_compute. repeat split; reflexivity. Qed.
