(* Exhaustive sweep 2 (65 536 byte pairs, exact binary32): demultiply followed by multiply is the
   identity on every valid premultiplied channel (c <= a), with error 0. *)
From RV Require Import Model.F32.
From RV Require Import Gen.PixelTables.
From RV Require Import Model.Pixel.
From RV Require Import Proofs.PixelBase.
Local Open Scope Z_scope.

Lemma roundtrip_sweep_true :
  sweep_let (fun a => (multiply_alpha_a a, demultiply_alpha_a a))
            (fun c a f => (a <? c) || (multiply_alpha_ch (demultiply_alpha_ch c (snd f)) (fst f) =? c)) = true.
Proof. vm_compute. reflexivity. Qed.

Lemma mul_demul_id : forall c a, is_byte c -> is_byte a -> c <= a -> mul_alpha (demul_alpha c a) a = c.
Proof.
  intros c a Hc Ha Hca.
  pose proof (sweep_let_spec _ _ roundtrip_sweep_true c a Hc Ha) as H.
  cbv beta in H. cbn [fst snd] in H. apply orb_true_iff in H. destruct H as [H|H].
  - apply Z.ltb_lt in H. lia.
  - apply Z.eqb_eq in H. unfold mul_alpha, demul_alpha. exact H.
Qed.

Lemma px_roundtrip : forall p, byte_px p -> valid_px p -> px_multiply (px_demultiply p) = p.
Proof.
  intros [r g b a] (Hr & Hg & Hb & Ha) (Vr & Vg & Vb). cbn [pr pg pb pa] in *.
  unfold px_multiply, px_demultiply. cbn [pr pg pb pa].
  pose proof (mul_demul_id r a Hr Ha Vr) as Er.
  pose proof (mul_demul_id g a Hg Ha Vg) as Eg.
  pose proof (mul_demul_id b a Hb Ha Vb) as Eb.
  unfold mul_alpha, demul_alpha in Er, Eg, Eb. rewrite Er, Eg, Eb. reflexivity.
Qed.
