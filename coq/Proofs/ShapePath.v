(* C10: a basic shape is converted into its equivalent path - for every point list / every coordinate.
   All statements are over Gen.ShapePaths (transcribed from shapes.rs on every run). *)
From Coq Require Import Lia.
From RV Require Import Model.Base Model.ShapePath Gen.ShapePaths.
Local Open Scope Q_scope.

(* ---- polyline / polygon ---------------------------------------------------------------------------- *)
Definition sl_of (q : Q * Q) : seg := SL (fst q) (snd q).

(* once the builder holds a Move (no pending move_to_required), every further point appends one LineTo *)
Lemma points_fold_lines : forall rest r lm,
  r <> [] ->
  fold_left points_to_path_step rest {| b_rev := r; b_mtr := false; b_lm := lm |}
  = {| b_rev := rev (map sl_of rest) ++ r; b_mtr := false; b_lm := lm |}.
Proof.
  induction rest as [|p rest IH]; intros r lm Hr; [reflexivity|].
  cbn [fold_left map rev].
  assert (Hs : points_to_path_step {| b_rev := r; b_mtr := false; b_lm := lm |} p
               = {| b_rev := sl_of p :: r; b_mtr := false; b_lm := lm |}).
  { unfold points_to_path_step, pb_is_empty. cbn [b_rev]. destruct r as [|s r']; [congruence|]. reflexivity. }
  rewrite Hs, IH by discriminate. rewrite <- app_assoc. reflexivity.
Qed.

Lemma points_fold : forall p rest,
  fold_left points_to_path_step (p :: rest) pb_new
  = {| b_rev := rev (map sl_of rest) ++ [SM (fst p) (snd p)]; b_mtr := false; b_lm := Some (fst p, snd p) |}.
Proof.
  intros p rest. cbn [fold_left].
  change (points_to_path_step pb_new p) with {| b_rev := [SM (fst p) (snd p)]; b_mtr := false; b_lm := Some (fst p, snd p) |}.
  apply points_fold_lines. discriminate.
Qed.

Lemma points_to_path_some : forall p q rest,
  points_to_path (p :: q :: rest)
  = Some {| b_rev := rev (map sl_of (q :: rest)) ++ [SM (fst p) (snd p)]; b_mtr := false; b_lm := Some (fst p, snd p) |}.
Proof.
  intros. unfold points_to_path. rewrite points_fold. unfold pb_len. cbn [b_rev].
  rewrite app_length, rev_length, map_length. cbn [length POINTS_MIN_LEN].
  replace (S (length rest) + 1)%nat with (S (S (length rest))) by (rewrite Nat.add_comm; reflexivity).
  reflexivity.
Qed.

(* fewer than two points: no element *)
Lemma points_to_path_short : forall pts, (length pts < 2)%nat -> points_to_path pts = None.
Proof.
  intros [|p [|q r]] H; try reflexivity. cbn in H. exfalso.
  apply (Nat.lt_irrefl 2). eapply Nat.le_lt_trans; [|exact H]. do 2 apply le_n_S. apply Nat.le_0_l.
Qed.

Lemma finish_rev_two : forall (l : list seg) a b, pb_finish {| b_rev := l ++ [b; a]; b_mtr := false; b_lm := None |} = Some (a :: b :: rev l).
Proof.
  intros. unfold pb_finish. cbn [b_rev].
  destruct l as [|s [|s' l']]; cbn [app]; try (rewrite ?rev_app_distr; reflexivity).
  change (s :: s' :: l' ++ [b; a]) with ((s :: s' :: l') ++ [b; a]).
  rewrite rev_app_distr. reflexivity.
Qed.

Lemma pb_finish_ge2 : forall r m lm, (2 <= length r)%nat -> pb_finish {| b_rev := r; b_mtr := m; b_lm := lm |} = Some (rev r).
Proof. intros [|a [|b r]] m lm H; cbn in H; try (exfalso; inversion H; fail); try (exfalso; inversion H as [|? H']; inversion H'; fail). reflexivity. Qed.

Lemma close_match : forall l a t, a <> SZ ->
  match rev (map sl_of l) ++ a :: t with [] => [] | SZ :: r => SZ :: r | r => SZ :: r end
  = SZ :: rev (map sl_of l) ++ a :: t.
Proof.
  intros l a t Ha. destruct (rev (map sl_of l)) as [|s0 r0] eqn:E1; cbn [app].
  - destruct a; try reflexivity. congruence.
  - assert (In s0 (rev (map sl_of l))) by (rewrite E1; left; reflexivity).
    apply in_rev, in_map_iff in H as [x [Hx _]]. subst s0. reflexivity.
Qed.

Theorem polyline_segments : forall p q rest,
  convert_polyline (p :: q :: rest) = Some (spec_points_path false (p :: q :: rest)).
Proof.
  intros. unfold convert_polyline. rewrite points_to_path_some.
  rewrite pb_finish_ge2.
  - rewrite rev_app_distr, rev_involutive. cbn [rev app spec_points_path]. rewrite app_nil_r. reflexivity.
  - rewrite app_length, rev_length. cbn [map length]. rewrite Nat.add_comm. cbn. do 2 apply le_n_S. apply Nat.le_0_l.
Qed.

Theorem polygon_segments : forall p q rest,
  convert_polygon (p :: q :: rest) = Some (spec_points_path true (p :: q :: rest)).
Proof.
  intros. unfold convert_polygon. rewrite points_to_path_some.
  cbn [run_script fold_left run_op]. unfold pb_close. cbn [b_rev b_lm map rev].
  rewrite <- app_assoc. cbn [app]. rewrite close_match by discriminate.
  rewrite pb_finish_ge2.
  - cbn [rev]. rewrite rev_app_distr, rev_involutive. cbn [rev app spec_points_path map].
    reflexivity.
  - cbn [length]. apply le_n_S. rewrite app_length. rewrite Nat.add_comm. cbn. apply le_n_S. apply Nat.le_0_l.
Qed.

(* the path element with the definitional path data gives the same segments *)
Lemma convert_path_points : forall closed p q rest,
  convert_path (spec_points_data closed (p :: q :: rest)) = Some (spec_points_path closed (p :: q :: rest)).
Proof.
  intros. unfold convert_path, spec_points_data. cbn [map run_script fold_left run_op path_seg_op].
  change (pb_move_to pb_new (fst p) (snd p)) with {| b_rev := [SM (fst p) (snd p)]; b_mtr := false; b_lm := Some (fst p, snd p) |}.
  rewrite map_app, fold_left_app.
  assert (L : forall l r lm, r <> [] ->
            fold_left run_op (map path_seg_op (map (fun q0 => PLine (fst q0) (snd q0)) l)) {| b_rev := r; b_mtr := false; b_lm := lm |}
            = {| b_rev := rev (map sl_of l) ++ r; b_mtr := false; b_lm := lm |}).
  { induction l as [|a l IH]; intros r lm Hr; [reflexivity|].
    cbn [map fold_left run_op path_seg_op rev].
    change (pb_line_to {| b_rev := r; b_mtr := false; b_lm := lm |} (fst a) (snd a))
      with {| b_rev := sl_of a :: r; b_mtr := false; b_lm := lm |}.
    rewrite IH by discriminate. rewrite <- app_assoc. reflexivity. }
  change (PLine (fst q) (snd q) :: map (fun q0 : Q * Q => PLine (fst q0) (snd q0)) rest)
    with (map (fun q0 : Q * Q => PLine (fst q0) (snd q0)) (q :: rest)).
  rewrite L by discriminate.
  destruct closed; [change (map path_seg_op [PClose]) with [BClose]|change (map path_seg_op []) with (@nil bop)]; cbn [fold_left run_op].
  - unfold pb_close. cbn [b_rev b_lm]. rewrite close_match by discriminate.
    rewrite pb_finish_ge2.
    + cbn [rev]. rewrite rev_app_distr, rev_involutive. reflexivity.
    + cbn [length]; rewrite ?app_length, ?rev_length, ?map_length; cbn [length]; lia.
  - rewrite pb_finish_ge2.
    + rewrite rev_app_distr, rev_involutive. cbn [rev app spec_points_path map]. rewrite app_nil_r. reflexivity.
    + cbn [length]; rewrite ?app_length, ?rev_length, ?map_length; cbn [length]; lia.
Qed.

Theorem polyline_as_path : forall pts, (2 <= length pts)%nat ->
  convert_polyline pts = convert_path (spec_points_data false pts)
  /\ convert_polyline pts = Some (spec_points_path false pts).
Proof.
  intros [|p [|q rest]] H; cbn in H; try (exfalso; inversion H; fail); try (exfalso; inversion H as [|? H']; inversion H'; fail).
  rewrite convert_path_points, polyline_segments. split; reflexivity.
Qed.
Theorem polygon_as_path : forall pts, (2 <= length pts)%nat ->
  convert_polygon pts = convert_path (spec_points_data true pts)
  /\ convert_polygon pts = Some (spec_points_path true pts).
Proof.
  intros [|p [|q rest]] H; cbn in H; try (exfalso; inversion H; fail); try (exfalso; inversion H as [|? H']; inversion H'; fail).
  rewrite convert_path_points, polygon_segments. split; reflexivity.
Qed.
Theorem points_short_none : forall pts, (length pts < 2)%nat -> convert_polyline pts = None /\ convert_polygon pts = None.
Proof. intros pts H. unfold convert_polyline, convert_polygon. rewrite (points_to_path_short pts H). split; reflexivity. Qed.

(* length and order: n points give n segments (+ Close), the i-th segment ends in the i-th point, none is dropped *)
Lemma spec_points_path_length : forall closed pts, pts <> [] ->
  length (spec_points_path closed pts) = (length pts + (if closed then 1 else 0))%nat.
Proof.
  intros closed [|p r] H; [congruence|]. cbn [spec_points_path length]. rewrite app_length, map_length.
  destruct closed; reflexivity.
Qed.
Lemma spec_points_path_nth : forall closed pts i, (i < length pts)%nat ->
  seg_end (nth i (spec_points_path closed pts) SZ) = Some (nth i pts (0, 0)).
Proof.
  intros closed [|p r] i H; [inversion H|]. destruct i as [|i]; cbn [spec_points_path nth seg_end].
  - destruct p; reflexivity.
  - cbn in H. apply Nat.succ_lt_mono in H. rewrite app_nth1 by (rewrite map_length; exact H).
    rewrite (nth_indep _ SZ (SL (fst (0,0)) (snd (0,0)))) by (rewrite map_length; exact H).
    rewrite (map_nth (fun q => SL (fst q) (snd q))). cbn [seg_end]. destruct (nth i r (0,0)); reflexivity.
Qed.

(* ---- line, circle, ellipse, rect --------------------------------------------------------------------- *)
Theorem line_as_path : forall x1 y1 x2 y2,
  convert_line x1 y1 x2 y2 = convert_path [PMove x1 y1; PLine x2 y2]
  /\ convert_line x1 y1 x2 y2 = Some [SM x1 y1; SL x2 y2].
Proof. intros. split; reflexivity. Qed.

Ltac segs := repeat (constructor; try (cbn [seg_eq]; repeat split; ring)).

Theorem ellipse_as_path : forall cx cy rx ry,
  osegs_eq (ellipse_to_path cx cy rx ry) (Some (spec_ellipse_path cx cy rx ry)).
Proof. intros. unfold ellipse_to_path. cbn. segs. Qed.

Theorem convert_ellipse_spec : forall cx cy rx ry,
  (0 < rx /\ 0 < ry -> osegs_eq (convert_ellipse cx cy rx ry) (Some (spec_ellipse_path cx cy rx ry)))
  /\ (~ (0 < rx /\ 0 < ry) -> convert_ellipse cx cy rx ry = None).
Proof.
  intros. unfold convert_ellipse, valid_length. split.
  - intros [Hx Hy]. apply Qltb_true in Hx, Hy. rewrite Hx, Hy. cbn [andb]. apply ellipse_as_path.
  - intros H. destruct (Qltb 0 rx) eqn:Ex; [destruct (Qltb 0 ry) eqn:Ey|]; try reflexivity.
    exfalso. apply H. split; apply Qltb_true; assumption.
Qed.

(* a circle is the ellipse with both radii r *)
Theorem circle_as_ellipse : forall cx cy r,
  (0 < r -> convert_circle cx cy r = convert_ellipse cx cy r r
            /\ osegs_eq (convert_circle cx cy r) (Some (spec_ellipse_path cx cy r r)))
  /\ (~ 0 < r -> convert_circle cx cy r = None).
Proof.
  intros. unfold convert_circle, convert_ellipse, valid_length. split.
  - intros H. apply Qltb_true in H. rewrite H. cbn [andb]. split; [reflexivity|apply ellipse_as_path].
  - intros H. destruct (Qltb 0 r) eqn:E; [|reflexivity]. exfalso. apply H, Qltb_true, E.
Qed.

Theorem rect_path_spec : forall x y w h rx ry,
  (~ rx == 0 -> osegs_eq (rect_path x y w h rx ry) (Some (spec_round_rect_path x y w h rx ry)))
  /\ (rx == 0 -> rect_path x y w h rx ry = convert_path [PMove x y; PLine (x + w) y; PLine (x + w) (y + h); PLine x (y + h); PClose]).
Proof.
  intros. unfold rect_path. split; intros H.
  - destruct (Qeqb rx 0) eqn:E; [apply Qeqb_true in E; contradiction|]. cbn. segs.
  - apply Qeqb_true in H. rewrite H. reflexivity.
Qed.
