(* C06: the source-derived ledger satisfies the allowlists (by computation on Gen/C06Sites.v, which is
   regenerated from /repo on every run), plus the string lemma behind "ids of different kinds differ". *)
From Coq Require Import String Ascii ZArith List Bool Lia.
Import ListNotations.
From RV Require Import Model.HashModel Model.C06State Gen.C06Sites Gen.C06BinSites Model.C06Chk Proofs.C06State.
Local Open Scope string_scope.

Lemma hash_sites_lookup_only : forallb hsite_ok c06_hash_sites = true.
Proof. vm_compute. reflexivity. Qed.
Lemma hash_sites_resolved : forallb hsite_resolved c06_hash_sites = true.
Proof. vm_compute. reflexivity. Qed.
Lemma hash_ctors_empty : forallb ctor_ok c06_hash_ctor_sites = true.
Proof. vm_compute. reflexivity. Qed.

(* In-form: every recorded use of a hash container is an operation of the lookup-only fragment of the
   container model (or a whole-value hand-over to a typed, scanned binding). *)
Lemma hash_site_classified : forall h, In h c06_hash_sites ->
  (exists o, method_op (hs_method h) = Some o /\ lookup_only unit unit o = true)
  \/ (method_op (hs_method h) = None /\ str_in (hs_method h) whole_value_kinds = true).
Proof.
  intros h Hin. pose proof hash_sites_lookup_only as A.
  rewrite forallb_forall in A. specialize (A h Hin). unfold hsite_ok in A.
  destruct (method_op (hs_method h)) as [o|] eqn:E.
  - left. exists o. auto.
  - right. auto.
Qed.

Lemma hash_mentions_accounted : forallb mention_ok c06_hash_mentions = true.
Proof. vm_compute. reflexivity. Qed.

Lemma shared_sites_allowed : forallb ssite_ok c06_shared_sites = true.
Proof. vm_compute. reflexivity. Qed.
Lemma hashers_fixed : forallb hasher_ok c06_hasher_sites = true /\ string_hash_fixed c06_hasher_sites = true.
Proof. split; vm_compute; reflexivity. Qed.
Lemma forbid_unsafe_both : forbid_ok c06_forbid_unsafe = true.
Proof. vm_compute. reflexivity. Qed.
Lemma cache_per_call : cache_per_call_ok = true.
Proof. vm_compute. reflexivity. Qed.
Lemma gen_fns_wf : gen_fns_ok = true.
Proof. vm_compute. reflexivity. Qed.

Lemma bin_ledger : bin_ledger_ok = true.
Proof. vm_compute. reflexivity. Qed.
Lemma scanner_selftest : c06_scanner_selftest = true.
Proof. vm_compute. reflexivity. Qed.

(* round 4: every ledger cell is in a discharged class; the order ledger (sorts in usvg/resvg, simplecss, fontdb) *)
Lemma ledger_discharged : forallb discharged ledger_classes = true.
Proof. vm_compute. reflexivity. Qed.
Lemma ledger_classes_inhabited :
  existsb (fun c => match c with ImmInit => true | _ => false end) ledger_classes = true
  /\ existsb (fun c => match c with CallLocal => true | _ => false end) ledger_classes = true
  /\ existsb (fun c => match c with ExtInput => true | _ => false end) ledger_classes = true
  /\ existsb (fun c => match c with ImmInit => true | _ => false end) (map bin_cell_class c06_bin_shared_sites) = true
  /\ existsb (fun c => match c with NotOutput => true | _ => false end) (map bin_cell_class c06_bin_shared_sites) = true.
Proof. vm_compute. repeat split; reflexivity. Qed.
Lemma bin_ledger_discharged : forallb discharged (map bin_cell_class c06_bin_shared_sites) = true.
Proof. vm_compute. reflexivity. Qed.
Lemma order_ledger : order_ledger_ok = true.
Proof. vm_compute. reflexivity. Qed.

(* the history / schedule theorems instantiated with the ledger of the CURRENT source: whatever the renderer computes
   (F, G, Hc, prog arbitrary), as long as it touches the ledger's cells only in the way their classes permit *)
Lemma ledger_history_independent :
  forall F G Hc init prog, (forall x, forallb (instr_ok ledger_classes) (prog x) = true) ->
  forall h1 h2 x,
    fst (call F G Hc ledger_classes init prog x (hrun F G Hc ledger_classes init prog h1 (store0 init)))
    = fst (call F G Hc ledger_classes init prog x (hrun F G Hc ledger_classes init prog h2 (store0 init))).
Proof. intros F G Hc init prog P. exact (history_independent F G Hc ledger_classes init prog ledger_discharged P). Qed.

Lemma ledger_any_schedule :
  forall F G Hc init prog, (forall x, forallb (instr_ok ledger_classes) (prog x) = true) ->
  forall (xs h sched : list nat) i th,
    nth_error (fst (interleave F G Hc ledger_classes sched (map (spawn init prog) xs)
                      (hrun F G Hc ledger_classes init prog h (store0 init)))) i = Some th ->
    t_prog th = [] ->
    exists x, nth_error xs i = Some x /\ fst (t_loc th) = fst (call F G Hc ledger_classes init prog x (store0 init)).
Proof. intros F G Hc init prog P. exact (any_schedule F G Hc ledger_classes init prog ledger_discharged P). Qed.

(* a program over the REAL ledger that reads every readable cell and writes every writable one is admitted: the
   hypothesis of the two lemmas above is met by a program that touches every cell *)
Definition touch_all : list instr :=
  concat (map (fun c => List.app (if instr_ok ledger_classes (IRead c) then [IRead c] else [])
                                 (if instr_ok ledger_classes (IWrite c) then [IWrite c; IPure c] else []))
              (seq 0 (length ledger_classes))).
Lemma touch_all_ok : forallb (instr_ok ledger_classes) touch_all = true /\ (10 <= length touch_all)%nat.
Proof. vm_compute. split; [reflexivity | lia]. Qed.

(* the scan saw the code: none of the lists the theorems quantify over is empty *)
Lemma ledger_nonempty :
  (40 <= length c06_scanned_files)%nat /\ (10 <= length c06_hash_sites)%nat /\
  (3 <= length c06_hash_ctor_sites)%nat /\ (1 <= length c06_hasher_sites)%nat /\
  (1 <= length c06_gen_id_fns)%nat /\ (1 <= length c06_hash_fields)%nat.
Proof. vm_compute. repeat split; lia. Qed.

(* prefix ++ digits of two gen functions can only coincide when one prefix is a prefix of the other *)
Lemma append_eq_prefix : forall p q d1 d2 : string,
  (p ++ d1 = q ++ d2) -> String.prefix p q = true \/ String.prefix q p = true.
Proof.
  induction p as [|a p IH]; intros q d1 d2 E.
  - left. destruct q; reflexivity.
  - destruct q as [|b q].
    + right. destruct p; reflexivity.
    + simpl in E. inversion E; subst. destruct (IH q d1 d2 H1) as [X|X]; [left|right]; simpl;
        destruct (ascii_dec b b); try congruence.
Qed.

Lemma prefix_free_sound (l : list string) : prefix_free l = true ->
  forall p q, In p l -> In q l -> p <> q -> forall d1 d2, (p ++ d1 <> q ++ d2).
Proof.
  unfold prefix_free. intro PF. rewrite forallb_forall in PF.
  intros p q Hp Hq Hne d1 d2 E.
  pose proof (PF p Hp) as A. rewrite forallb_forall in A. specialize (A q Hq).
  pose proof (PF q Hq) as B. rewrite forallb_forall in B. specialize (B p Hp).
  apply orb_true_iff in A. apply orb_true_iff in B.
  destruct A as [A|A]; [apply String.eqb_eq in A; contradiction|].
  destruct B as [B|B]; [apply String.eqb_eq in B; congruence|].
  apply negb_true_iff in A. apply negb_true_iff in B.
  destruct (append_eq_prefix p q d1 d2 E); congruence.
Qed.

Lemma gen_prefixes_disjoint : forall f g, In f c06_gen_id_fns -> In g c06_gen_id_fns ->
  gf_prefix f <> gf_prefix g -> forall d1 d2, (gf_prefix f ++ d1 <> gf_prefix g ++ d2).
Proof.
  intros f g Hf Hg Hne. apply (prefix_free_sound (map gf_prefix c06_gen_id_fns)).
  - vm_compute. reflexivity.
  - apply in_map. exact Hf.
  - apply in_map. exact Hg.
  - exact Hne.
Qed.
