(* Lemmas about Model/Ids.v: generated names are injective, a generated id is fresh, a run of
   kept/generated ids has no repetition. *)
From RV Require Import Gen.IdTables.
From RV Require Import Model.Ids.
From Coq Require Import NArith List Bool String DecimalString DecimalN Lia FinFun.
Import ListNotations.
Local Open Scope N_scope.

Lemma append_inj_r (p a b : string) : (p ++ a = p ++ b)%string -> a = b.
Proof. induction p as [|c p IH]; simpl; intro H; auto. inversion H. auto. Qed.

Lemma dec_inj i j : dec i = dec j -> i = j.
Proof.
  unfold dec. intro H. apply (f_equal NilEmpty.uint_of_string) in H. rewrite !NilEmpty.usu in H.
  inversion H as [E]. apply (f_equal N.of_uint) in E. rewrite !Unsigned.of_to in E. exact E.
Qed.

Lemma idkind_eqb_eq a b : idkind_eqb a b = true <-> a = b.
Proof. destruct a, b; simpl; split; intro H; try reflexivity; discriminate. Qed.
Lemma idkind_eqb_refl a : idkind_eqb a a = true.
Proof. apply idkind_eqb_eq. reflexivity. Qed.

(* names of different kinds differ (the literal prefixes differ at some position before either ends) *)
Lemma gen_name_kind k k' i i' : gen_name k i = gen_name k' i' -> k = k'.
Proof.
  unfold gen_name. destruct k, k'; intro H; try reflexivity; exfalso; cbn in H; congruence.
Qed.

Lemma gen_name_inj k k' i i' : gen_name k i = gen_name k' i' -> k = k' /\ i = i'.
Proof.
  intro H. pose proof (gen_name_kind _ _ _ _ H) as ->. split; auto.
  unfold gen_name in H. apply append_inj_r in H. apply dec_inj. exact H.
Qed.

Section Hash.
  Variable h : string -> N.

  Lemma mem_hash_true x l : mem_hash x l = true <-> In x l.
  Proof.
    unfold mem_hash. rewrite existsb_exists. split.
    - intros (y & Hy & E). apply N.eqb_eq in E. subst. exact Hy.
    - intro H. exists x. split; auto. apply N.eqb_refl.
  Qed.

  Lemma id_loop_some fuel k hashes idx nm idx' :
    id_loop h fuel k hashes idx = Some (nm, idx') ->
    nm = gen_name k idx' /\ idx < idx' /\ (gen_checks_all_ids k = true -> ~ In (h nm) hashes).
  Proof.
    revert idx. induction fuel as [|f IH]; intros idx H; [discriminate|].
    simpl in H. destruct (gen_checks_all_ids k && mem_hash (h (gen_name k (idx + 1))) hashes) eqn:E.
    - apply IH in H. destruct H as (H1 & H2 & H3). repeat split; auto. lia.
    - inversion H; subst. repeat split; [lia|]. intros Hc Hin. rewrite Hc in E. simpl in E.
      apply mem_hash_true in Hin. congruence.
  Qed.

  (* a generated id is new: not the id of any element that populated all_ids, and of a larger index than
     every id generated before for its kind *)
  Lemma gen_id_fresh k c nm c' :
    gen_id h k c = Some (nm, c') ->
    exists i, nm = gen_name k i /\ c_idx c k < i /\ c_idx c' k = i /\
              (forall k', k' <> k -> c_idx c' k' = c_idx c k') /\ c_hashes c' = c_hashes c /\
              (gen_checks_all_ids k = true -> ~ In (h nm) (c_hashes c)).
  Proof.
    unfold gen_id. destruct (id_loop h _ k (c_hashes c) (c_idx c k)) as [[nm0 i]|] eqn:E; [|discriminate].
    intro H. inversion H; subst. apply id_loop_some in E. destruct E as (E1 & E2 & E3).
    exists i. repeat split; auto.
    - simpl. rewrite idkind_eqb_refl. reflexivity.
    - intros k' Hk. simpl. destruct (idkind_eqb k' k) eqn:Ek; auto. apply idkind_eqb_eq in Ek. contradiction.
  Qed.

  (* the loop ends within |all_ids| + 1 steps when the hash does not collide on the candidate names *)
  Lemma id_loop_none fuel k hashes idx :
    id_loop h fuel k hashes idx = None ->
    forall j, (j < fuel)%nat -> In (h (gen_name k (idx + 1 + N.of_nat j))) hashes.
  Proof.
    revert idx. induction fuel as [|f IH]; intros idx H j Hj; [lia|].
    simpl in H. destruct (gen_checks_all_ids k && mem_hash (h (gen_name k (idx + 1))) hashes) eqn:E; [|discriminate].
    apply andb_true_iff in E. destruct E as [_ E]. destruct j as [|j].
    - rewrite N.add_0_r. apply mem_hash_true. exact E.
    - replace (idx + 1 + N.of_nat (S j)) with (idx + 1 + 1 + N.of_nat j) by lia. apply IH; auto. lia.
  Qed.

  Lemma gen_id_total k c :
    (forall a b, h a = h b -> a = b) -> gen_id h k c <> None.
  Proof.
    intros Hinj H. unfold gen_id in H.
    destruct (id_loop h (S (List.length (c_hashes c))) k (c_hashes c) (c_idx c k)) as [[nm i]|] eqn:E; [discriminate|].
    pose proof (id_loop_none _ _ _ _ E) as Hin.
    set (cands := map (fun j => h (gen_name k (c_idx c k + 1 + N.of_nat j))) (seq 0 (S (List.length (c_hashes c))))).
    assert (Hnd : NoDup cands).
    { unfold cands. apply Injective_map_NoDup; [|apply seq_NoDup].
      intros a b Eab. apply Hinj in Eab. apply gen_name_inj in Eab. lia. }
    assert (Hincl : incl cands (c_hashes c)).
    { intros x Hx. unfold cands in Hx. apply in_map_iff in Hx. destruct Hx as (j & <- & Hj).
      apply in_seq in Hj. apply Hin. lia. }
    pose proof (NoDup_incl_length Hnd Hincl) as L. unfold cands in L.
    rewrite List.map_length, seq_length in L. lia.
  Qed.

  (* ------------------------------------------------------------------------------------------ *)
  Lemma run_unique (A : list string) : forall evs c out,
    c_hashes c = map h A ->
    (forall k, gen_checks_all_ids k = true) ->
    NoDup (kept evs) -> (forall s, In s (kept evs) -> In s A) ->
    run h evs c = Some out ->
    NoDup out /\
    (forall x, In x out -> In x (kept evs) \/ exists k i, x = gen_name k i /\ c_idx c k < i /\ ~ In x A).
  Proof.
    induction evs as [|e r IH]; intros c out Hc Hchk Hnd HA H; simpl in H.
    - inversion H; subst. split; [constructor|intros x []].
    - destruct e as [s|k].
      + destruct (run h r c) as [out'|] eqn:Er; [|discriminate]. inversion H; subst. simpl in Hnd, HA.
        inversion Hnd as [|? ? Hs Hnd']; subst.
        destruct (IH c out' Hc Hchk Hnd' (fun x Hx => HA x (or_intror Hx)) Er) as [I1 I2]. split.
        * constructor; auto. intro Hin. destruct (I2 _ Hin) as [Hk|(k & i & -> & _ & Hn)]; [contradiction|].
          apply Hn. apply HA. left. reflexivity.
        * intros x [<-|Hx]; [left; simpl; auto|]. destruct (I2 _ Hx) as [Hk|Hg]; [left; simpl; auto|right; exact Hg].
      + destruct (gen_id h k c) as [[nm c']|] eqn:Eg; [|discriminate].
        destruct (run h r c') as [out'|] eqn:Er; [|discriminate]. inversion H; subst. simpl in Hnd, HA.
        apply gen_id_fresh in Eg. destruct Eg as (i & -> & Hlt & Hi & Hoth & Hh & Hfresh).
        assert (Hc' : c_hashes c' = map h A) by congruence.
        destruct (IH c' out' Hc' Hchk Hnd HA Er) as [I1 I2].
        assert (HnA : ~ In (gen_name k i) A).
        { intro Hin. apply (Hfresh (Hchk k)). rewrite Hc. apply in_map. exact Hin. }
        split.
        * constructor; auto. intro Hin. destruct (I2 _ Hin) as [Hk|(k2 & i2 & E & Hlt2 & _)].
          -- apply HnA. apply HA. exact Hk.
          -- apply gen_name_inj in E. destruct E as [<- <-]. lia.
        * intros x [<-|Hx].
          -- right. exists k, i. auto.
          -- destruct (I2 _ Hx) as [Hk|(k2 & i2 & E & Hlt2 & Hn2)]; [left; exact Hk|].
             right. exists k2, i2. repeat split; auto.
             destruct (idkind_eqb k2 k) eqn:Ek.
             ++ apply idkind_eqb_eq in Ek. subst k2. lia.
             ++ assert (k2 <> k) by (intro; subst; rewrite idkind_eqb_refl in Ek; discriminate).
                rewrite <- (Hoth k2); auto.
  Qed.

  Lemma populate_all doc tag s : In (tag, s) doc -> s <> ""%string -> In s (populate None doc).
  Proof.
    intros Hin Hs. unfold populate. apply in_map_iff. exists (tag, s). split; auto.
    apply filter_In. split; auto. simpl. rewrite andb_true_r. apply negb_true_iff.
    apply String.eqb_neq. exact Hs.
  Qed.
End Hash.

Section Seq.
  Variable h : string -> N.

  Lemma run_length evs : forall c out, run h evs c = Some out -> List.length out = List.length evs.
  Proof.
    induction evs as [|e r IH]; intros c out H; simpl in H.
    - inversion H; reflexivity.
    - destruct e as [s|k].
      + destruct (run h r c) as [o|] eqn:E; [|discriminate]. inversion H; subst. simpl. f_equal. eapply IH; eauto.
      + destruct (gen_id h k c) as [[nm c']|]; [|discriminate].
        destruct (run h r c') as [o|] eqn:E; [|discriminate]. inversion H; subst. simpl. f_equal. eapply IH; eauto.
  Qed.

  Lemma kept_gens ks : kept (map Gen ks) = [].
  Proof. induction ks; simpl; auto. Qed.

  (* any interleaving of generations of the seven kinds: k calls give k pairwise distinct ids, none of them an id that
     populated all_ids - whatever all_ids and whatever the hash *)
  Lemma gen_sequence_fresh (A : list string) ks c out :
    c_hashes c = map h A -> (forall k, gen_checks_all_ids k = true) ->
    run h (map Gen ks) c = Some out ->
    List.length out = List.length ks /\ NoDup out /\ (forall x, In x out -> ~ In x A).
  Proof.
    intros Hc Hchk H. split; [rewrite (run_length _ _ _ H), List.map_length; reflexivity|].
    destruct (run_unique h A (map Gen ks) c out Hc Hchk) as [H1 H2]; auto.
    - rewrite kept_gens. constructor.
    - rewrite kept_gens. intros s [].
    - split; auto. intros x Hx. destruct (H2 x Hx) as [Hk|(k & i & _ & _ & Hn)]; auto.
      rewrite kept_gens in Hk. destruct Hk.
  Qed.

  Lemma run_total evs : (forall a b, h a = h b -> a = b) -> forall c, run h evs c <> None.
  Proof.
    intros Hinj. induction evs as [|e r IH]; intro c; simpl; [discriminate|].
    destruct e as [s|k].
    - specialize (IH c). destruct (run h r c); [discriminate|contradiction].
    - destruct (gen_id h k c) as [[nm c']|] eqn:E; [|exfalso; exact (gen_id_total h k c Hinj E)].
      specialize (IH c'). destruct (run h r c'); [discriminate|contradiction].
  Qed.
End Seq.
