(* More exact identities (extension round 4, second pass): feColorMatrix saturate(1) and hueRotate(0) - the source-derived
   coefficient expressions evaluate in binary32 to exactly the identity rows, and the rows then return every byte. *)
From Flocq Require Import Core BinarySingleNaN.
From RV Require Import Model.F32.
From RV Require Import Gen.PixelTables.
From RV Require Import Model.Pixel.
From RV Require Import Proofs.PixelBase.
From RV Require Import Proofs.PixelRoundtrip.
From RV Require Import Proofs.PixelIdentity.
Local Open Scope Z_scope.

Definition idm3 : list f32 := [f1; fzero; fzero; fzero; f1; fzero; fzero; fzero; f1].

Ltac float_eq := apply B2SF_inj; vm_compute; reflexivity.
Lemma cons_eq : forall (a b : f32) l l', a = b -> l = l' -> a :: l = b :: l'.
Proof. intros; subst; reflexivity. Qed.

(* the nine coefficient expressions of the Saturate arm at v = 1 (after `.max(0.0)`) are exactly 1 0 0 / 0 1 0 / 0 0 1 *)
Lemma saturate1_coefs : cm_saturate_coefs (fmax0 f1) = idm3.
Proof. unfold cm_saturate_coefs, idm3. repeat (apply cons_eq; [float_eq|]). reflexivity. Qed.
(* the nine coefficient expressions of the HueRotate arm at cos = 1, sin = 0 likewise *)
Lemma hue0_coefs : cm_hue_coefs f1 fzero = idm3.
Proof. unfold cm_hue_coefs, idm3. repeat (apply cons_eq; [float_eq|]). reflexivity. Qed.

Ltac kill3 Hr Hg Hb :=
  unfold idm3; cbn [nth];
  rewrite ?(proj1 (norm_times_zero _ Hr)), ?(proj1 (norm_times_zero _ Hg)), ?(proj1 (norm_times_zero _ Hb)),
          ?(proj1 (norm_times_zero _ zero_byte)).

Ltac row_id F r Hr Hg Hb :=
  let H := fresh in let E := fresh in
  assert (H : forallb F bytes = true) by (vm_compute; reflexivity);
  pose proof (sweep1 _ H r Hr) as E; cbv beta in E; apply Z.eqb_eq in E; rewrite <- E at 2; clear H E;
  f_equal.

Lemma sat_rows_id : forall r g b a, is_byte r -> is_byte g -> is_byte b ->
  cm_from_normalized (cm_saturate_r idm3 (cm_to_normalized r) (cm_to_normalized g) (cm_to_normalized b) a) = r /\
  cm_from_normalized (cm_saturate_g idm3 (cm_to_normalized r) (cm_to_normalized g) (cm_to_normalized b) a) = g /\
  cm_from_normalized (cm_saturate_b idm3 (cm_to_normalized r) (cm_to_normalized g) (cm_to_normalized b) a) = b.
Proof.
  intros r g b a Hr Hg Hb. repeat split.
  - row_id (fun c => cm_from_normalized (cm_saturate_r idm3 (cm_to_normalized c) N0 N0 N0) =? c) r Hr Hg Hb.
    unfold cm_saturate_r, N0. kill3 Hr Hg Hb. reflexivity.
  - row_id (fun c => cm_from_normalized (cm_saturate_g idm3 N0 (cm_to_normalized c) N0 N0) =? c) g Hg Hr Hb.
    unfold cm_saturate_g, N0. kill3 Hr Hg Hb. reflexivity.
  - row_id (fun c => cm_from_normalized (cm_saturate_b idm3 N0 N0 (cm_to_normalized c) N0) =? c) b Hb Hr Hg.
    unfold cm_saturate_b, N0. kill3 Hr Hg Hb. reflexivity.
Qed.
Lemma hue_rows_id : forall r g b a, is_byte r -> is_byte g -> is_byte b ->
  cm_from_normalized (cm_hue_r idm3 (cm_to_normalized r) (cm_to_normalized g) (cm_to_normalized b) a) = r /\
  cm_from_normalized (cm_hue_g idm3 (cm_to_normalized r) (cm_to_normalized g) (cm_to_normalized b) a) = g /\
  cm_from_normalized (cm_hue_b idm3 (cm_to_normalized r) (cm_to_normalized g) (cm_to_normalized b) a) = b.
Proof.
  intros r g b a Hr Hg Hb. repeat split.
  - row_id (fun c => cm_from_normalized (cm_hue_r idm3 (cm_to_normalized c) N0 N0 N0) =? c) r Hr Hg Hb.
    unfold cm_hue_r, N0. kill3 Hr Hg Hb. reflexivity.
  - row_id (fun c => cm_from_normalized (cm_hue_g idm3 N0 (cm_to_normalized c) N0 N0) =? c) g Hg Hr Hb.
    unfold cm_hue_g, N0. kill3 Hr Hg Hb. reflexivity.
  - row_id (fun c => cm_from_normalized (cm_hue_b idm3 N0 N0 (cm_to_normalized c) N0) =? c) b Hb Hr Hg.
    unfold cm_hue_b, N0. kill3 Hr Hg Hb. reflexivity.
Qed.

Lemma cm_kernel_saturate1 : forall q, byte_px q -> cm_kernel (CMSaturate f1) q = q.
Proof.
  intros [r g b a] (Hr & Hg & Hb & Ha). cbn [pr pg pb pa] in *. unfold cm_kernel. cbn [pr pg pb pa].
  rewrite saturate1_coefs. destruct (sat_rows_id r g b (cm_to_normalized a) Hr Hg Hb) as (E1 & E2 & E3).
  rewrite E1, E2, E3. reflexivity.
Qed.
Lemma cm_kernel_hue0 : forall q, byte_px q -> cm_kernel (CMHueRotate f1 fzero) q = q.
Proof.
  intros [r g b a] (Hr & Hg & Hb & Ha). cbn [pr pg pb pa] in *. unfold cm_kernel. cbn [pr pg pb pa].
  rewrite hue0_coefs. destruct (hue_rows_id r g b (cm_to_normalized a) Hr Hg Hb) as (E1 & E2 & E3).
  rewrite E1, E2, E3. reflexivity.
Qed.

Lemma cm_id_lift : forall k, (forall q, byte_px q -> cm_kernel k q = q) ->
  forall p, byte_px p -> valid_px p -> px_color_matrix k p = p.
Proof.
  intros k Hk p Hp Hv. unfold px_color_matrix, apply_color_matrix_steps, run_steps. cbn [fold_left run_step].
  rewrite Hk by (apply px_demultiply_byte, Hp). apply px_roundtrip; assumption.
Qed.
Lemma color_matrix_saturate1 : forall p, byte_px p -> valid_px p -> px_color_matrix (CMSaturate f1) p = p.
Proof. apply cm_id_lift, cm_kernel_saturate1. Qed.
Lemma color_matrix_hue0 : forall p, byte_px p -> valid_px p -> px_color_matrix (CMHueRotate f1 fzero) p = p.
Proof. apply cm_id_lift, cm_kernel_hue0. Qed.
