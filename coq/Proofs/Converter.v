(* C11 lemmas: the converter skeleton of Model/Converter.v over the source-derived tables of Gen/ConvTables.v.
   All statements quantify over every instantiation of the abstract leaf converters. *)
From Coq Require Import String.
From RV Require Import Model.Base Model.ConvBase Gen.ConvTables Model.Converter.

Lemma nodes_rect_simple (P : nodes -> Prop) : P NNil -> (forall x r, P r -> P (NCons x r)) -> forall l, P l.
Proof. intros H0 H1. fix IH 1. destruct l; [exact H0 | apply H1, IH]. Qed.

(* n' is n with ignorable nodes inserted into child lists, anywhere and at any depth, except directly
   under `switch`, inside `text`, and at the root of the shadow tree of `use` (svgtree builds that list
   itself: exactly one child). *)
Inductive ins : node -> node -> Prop :=
  | ins_same n : ins n n
  | ins_intro tg a ch ch' : tg <> Some T_Text -> ins_list (allows_insertion tg) ch ch' -> ins (Node tg a ch) (Node tg a ch')
with ins_list : bool -> nodes -> nodes -> Prop :=
  | il_nil b : ins_list b NNil NNil
  | il_cons b x x' l l' : ins x x' -> ins_list b l l' -> ins_list b (NCons x l) (NCons x' l')
  | il_junk j l l' : ignorable j = true -> ins_list true l l' -> ins_list true l (NCons j l').
Scheme ins_mut := Minimality for ins Sort Prop
  with ins_list_mut := Minimality for ins_list Sort Prop.
Combined Scheme ins_both from ins_mut, ins_list_mut.

Section P.
  Variable state : Type.
  Variable st_in_clip : state -> bool.
  Variable st_no_markers : state -> bool.
  Variable conv_path : tag -> attrs -> conv_t state.
  Variable conv_image : attrs -> conv_t state.
  Variable conv_text : node -> conv_t state.
  Variable conv_use : attrs -> option (option tag * attrs) -> conv_t state -> conv_t state -> conv_t state.
  Variable conv_nested_svg : attrs -> conv_t state -> conv_t state.
  Variable obj_bbox : ogroup -> option qrect.
  Variable res_clip : string -> state -> option qrect -> cache -> option string * cache.
  Variable res_mask : string -> state -> option qrect -> cache -> option string * cache.
  Variable res_filter : attrs -> state -> option qrect -> cache -> option (list string) * cache.
  Local Notation CE := (conv_elem state st_in_clip st_no_markers conv_path conv_image conv_text conv_use
                          conv_nested_svg obj_bbox res_clip res_mask res_filter).
  Local Notation CC := (conv_children state st_in_clip st_no_markers conv_path conv_image conv_text conv_use
                          conv_nested_svg obj_bbox res_clip res_mask res_filter).
  Local Notation CF := (conv_first_passing state st_in_clip st_no_markers conv_path conv_image conv_text conv_use
                          conv_nested_svg obj_bbox res_clip res_mask res_filter).
  Local Notation EB := (elem_body state st_in_clip st_no_markers conv_path conv_image conv_text conv_use
                          conv_nested_svg obj_bbox res_clip res_mask res_filter).
  Local Notation CG := (convert_group state st_in_clip st_no_markers obj_bbox res_clip res_mask res_filter).

  Lemma conv_elem_eq n top clip st c p : CE n top clip st c p = EB CC CF n top clip st c p.
  Proof. destruct n; reflexivity. Qed.

  Lemma conv_children_cons x r top clip st c p :
    CC (NCons x r) top clip st c p = let '(c1, p1) := CE x top clip st c p in CC r top clip st c1 p1.
  Proof. reflexivity. Qed.
  Lemma conv_children_nil top clip st c p : CC NNil top clip st c p = (c, p).
  Proof. reflexivity. Qed.
  Lemma conv_first_cons x r st c p :
    CF (NCons x r) st c p = if cond_passed (node_tag x) (node_attrs x) then CE x false false st c p else CF r st c p.
  Proof. reflexivity. Qed.

  Lemma text_noop a ch top clip st c p : CE (Node None a ch) top clip st c p = (c, p).
  Proof. rewrite conv_elem_eq. destruct clip; reflexivity. Qed.

  Lemma nongraphic_noop t a ch top clip st c p :
    tag_in t graphic_tags = false -> tag_in t structural_tags = false ->
    CE (Node (Some t) a ch) top clip st c p = (c, p).
  Proof.
    intros H1 H2. rewrite conv_elem_eq. unfold elem_body.
    destruct clip; cbn [first_exit elem_dispatch clip_dispatch]; rewrite H1, ?H2; reflexivity.
  Qed.

  Lemma invisible_noop t a ch top clip st c p :
    is_visible (Some t) a = false -> CE (Node (Some t) a ch) top clip st c p = (c, p).
  Proof.
    intros H1. rewrite conv_elem_eq. unfold elem_body.
    destruct clip; cbn [first_exit elem_dispatch clip_dispatch]; rewrite H1;
    match goal with |- context [if ?b then Some (c, p) else None] => destruct b end; reflexivity.
  Qed.

  Lemma shape_tags_graphic t : tag_in t impl_shape_tags = true ->
    tag_in t graphic_tags = true /\ is_g_or_use (Some t) = false /\ t <> T_Use /\ t <> T_Switch.
  Proof. destruct t; cbv; intuition discriminate. Qed.

  Lemma empty_shape_group t a st p c collect :
    tag_in t impl_shape_tags = true -> has_filter_attr a = false ->
    (forall c' g', collect c' g' = (c', g')) ->
    CG (Some t) a st false p c collect = (c, p, None).
  Proof.
    intros Ht Hf Hc. destruct (shape_tags_graphic t Ht) as (_ & Hg & _).
    unfold convert_group. rewrite Hc. cbn [group_run group_steps group_step_run].
    unfold is_empty. cbn [forallb empty_terms eval_empty ge_g og_ch]. rewrite Hg, Hf. reflexivity.
  Qed.

  Lemma zero_shape_noop t a ch top clip st c p :
    tag_in t impl_shape_tags = true -> shape_valid t a = false -> has_filter_attr a = false ->
    CE (Node (Some t) a ch) top clip st c p = (c, p).
  Proof.
    intros Ht Hv Hf. destruct (shape_tags_graphic t Ht) as (Hg & _ & Hu & Hs).
    destruct (is_visible (Some t) a) eqn:Hvis; [|apply invisible_noop; exact Hvis].
    rewrite conv_elem_eq. unfold elem_body.
    destruct clip; cbn [first_exit elem_dispatch clip_dispatch]; rewrite Hg, Hvis; cbn [negb andb];
    destruct t; try discriminate Ht;
    (rewrite empty_shape_group; [reflexivity | reflexivity | exact Hf |
      intros; cbv [tag_in existsb clip_shape_tags impl_shape_tags tag_eqb tag_idx N.eqb Pos.eqb orb]; rewrite ?Hv; reflexivity]).
  Qed.

  Lemma is_visible_false_of t a :
    a_display_none a = true \/ a_ts_valid a = false \/ a_req_ext a = true \/ a_features_known a = false \/ a_syslang_ok a = false ->
    is_visible (Some t) a = false.
  Proof.
    cbv [is_visible cond_passed forallb visible_tests eval_vis existsb condition_fail_tests eval_cond_fail].
    intros H.
    destruct (a_display_none a), (a_ts_valid a), (a_req_ext a), (a_features_known a), (a_syslang_ok a);
      cbn; try reflexivity; exfalso; intuition discriminate.
  Qed.

  Theorem ignorable_is_noop n top clip st c p :
    ignorable n = true -> CE n top clip st c p = (c, p).
  Proof.
    destruct n as [[t|] a ch]; [|intros _; apply text_noop].
    unfold ignorable. intros H.
    repeat (apply orb_prop in H; destruct H as [H|H]).
    - apply andb_prop in H. destruct H as [H1 H2]. apply negb_true_iff in H1, H2. apply nongraphic_noop; assumption.
    - apply invisible_noop, is_visible_false_of. auto.
    - apply negb_true_iff in H. apply invisible_noop, is_visible_false_of. auto.
    - apply invisible_noop, is_visible_false_of. auto.
    - apply negb_true_iff in H. apply invisible_noop, is_visible_false_of. auto 6.
    - apply negb_true_iff in H. apply invisible_noop, is_visible_false_of. auto 6.
    - apply andb_prop in H. destruct H as [H H3]. apply andb_prop in H. destruct H as [H1 H2].
      apply negb_true_iff in H2, H3. apply zero_shape_noop; assumption.
  Qed.

  Lemma junk_prefix junk l top clip st c p :
    all_ignorable junk = true -> CC (napp junk l) top clip st c p = CC l top clip st c p.
  Proof.
    induction junk as [|j r IH] using nodes_rect_simple; intros H.
    - reflexivity.
    - cbn in H. apply andb_prop in H. destruct H as [Hj Hr].
      cbn [napp]. rewrite conv_children_cons, (ignorable_is_noop j top clip st c p Hj). apply IH, Hr.
  Qed.

  Theorem context_free l1 junk l2 top clip st c p :
    all_ignorable junk = true ->
    CC (napp l1 (napp junk l2)) top clip st c p = CC (napp l1 l2) top clip st c p.
  Proof.
    revert c p. induction l1 as [|x r IH] using nodes_rect_simple; intros c p H.
    - cbn [napp]. apply junk_prefix, H.
    - cbn [napp]. rewrite !conv_children_cons. destruct (CE x top clip st c p) as [c1 p1]. apply IH, H.
  Qed.

  (* The abstract `use` / nested `svg` converters only CALL the conversions of the children they are given
     (Rust closures cannot be inspected): extensionally equal callbacks give equal results. *)
  Definition callbacks_ext : Prop :=
    (forall a fc f f' g g' st c p,
       (forall st c p, f st c p = f' st c p) -> (forall st c p, g st c p = g' st c p) ->
       conv_use a fc f g st c p = conv_use a fc f' g' st c p) /\
    (forall a f f' st c p, (forall st c p, f st c p = f' st c p) -> conv_nested_svg a f st c p = conv_nested_svg a f' st c p).

  Lemma first_exit_ext {S R} (l : list S) (f g : S -> option R) d :
    (forall s, f s = g s) -> first_exit l f d = first_exit l g d.
  Proof. intros H. induction l as [|x r IH]; cbn; [reflexivity|]. rewrite H, IH. reflexivity. Qed.

  Lemma convert_group_ext tg a st force p c collect collect' :
    (forall c' g', collect c' g' = collect' c' g') ->
    CG tg a st force p c collect = CG tg a st force p c collect'.
  Proof. intros H. unfold convert_group. rewrite H. reflexivity. Qed.

  (* what the induction carries for a pair of related nodes / lists *)
  Definition same_cc (l l' : nodes) : Prop := forall top clip st c p, CC l' top clip st c p = CC l top clip st c p.
  Definition same_elem (n n' : node) : Prop :=
    node_tag n' = node_tag n /\ node_attrs n' = node_attrs n /\
    same_cc (node_children n) (node_children n') /\
    (forall top clip st c p, CE n' top clip st c p = CE n top clip st c p).
  Definition grand_same (l l' : nodes) : Prop :=
    match l, l' with
    | NNil, NNil => True
    | NCons x _, NCons x' _ => same_cc (node_children x) (node_children x')
    | _, _ => False
    end.
  Definition same_list (b : bool) (l l' : nodes) : Prop :=
    same_cc l l' /\
    (b = false -> (forall st c p, CF l' st c p = CF l st c p) /\ has_passing l' = has_passing l /\
                  first_child_info l' = first_child_info l /\ grand_same l l').

  Lemma same_elem_refl n : same_elem n n.
  Proof. repeat split. Qed.

  (* A zero-size / invalid shape that carries a `filter` attribute - with any clip-path / mask link (dd154cd): convert_group
     resolves the filters of an element without content FIRST; when that leaves the cache alone and yields nothing for an
     element without a bounding box (filter_facts, cut from filter.rs, for filter functions; Err for missing links), the
     element is dropped before its clip-path / mask are looked at: no group, no counter moved, no cache entry. *)
  Lemma og_append_nil g : og_append g [] = g.
  Proof. destruct g. unfold og_append. cbn. rewrite app_nil_r. reflexivity. Qed.

  Definition filter_inert (a : attrs) : Prop :=
    forall st c', snd (res_filter a st None c') = c' /\
                  (fst (res_filter a st None c') = None \/ fst (res_filter a st None c') = Some []).
  Definition empty_has_no_bbox : Prop := forall g, og_ch g = [] -> obj_bbox g = None.

  Lemma empty_shape_group_filter t a st p c collect :
    tag_in t impl_shape_tags = true -> empty_has_no_bbox -> filter_inert a ->
    (forall c' g', collect c' g' = (c', g')) ->
    push_group (CG (Some t) a st false p c collect) = (c, p).
  Proof.
    intros Ht Hbb Hflt Hcol. destruct (shape_tags_graphic t Ht) as (_ & Hg & _).
    unfold convert_group. rewrite Hcol.
    cbn [group_run group_steps group_step_run].
    unfold is_empty. cbn [forallb empty_terms eval_empty ge_g og_ch ge_cache ge_bbox ge_filters ge_clip ge_mask ge_pre]. rewrite Hg.
    cbn [negb andb].
    destruct (has_filter_attr a) eqn:Hf; cbn [negb andb]; [|reflexivity].
    rewrite Hbb by reflexivity. unfold group_filters. cbn [ge_cache ge_bbox].
    destruct (st_in_clip st); [reflexivity|].
    destruct (a_filter a); try reflexivity.
    destruct (Hflt st c) as [H1 H2]. destruct (res_filter a st None c) as [r c']. cbn in H1, H2. subst c'.
    destruct H2 as [-> | ->]; reflexivity.
  Qed.

  Theorem zero_shape_filter_noop t a ch top clip st c p :
    tag_in t impl_shape_tags = true -> shape_valid t a = false -> empty_has_no_bbox -> filter_inert a ->
    CE (Node (Some t) a ch) top clip st c p = (c, p).
  Proof.
    intros Ht Hv Hbb Hflt. destruct (shape_tags_graphic t Ht) as (Hg & _ & Hu & Hs).
    destruct (is_visible (Some t) a) eqn:Hvis; [|apply invisible_noop; exact Hvis].
    rewrite conv_elem_eq. unfold elem_body.
    destruct clip; cbn [first_exit elem_dispatch clip_dispatch]; rewrite Hg, Hvis; cbn [negb andb];
    destruct t; try discriminate Ht;
    (apply empty_shape_group_filter; [reflexivity | exact Hbb | exact Hflt |
      intros; cbv [tag_in existsb clip_shape_tags impl_shape_tags tag_eqb tag_idx N.eqb Pos.eqb orb]; rewrite ?Hv; reflexivity]).
  Qed.

  Lemma filter_facts_lock : filter_facts = [FF_NoBBoxReturnsEarly; FF_GenIdAfterRegionCheck].
  Proof. reflexivity. Qed.

  Hypothesis Hext : callbacks_ext.

  Lemma elem_body_congr tg a ch ch' :
    tg <> Some T_Text -> same_list (allows_insertion tg) ch ch' ->
    forall top clip st c p, CE (Node tg a ch') top clip st c p = CE (Node tg a ch) top clip st c p.
  Proof.
    intros Ht [Hc Hs] top clip st c p. destruct Hext as [Huse Hsvg].
    rewrite !conv_elem_eq. unfold elem_body.
    destruct tg as [t|]; [|reflexivity].
    apply first_exit_ext. intros s. destruct s; try reflexivity.
    - (* use *)
      destruct t; try reflexivity.
      destruct (Hs eq_refl) as (_ & _ & Hi & Hg). rewrite Hi. f_equal.
      apply Huse; [intros; apply Hc|].
      destruct ch as [|[? ? g] ?], ch' as [|[? ? g'] ?]; cbn in Hg; try contradiction; [reflexivity|].
      intros; apply Hg.
    - (* switch *)
      destruct t; try reflexivity.
      destruct (Hs eq_refl) as (Hf & Hp & _ & _). rewrite Hp.
      destruct (has_passing ch); [|reflexivity]. f_equal. f_equal. apply convert_group_ext. intros; apply Hf.
    - (* group conversion: the children are only reached through conv_children *)
      f_equal. f_equal. apply convert_group_ext. intros c' g'.
      destruct (tag_in t (if clip then clip_shape_tags else impl_shape_tags)); [reflexivity|].
      destruct t; try reflexivity.
      + exfalso; apply Ht; reflexivity.
      + destruct clip; [reflexivity|]. apply Hc.
      + destruct clip; [reflexivity|]. destruct top; [apply Hc|]. apply Hsvg. intros; apply Hc.
  Qed.

  Lemma lift_both :
    (forall n n', ins n n' -> same_elem n n') /\
    (forall b l l', ins_list b l l' -> same_list b l l').
  Proof.
    apply ins_both.
    - intros n. apply same_elem_refl.
    - intros tg a ch ch' Ht _ IH. unfold same_elem. cbn [node_tag node_attrs node_children].
      repeat split; [apply IH | apply elem_body_congr; assumption].
    - intros b. repeat split.
    - intros b x x' l l' _ (Ht & Ha & Hg & He) _ (Hc & Hs). split.
      + intros top clip st c p. rewrite !conv_children_cons, He. destruct (CE x top clip st c p). apply Hc.
      + intros Hb. destruct (Hs Hb) as (Hf & Hp & _ & _). repeat split.
        * intros st c p. rewrite !conv_first_cons, Ht, Ha, He, Hf. reflexivity.
        * cbn [has_passing]. rewrite Ht, Ha, Hp. reflexivity.
        * cbn [first_child_info]. rewrite Ht, Ha. reflexivity.
        * exact Hg.
    - intros j l l' Hj _ (Hc & _). split; [|discriminate].
      intros top clip st c p. rewrite conv_children_cons, (ignorable_is_noop j _ _ _ _ _ Hj). apply Hc.
  Qed.

  Theorem context_free_tree n n' top clip st c p : ins n n' -> CE n' top clip st c p = CE n top clip st c p.
  Proof. intros H. destruct (proj1 lift_both n n' H) as (_ & _ & _ & He). apply He. Qed.

  Theorem context_free_forest l l' top clip st c p : ins_list true l l' -> CC l' top clip st c p = CC l top clip st c p.
  Proof. intros H. destruct (proj2 lift_both true l l' H) as (Hc & _). apply Hc. Qed.
End P.

(* ------------------------------------------------------------------ id pre-scan and generated ids *)
Definition reserved (s : string) : bool := String.prefix "vf_" s.

Lemma str_in_app s a b : str_in s (a ++ b) = str_in s a || str_in s b.
Proof. induction a as [|x r IH]; cbn; [reflexivity|]. destruct (String.eqb s x); [reflexivity | exact IH]. Qed.

Lemma str_in_reserved s junk : forallb reserved junk = true -> reserved s = false -> str_in s junk = false.
Proof.
  induction junk as [|x r IH]; cbn; intros H Hs; [reflexivity|].
  apply andb_prop in H. destruct H as [Hx Hr].
  destruct (String.eqb s x) eqn:E; [|apply IH; assumption].
  apply String.eqb_eq in E. subst. congruence.
Qed.

Lemma gen_id_ext fmt fuel prefix ids ids' idx :
  (forall n, str_in (prefix ++ fmt n) ids' = str_in (prefix ++ fmt n) ids) ->
  gen_id fmt fuel prefix ids' idx = gen_id fmt fuel prefix ids idx.
Proof.
  intros H. revert idx. induction fuel as [|f IH]; intros idx; cbn; [reflexivity|].
  rewrite H. destruct (str_in _ ids); [apply IH | reflexivity].
Qed.

Lemma gen_prefix_not_reserved prefix s : In prefix gen_prefixes -> reserved (prefix ++ s) = false.
Proof.
  unfold gen_prefixes. cbn [In]. intros H.
  repeat (destruct H as [H|H]; [subst prefix; reflexivity|]). contradiction.
Qed.

Theorem prescan_stable fmt fuel prefix l1 junk l2 idx :
  In prefix gen_prefixes -> forallb reserved junk = true ->
  gen_id fmt fuel prefix (l1 ++ junk ++ l2) idx = gen_id fmt fuel prefix (l1 ++ l2) idx.
Proof.
  intros Hp Hj. apply gen_id_ext. intros n.
  rewrite !str_in_app, (str_in_reserved _ junk Hj (gen_prefix_not_reserved prefix (fmt n) Hp)). reflexivity.
Qed.

(* a generated id is never one of the pre-scanned ids *)
Theorem gen_id_fresh fmt fuel prefix ids idx id idx' :
  gen_id fmt fuel prefix ids idx = Some (id, idx') -> str_in id ids = false /\ (idx < idx')%N.
Proof.
  revert idx. induction fuel as [|f IH]; intros idx; cbn; [discriminate|].
  destruct (str_in (prefix ++ fmt (N.succ idx)) ids) eqn:E.
  - intros H. destruct (IH _ H) as [H1 H2]. split; [exact H1 | lia].
  - intros H. inversion H; subst. split; [exact E | lia].
Qed.

(* ------------------------------------------------------------------ svgtree: what never enters the tree *)
Lemma xnodes_rect_simple (P : xnodes -> Prop) : P XNil -> (forall x r, P r -> P (XCons x r)) -> forall l, P l.
Proof. intros H0 H1. fix IH 1. destruct l; [exact H0 | apply H1, IH]. Qed.

Section ST.
  Variable resolve : list xattr -> attrs.
  Variable parse_text_children : xnodes -> nodes.
  Variable parse_use_children : list xattr -> nodes.
  Local Notation PN := (parse_xml_node resolve parse_text_children parse_use_children).
  Local Notation PC := (parse_xml_children resolve parse_text_children parse_use_children).

  Lemma parse_children_cons x r : PC (XCons x r) = napp (PN x) (PC r).
  Proof. reflexivity. Qed.

  Lemma xml_ignorable_nil x : xml_ignorable x = true -> PN x = NNil.
  Proof.
    destruct x as [k ns tg sty al ch]. cbn [xml_ignorable parse_xml_node].
    destruct (parse_tag_name k ns tg); [|reflexivity]. intros H. rewrite H. reflexivity.
  Qed.

  Theorem svgtree_drops l1 junk l2 :
    all_xml_ignorable junk = true -> PC (xapp l1 (xapp junk l2)) = PC (xapp l1 l2).
  Proof.
    intros H. induction l1 as [|x r IH] using xnodes_rect_simple.
    - cbn [xapp]. induction junk as [|j r IH] using xnodes_rect_simple; [reflexivity|].
      cbn in H. apply andb_prop in H. destruct H as [Hj Hr].
      cbn [xapp]. rewrite parse_children_cons, (xml_ignorable_nil j Hj). cbn [napp]. apply IH, Hr.
    - cbn [xapp]. rewrite !parse_children_cons, IH. reflexivity.
  Qed.
End ST.

Lemma xml_ignorable_kinds k ns tg sty al ch :
  k <> XK_Element \/ ns = false \/ tg = None \/ sty = true -> xml_ignorable (XNode k ns tg sty al ch) = true.
Proof.
  intros H. cbn. destruct k, ns, tg, sty; cbn; try reflexivity; exfalso; intuition congruence.
Qed.

Lemma keep_attr_false x : xa_ns x = ANS_Foreign \/ xa_known x = false -> keep_attr x = false.
Proof. unfold keep_attr. intros [H|H]; rewrite H; cbn; [reflexivity | apply andb_false_r]. Qed.

Theorem attrs_drop l1 junk l2 :
  forallb (fun x => negb (keep_attr x)) junk = true -> kept_attrs (l1 ++ junk ++ l2) = kept_attrs (l1 ++ l2).
Proof.
  intros H. unfold kept_attrs. rewrite !filter_app. f_equal.
  replace (filter keep_attr junk) with (@nil xattr); [reflexivity|].
  induction junk as [|x r IH]; [reflexivity|]. cbn in *. apply andb_prop in H. destruct H as [Hx Hr].
  apply negb_true_iff in Hx. rewrite Hx. apply IH, Hr.
Qed.

(* ------------------------------------------------------------------ the tables the model was written against *)
Lemma tables_lock :
  elem_dispatch = [D_TagName; D_GraphicOrStructural; D_Visible; D_Use; D_Switch; D_Group] /\
  clip_dispatch = [D_TagName; D_GraphicOrStructural; D_Visible; D_Use; D_Group] /\
  group_steps = [GS_EmptyNoFilterAttr; GS_ObjectBBox; GS_EmptyFiltersFirst; GS_Clip; GS_Mask; GS_Filters; GS_NotRequired; GS_EmptyNoFilters; GS_Boxes] /\
  visible_tests = [V_DisplayNotNone; V_ValidTransform; V_ConditionPassed] /\
  g_or_use_tags = [T_G; T_Use] /\ structural_tags = [T_G; T_Switch; T_Svg].
Proof. repeat split. Qed.

(* ------------------------------------------------------------------ has_valid_transform vs invertibility *)
Lemma Qabs_b_nonneg a : 0 <= Qabs_b a.
Proof.
  unfold Qabs_b. destruct (Qleb 0 a) eqn:E; [apply Qleb_true in E; exact E|].
  apply Qleb_false in E. lra.
Qed.
Lemma Qabs_b_zero a : a == 0 -> Qabs_b a == 0.
Proof. intros H. unfold Qabs_b. destruct (Qleb 0 a); rewrite H; reflexivity. Qed.

(* a non-invertible transform is invalid for has_valid_transform (as fixed by 427fd1e): the element is not rendered *)
Theorem noninvertible_is_invalid t : ts_det t == 0 -> usvg_ts_valid t = false.
Proof.
  intros Hd. unfold usvg_ts_valid. cbn [forallb valid_ts_tests].
  replace (eval_ts_test t TT_DetRelTol) with false; [apply andb_false_iff; right; reflexivity|].
  symmetry. cbn [eval_ts_test]. apply Qltb_false. unfold ts_det in Hd.
  rewrite (Qabs_b_zero _ Hd).
  assert (H1 := Qabs_b_nonneg (t_sx t * t_sy t)). assert (H2 := Qabs_b_nonneg (t_kx t * t_ky t)).
  assert (0 <= F32_EPS) by (unfold F32_EPS; lra).
  apply Qmult_le_0_compat; lra.
Qed.

(* ------------------------------------------------------------------ the spec's zero-size shapes are invalid for shapes.rs *)
Lemma zero_size_invalid t a : zero_size t a = true -> shape_valid t a = false.
Proof.
  unfold zero_size, shape_valid. destruct t; try discriminate;
    cbv [len_checks_of shape_len_checks tag_eqb tag_idx N.eqb Pos.eqb forallb geom_of poly_min_points]; intros H.
  - apply orb_prop in H. destruct H as [H|H]; apply Qleb_true in H.
    + replace (Qltb 0 (a_width a)) with false; [reflexivity|]. symmetry. apply Qltb_false. exact H.
    + replace (Qltb 0 (a_height a)) with false; [apply andb_false_iff; left; apply andb_false_r|].
      symmetry. apply Qltb_false. exact H.
  - apply Qleb_true in H. replace (Qltb 0 (a_r a)) with false; [reflexivity|]. symmetry. apply Qltb_false. exact H.
  - apply orb_prop in H. destruct H as [H|H]; apply Qleb_true in H.
    + replace (Qltb 0 (a_rx a)) with false; [reflexivity|]. symmetry. apply Qltb_false. exact H.
    + replace (Qltb 0 (a_ry a)) with false; [apply andb_false_iff; left; apply andb_false_r|].
      symmetry. apply Qltb_false. exact H.
  - apply N.ltb_lt in H. apply andb_false_iff. right. apply N.leb_gt. exact H.
  - apply N.ltb_lt in H. apply andb_false_iff. right. apply N.leb_gt. exact H.
  - apply N.ltb_lt in H. apply andb_false_iff. right. apply N.leb_gt. exact H.
Qed.

(* ------------------------------------------------------------------ special attribute / element lookups, positional CSS *)
Lemma special_attrs_ignore_foreign p : In p special_attr_lookups -> lookup_finds (snd p) ANS_Foreign = false.
Proof. unfold special_attr_lookups. cbn [In]. intros H. repeat (destruct H as [H|H]; [subst p; reflexivity|]). contradiction. Qed.

Lemma special_attrs_complete : map fst special_attr_lookups = [SA_Style; SA_Id; SA_Class].
Proof. reflexivity. Qed.

(* resolve_css collects only `style` elements of the SVG namespace (7457fef) *)
Lemma style_element_ignores_foreign : lookup_finds style_element_lookup ANS_Foreign = false /\ lookup_finds style_element_lookup ANS_None = false.
Proof. split; reflexivity. Qed.
Lemma style_element_finds_svg : lookup_finds style_element_lookup ANS_Svg = true.
Proof. reflexivity. Qed.

Lemma sibling_elements_app a b : sibling_elements (xapp a b) = sibling_elements a ++ sibling_elements b.
Proof.
  induction a as [|x r IH] using xnodes_rect_simple; [reflexivity|].
  cbn [xapp sibling_elements]. destruct (x_is_element x); cbn; rewrite IH; reflexivity.
Qed.
Lemma sibling_elements_junk junk : all_non_element junk = true -> sibling_elements junk = [].
Proof.
  induction junk as [|x r IH] using xnodes_rect_simple; [reflexivity|].
  cbn. intros H. apply andb_prop in H. destruct H as [Hx Hr]. apply negb_true_iff in Hx. rewrite Hx. apply IH, Hr.
Qed.
Theorem sibling_elements_stable l1 junk l2 :
  all_non_element junk = true -> sibling_elements (xapp l1 (xapp junk l2)) = sibling_elements (xapp l1 l2).
Proof. intros H. rewrite !sibling_elements_app, (sibling_elements_junk junk H). reflexivity. Qed.

Lemma css_facts_lock : css_facts = [CF_ParentElement; CF_PrevSiblingElement; CF_FirstChildViaPrevSibling; CF_AttrMatchNoNamespace].
Proof. reflexivity. Qed.

(* ------------------------------------------------------------------ systemLanguage: the `-` boundary *)
(* an entry matches only a user language it equals, or one that equals its part before the first `-` *)
Theorem syslang_boundary users e :
  (forall u, In u users -> u <> e) -> (forall u, In u users -> before_dash e <> Some u) -> entry_matches users e = false.
Proof.
  intros H1 H2. unfold entry_matches. cbn [existsb sys_lang_rules]. rewrite !orb_false_r.
  apply orb_false_iff. split.
  - induction users as [|u r IH]; [reflexivity|]. cbn [existsb eval_lang_rule].
    apply orb_false_iff. split.
    + apply String.eqb_neq. apply H1. left. reflexivity.
    + apply IH; intros; [apply H1 | apply H2]; right; assumption.
  - induction users as [|u r IH]; [reflexivity|]. cbn [existsb eval_lang_rule].
    apply orb_false_iff. split.
    + destruct (before_dash e) as [p|] eqn:E; [|reflexivity]. apply String.eqb_neq. intros Hu. subst p.
      apply (H2 u (or_introl eq_refl)). reflexivity.
    + apply IH; intros; [apply H1 | apply H2]; right; assumption.
Qed.

Theorem syslang_all_fail users entries :
  (forall e, In e entries -> (forall u, In u users -> u <> e) /\ (forall u, In u users -> before_dash e <> Some u)) ->
  sys_lang_ok users entries = false.
Proof.
  intros H. unfold sys_lang_ok. induction entries as [|e r IH]; [reflexivity|]. cbn [existsb].
  destruct (H e (or_introl eq_refl)) as [A B]. rewrite (syslang_boundary users e A B). cbn. apply IH.
  intros e' He'. apply H. right. exact He'.
Qed.

(* ------------------------------------------------------------------ routes to content conversion (second pass) *)
(* the checker rejects EVERY table that contains an unguarded site, a dispatch without the filter in front, or a symbol
   exception anywhere else than use_node::convert -> its local convert_children *)
Lemma forallb_false_of {A} (f : A -> bool) l x : In x l -> f x = false -> forallb f l = false.
Proof.
  induction l as [|y r IH]; [contradiction|]. intros [->|H] Hx; cbn; [rewrite Hx; reflexivity|].
  rewrite (IH H Hx). apply andb_false_r.
Qed.
Theorem routes_reject_unguarded sites callee encl :
  In (callee, encl, SG_None) sites -> routes_guarded sites = false.
Proof. intros H. unfold routes_guarded. apply (forallb_false_of _ _ _ H). reflexivity. Qed.
Theorem routes_reject_foreign_symbol sites callee encl :
  In (callee, encl, SG_SymbolOfUse) sites -> symbol_site callee encl = false -> routes_guarded sites = false.
Proof. intros H Hs. unfold routes_guarded. apply (forallb_false_of _ _ _ H). cbn. exact Hs. Qed.
Theorem routes_reject_unfiltered_callee sites callee encl :
  In (callee, encl, SG_Internal) sites -> internally_guarded callee = false -> routes_guarded sites = false.
Proof. intros H Hs. unfold routes_guarded. apply (forallb_false_of _ _ _ H). cbn. exact Hs. Qed.
(* an own-node site is accepted only if every caller of the enclosing function is itself accepted *)
Theorem routes_own_node_needs_vetted_callers sites callee encl :
  routes_guarded sites = true -> In (callee, encl, SG_OwnNode) sites ->
  forall c2 e2 g2, In (c2, e2, g2) sites -> c2 = encl -> g2 <> SG_None /\ g2 <> SG_Internal.
Proof.
  intros Hr Hin c2 e2 g2 Hin2 ->. unfold routes_guarded in Hr. rewrite forallb_forall in Hr.
  specialize (Hr _ Hin). cbn in Hr. rewrite forallb_forall in Hr. specialize (Hr _ Hin2). cbn in Hr.
  rewrite String.eqb_refl in Hr. destruct g2; split; try discriminate; intros E; discriminate E.
Qed.
(* the obligation over the table cut from crates/usvg/src/parser/*.rs *)
Theorem routes_all_guarded : routes_guarded call_sites = true.
Proof. vm_compute. reflexivity. Qed.
Theorem dispatch_guarded_both : dispatch_guarded elem_dispatch = true /\ dispatch_guarded clip_dispatch = true.
Proof. split; reflexivity. Qed.
Lemma visible_test_sites_lock :
  visible_test_sites = ["converter::convert_doc"; "converter::convert_element"; "converter::convert_clip_path_elements";
                        "text::collect_text_chunks_impl"]%string.
Proof. reflexivity. Qed.
