(* C04 lemmas, second pass: validity of filter primitive parameters for all attribute values. *)
From Coq Require Import Qround.
From RV Require Import Model.Base Model.StylePrims Model.FilterParPrims Gen.LeafFilterPar Model.FilterPar.
Local Open Scope Q_scope.

(* --- divisor (since 25cbad3): finite and never (approximately) zero, so NonZeroF32::new(..).unwrap() cannot panic and the
   tree never carries a non-finite divisor: ALL divisor attributes and ALL kernels, sums that overflow f32 (to an infinity,
   or to NaN through inf - inf) and the overflowing rounding step included *)
Lemma divisor_finite_nonzero attr ks d : convolve_divisor attr ks = Some d ->
  xq_finite d = true /\ exists v, nonzero_new d = Some v.
Proof.
  unfold convolve_divisor, nonzero_new, xq_approx_zero. cbv zeta.
  destruct (xq_approx_eq_ulps (xq_unwrap_or_x attr ks) (Fin 0) 4) eqn:E; [discriminate|]. cbn [orb].
  destruct (xq_finite (xq_unwrap_or_x attr ks)) eqn:F; [|discriminate]. cbn [negb].
  intro H. inversion H; subst d. split; [exact F|]. change (Fin (0 # 1)) with (Fin 0). rewrite E. eexists. reflexivity.
Qed.
(* the former witness: nine kernel entries of 2^108 (finite sum 2.9e33, times 1e6 overflows): now no primitive (dummy) *)
Definition big_kernel : list xq := repeat (Fin (inject_Z (2 ^ 108))) 9.
Lemma big_kernel_rejected :
  forallb xq_finite big_kernel = true /\ xq_finite (kernel_sum big_kernel) = true /\ kernel_round (kernel_sum big_kernel) = PInf /\
  convolve_div None big_kernel = None.
Proof. vm_compute. repeat split; reflexivity. Qed.

(* --- stdDeviation: finite and not negative for ALL numbers and scales (NaN, infinities, overflowing products) *)
Lemma pos_or_zero_valid v : xq_nonneg_fin (xq_unwrap_or_x (xq_positive_new v) XQ_POSITIVE_ZERO) = true.
Proof. destruct v as [q| | |]; simpl; try reflexivity. destruct (Qleb 0 q) eqn:E; simpl; [exact E|reflexivity]. Qed.
Lemma std_dev_valid x y sc :
  xq_nonneg_fin (fst (xstd_dev_scaled x y sc)) = true /\ xq_nonneg_fin (snd (xstd_dev_scaled x y sc)) = true.
Proof. unfold xstd_dev_scaled. cbv zeta. simpl fst. simpl snd. split; apply pos_or_zero_valid. Qed.

(* --- specularExponent: an accepted value is a finite number in [1, 128] *)
Lemma spec_exp_range e : spec_exp_ok e = true -> exists q, e = Fin q /\ 1 <= q <= 128.
Proof.
  unfold spec_exp_ok. intro H. apply andb_true_iff in H as [A B].
  destruct e as [q| | |]; try (simpl in A; discriminate); try (simpl in B; discriminate).
  exists q. split; [reflexivity|]. unfold xq_leb in A, B. simpl in A, B.
  apply orb_true_iff in A, B. split.
  - destruct A as [A|A]; [apply Qltb_true in A; lra|apply Qeqb_true in A; lra].
  - destruct B as [B|B]; [apply Qltb_true in B; lra|apply Qeqb_true in B; lra].
Qed.

(* --- order and targets *)
Local Open Scope Z_scope.
Lemma order_positive x y : 0 < fst (resolve_order x y) /\ 0 < snd (resolve_order x y).
Proof.
  unfold resolve_order. destruct (0 <? x) eqn:A; destruct (0 <? y) eqn:B; simpl; try lia.
  all: try (apply Z.ltb_lt in A; apply Z.ltb_lt in B; lia).
Qed.
Lemma target_in_range t o v : parse_target t o = Some v -> 0 <= v < o.
Proof.
  unfold parse_target. cbv zeta.
  set (u := match t with Some w => w | None => o / 2 end).
  destruct (u <? 0) eqn:A; [discriminate|]. destruct (o <=? u) eqn:B; [discriminate|]. simpl.
  intro H. inversion H; subst v. apply Z.ltb_ge in A. apply Z.leb_gt in B. lia.
Qed.
(* --- numOctaves never has the sign bit set (so `round() as u32` cannot wrap a negative number) *)
Lemma octaves_not_negative attr : xq_sign_negative (num_octaves_clamped attr) = false.
Proof.
  unfold num_octaves_clamped. cbv zeta. destruct (xq_sign_negative (xq_unwrap_or_x attr (Fin (1 # 1)))) eqn:E; [reflexivity|exact E].
Qed.
