(* C02: the morphology window never exceeds the image it scans. *)
From RV Require Import Model.Base Model.RenderPrims Gen.LeafMorph Model.Morph.
Local Open Scope Z_scope.

Lemma as_u32_nonneg z : 0 <= as_u32 z.
Proof. unfold as_u32, U32_MAX. lia. Qed.

Lemma morph_columns_bounded r w : 0 <= w -> 0 <= morph_columns r w <= w.
Proof.
  intro H. unfold morph_columns, u32_saturating_mul.
  pose proof (as_u32_nonneg (as_u32 (f32_ceil r) * 2)). lia.
Qed.
Lemma morph_rows_bounded r h : 0 <= h -> 0 <= morph_rows r h <= h.
Proof.
  intro H. unfold morph_rows, u32_saturating_mul.
  pose proof (as_u32_nonneg (as_u32 (f32_ceil r) * 2)). lia.
Qed.

(* whatever radius the document asks for, the kernel visits at most (w*h)^2 cells of a w x h image *)
Lemma morph_ops_bounded rx ry w h : 0 <= w -> 0 <= h ->
  0 <= morph_columns rx w <= w /\ 0 <= morph_rows ry h <= h /\ 0 <= morph_ops rx ry w h <= (w * h) * (w * h).
Proof.
  intros Hw Hh. pose proof (morph_columns_bounded rx w Hw) as C. pose proof (morph_rows_bounded ry h Hh) as R.
  split; [exact C|]. split; [exact R|]. unfold morph_ops.
  set (c := morph_columns rx w) in *. set (r := morph_rows ry h) in *.
  assert (A : 0 <= c * r <= w * h) by (split; [apply Z.mul_nonneg_nonneg; lia | apply Z.mul_le_mono_nonneg; lia]).
  assert (B : 0 <= w * h) by (apply Z.mul_nonneg_nonneg; lia).
  split; [apply Z.mul_nonneg_nonneg; lia | apply Z.mul_le_mono_nonneg_l; lia].
Qed.
