(* Theorems about the SOURCE-DERIVED functions Gen.LeafViewBox.{aligned_pos,to_transform,fit_view_box}.
   Everything is over exact rationals; f32 rounding is outside (see DESIGN 1.2). *)
From RV Require Import Model.Base Model.GeomPrims Model.ViewBoxSpec Model.Corr Model.ViewBoxChk Gen.LeafViewBox.
Local Open Scope Q_scope.

Lemma div_facts W w : 0 < w -> 0 < W -> (W / w) * w == W /\ 0 < W / w.
Proof.
  intros Hw HW. split. field. lra. apply Qlt_shift_div_l; lra.
Qed.

Ltac cmp_cases :=
  repeat match goal with
  | |- context [if Qltb ?a ?b then _ else _] =>
      let E := fresh "E" in destruct (Qltb a b) eqn:E;
      [apply Qltb_true in E | apply Qltb_false in E]
  | |- context [if Qgtb ?a ?b then _ else _] =>
      let E := fresh "E" in destruct (Qgtb a b) eqn:E;
      [apply Qgtb_true in E | apply Qgtb_false in E]
  end.

Ltac qhalf := unfold Qdiv in *; change (/ 2) with (1#2) in *.

Ltac vb_start :=
  intros [[x y w h] [al sl]] [W H] [[Hw Hh] [HW HH]]; simpl in Hw, Hh, HW, HH;
  destruct (div_facts W w Hw HW) as [Fx Px]; destruct (div_facts H h Hh HH) as [Fy Py];
  unfold img_lo_x, img_hi_x, img_lo_y, img_hi_y, to_transform, aligned_pos, map_x, map_y; cbn;
  set (sx := W / w) in *; set (sy := H / h) in *.

Ltac clear_bodies := repeat match goal with v := _ |- _ => clearbody v end.
Ltac vb_finish := clear_bodies; qhalf; repeat split; nra.

(* no rotation / skew is ever introduced *)
Lemma no_skew vb s : t_kx (to_transform vb s) == 0 /\ t_ky (to_transform vb s) == 0.
Proof.
  destruct vb as [[x y w h] [al sl]], s as [W H]. unfold to_transform, aligned_pos. cbn.
  destruct al; cbn; cmp_cases; destruct sl; cbn; cmp_cases; cbn; split; reflexivity.
Qed.

Lemma scale_positive : forall vb s, vb_ok vb s ->
  0 < t_sx (to_transform vb s) /\ 0 < t_sy (to_transform vb s).
Proof.
  vb_start. destruct al; cbn; destruct sl; cbn; cmp_cases; cbn; split; assumption.
Qed.

(* preserveAspectRatio="none": the viewBox corners map exactly onto the viewport corners *)
Lemma none_maps_exactly : forall vb s, vb_ok vb s -> ar_align (vb_aspect vb) = ANone ->
  let t := to_transform vb s in let r := vb_rect vb in
  img_lo_x t r == 0 /\ img_hi_x t r == sw s /\ img_lo_y t r == 0 /\ img_hi_y t r == sh s.
Proof.
  vb_start. intros Ha. simpl in Ha. subst al. cbn. vb_finish.
Qed.

(* any other value: uniform scale *)
Lemma uniform : forall vb s, vb_ok vb s -> ar_align (vb_aspect vb) <> ANone ->
  t_sx (to_transform vb s) == t_sy (to_transform vb s).
Proof.
  vb_start. intros Ha. simpl in Ha.
  destruct al; try congruence; cbn; destruct sl; cbn; cmp_cases; cbn; reflexivity.
Qed.

(* meet: the whole viewBox is visible inside the viewport, and one dimension is tight *)
Lemma meet_inside : forall vb s, vb_ok vb s ->
  ar_align (vb_aspect vb) <> ANone -> ar_slice (vb_aspect vb) = false ->
  let t := to_transform vb s in let r := vb_rect vb in
  0 <= img_lo_x t r /\ img_hi_x t r <= sw s /\ 0 <= img_lo_y t r /\ img_hi_y t r <= sh s.
Proof.
  vb_start. intros Ha Hs. simpl in Ha, Hs. subst sl.
  destruct al; try congruence; cbn; cmp_cases; cbn; vb_finish.
Qed.

Lemma meet_touches : forall vb s, vb_ok vb s ->
  ar_align (vb_aspect vb) <> ANone -> ar_slice (vb_aspect vb) = false ->
  let t := to_transform vb s in let r := vb_rect vb in
  img_hi_x t r - img_lo_x t r == sw s \/ img_hi_y t r - img_lo_y t r == sh s.
Proof.
  vb_start. intros Ha Hs. simpl in Ha, Hs. subst sl.
  destruct al; try congruence; cbn; cmp_cases; cbn; clear_bodies; qhalf;
    solve [left; nra | right; nra].
Qed.

(* slice: the viewport is entirely covered by the viewBox, and one dimension is tight *)
Lemma slice_covers : forall vb s, vb_ok vb s ->
  ar_align (vb_aspect vb) <> ANone -> ar_slice (vb_aspect vb) = true ->
  let t := to_transform vb s in let r := vb_rect vb in
  img_lo_x t r <= 0 /\ sw s <= img_hi_x t r /\ img_lo_y t r <= 0 /\ sh s <= img_hi_y t r.
Proof.
  vb_start. intros Ha Hs. simpl in Ha, Hs. subst sl.
  destruct al; try congruence; cbn; cmp_cases; cbn; vb_finish.
Qed.

Lemma slice_touches : forall vb s, vb_ok vb s ->
  ar_align (vb_aspect vb) <> ANone -> ar_slice (vb_aspect vb) = true ->
  let t := to_transform vb s in let r := vb_rect vb in
  img_hi_x t r - img_lo_x t r == sw s \/ img_hi_y t r - img_lo_y t r == sh s.
Proof.
  vb_start. intros Ha Hs. simpl in Ha, Hs. subst sl.
  destruct al; try congruence; cbn; cmp_cases; cbn; clear_bodies; qhalf;
    solve [left; nra | right; nra].
Qed.

(* alignment: the prescribed sides (or centres) of viewBox image and viewport coincide *)
Lemma aligned_x : forall vb s, vb_ok vb s -> forall sd, align_x (ar_align (vb_aspect vb)) = Some sd ->
  let t := to_transform vb s in let r := vb_rect vb in
  aligned sd (img_lo_x t r) (img_hi_x t r) (sw s).
Proof.
  vb_start. intros sd Ha. simpl in Ha.
  destruct al; inversion Ha; subst sd; cbn; destruct sl; cbn; cmp_cases; cbn; vb_finish.
Qed.

Lemma aligned_y : forall vb s, vb_ok vb s -> forall sd, align_y (ar_align (vb_aspect vb)) = Some sd ->
  let t := to_transform vb s in let r := vb_rect vb in
  aligned sd (img_lo_y t r) (img_hi_y t r) (sh s).
Proof.
  vb_start. intros sd Ha. simpl in Ha.
  destruct al; inversion Ha; subst sd; cbn; destruct sl; cbn; cmp_cases; cbn; vb_finish.
Qed.

(* scaling the viewport by k scales the mapping by k: "root scale k = size * k" at transform level *)
Lemma Qltb_scale k a b : 0 < k -> Qltb (k * a) (k * b) = Qltb a b.
Proof.
  intros Hk. destruct (Qltb a b) eqn:E.
  - apply Qltb_true in E. apply Qltb_true. nra.
  - apply Qltb_false in E. apply Qltb_false. nra.
Qed.

Lemma scale_law : forall vb s k, vb_ok vb s -> 0 < k ->
  ts_eq (to_transform vb (scale_size k s)) (ts_concat (from_scale k k) (to_transform vb s)).
Proof.
  intros [[x y w h] [al sl]] [W H] k [[Hw Hh] [HW HH]] Hk; simpl in Hw, Hh, HW, HH.
  unfold to_transform, aligned_pos, ts_eq, ts_concat, from_scale, scale_size. cbn.
  assert (Ex : k * W / w == k * (W / w)) by (field; lra).
  assert (Ey : k * H / h == k * (H / h)) by (field; lra).
  assert (L1 : Qltb (k * W / w) (k * H / h) = Qltb (W / w) (H / h)).
  { rewrite <- (Qltb_scale k (W / w) (H / h) Hk).
    destruct (Qltb (k * (W / w)) (k * (H / h))) eqn:E.
    - apply Qltb_true in E. apply Qltb_true. rewrite Ex, Ey. exact E.
    - apply Qltb_false in E. apply Qltb_false. rewrite Ex, Ey. exact E. }
  assert (L2 : Qgtb (k * W / w) (k * H / h) = Qgtb (W / w) (H / h)).
  { unfold Qgtb. rewrite <- (Qltb_scale k (H / h) (W / w) Hk).
    destruct (Qltb (k * (H / h)) (k * (W / w))) eqn:E.
    - apply Qltb_true in E. apply Qltb_true. rewrite Ex, Ey. exact E.
    - apply Qltb_false in E. apply Qltb_false. rewrite Ex, Ey. exact E. }
  destruct al; cbn; destruct sl; cbn; rewrite ?L1, ?L2; cmp_cases; cbn;
    repeat split; field; lra.
Qed.

(* images: fit_view_box + aligned_pos places the picture exactly as to_transform would map a
   viewBox (0,0,aw,ah) onto the viewport `rect` *)
Lemma image_fit : forall actual rect a, pos_size actual -> pos_rect rect ->
  ts_eq (image_ts actual rect a)
        (ts_concat (from_translate (rx rect) (ry rect))
           (to_transform {| vb_rect := {| rx := 0; ry := 0; rw := sw actual; rh := sh actual |};
                            vb_aspect := a |} (r_size rect))).
Proof.
  intros [aw ah] [x y w h] [al sl] [Haw Hah] [Hw Hh]; simpl in Haw, Hah, Hw, Hh.
  unfold image_ts, fit_view_box, to_transform, aligned_pos, size_expand_to, size_scale_to, size_scale,
    ts_eq, ts_concat, from_translate. cbn.
  assert (E1 : h * aw / ah == h / ah * aw) by (field; lra).
  assert (E2 : w == (w / aw) * aw) by (field; lra).
  assert (G1 : forall b, Qgeb (h * aw / ah) w = b -> Qgtb (w / aw) (h / ah) = negb b).
  { intros b Hb. destruct b; cbn.
    - apply Qgeb_true in Hb. apply Qgtb_false.
      assert (w / aw * aw <= h / ah * aw) by lra. nra.
    - apply Qgeb_false in Hb. apply Qgtb_true.
      assert (h / ah * aw < w / aw * aw) by lra. nra. }
  assert (G2 : forall b, Qleb (h * aw / ah) w = b -> Qltb (w / aw) (h / ah) = negb b).
  { intros b Hb. destruct b; cbn.
    - apply Qleb_true in Hb. apply Qltb_false.
      assert (h / ah * aw <= w / aw * aw) by lra. nra.
    - apply Qleb_false in Hb. apply Qltb_true.
      assert (w / aw * aw < h / ah * aw) by lra. nra. }
  destruct al; cbn; destruct sl; cbn;
    try (rewrite (G1 _ eq_refl)); try (rewrite (G2 _ eq_refl));
    try (destruct (Qgeb (h * aw / ah) w)); try (destruct (Qleb (h * aw / ah) w)); cbn;
    repeat split; field; lra.
Qed.
