(* Nested isolation (render.rs render_group): a group with clip-path / mask inside another isolated group is limited by
   the parent's clamp box expressed in the PARENT LAYER's coordinates.  Stated over the source-derived
   Gen.LeafRender.layer_child_max: pixel (x, y) of the layer is inside the child's bounds exactly when the canvas-frame pixel
   (x + origin) is inside the parent's bounds - a sign slip in the translation breaks this. *)
From RV Require Import Model.Base.
From RV Require Import Model.RenderPrims.
From RV Require Import Gen.LeafRender.
Local Open Scope Z_scope.

Definition pix_in (r : irect) (x y : Z) : Prop := ix r <= x < ix r + iw r /\ iy r <= y < iy r + ih r.

Lemma irect_from_xywh_some : forall x y w h o, irect_from_xywh x y w h = Some o -> o = {| ix := x; iy := y; iw := w; ih := h |}.
Proof.
  intros x y w h o. unfold irect_from_xywh.
  match goal with |- (if ?c then _ else _) = _ -> _ => destruct c end; [|discriminate].
  intro H. inversion H. reflexivity.
Qed.

Lemma nested_bounds_in_layer_frame : forall maxb ib o,
  irect_translate maxb (- ix ib) (- iy ib) = Some o ->
  layer_child_max maxb ib = o /\
  forall x y, pix_in (layer_child_max maxb ib) x y <-> pix_in maxb (x + ix ib) (y + iy ib).
Proof.
  intros maxb ib o H.
  assert (E : layer_child_max maxb ib = o).
  { unfold layer_child_max. unfold opt_unwrap_or. rewrite H. reflexivity. }
  split; [exact E|]. rewrite E. unfold irect_translate in H. apply irect_from_xywh_some in H. subst o.
  intros x y. unfold pix_in. cbn [ix iy iw ih]. lia.
Qed.

(* the canvas itself, seen from a layer that starts 2.5 canvases to the left, is where it should be *)
Example nested_bounds_far_left :
  layer_child_max {| ix := -200; iy := -200; iw := 500; ih := 500 |} {| ix := -250; iy := 10; iw := 400; ih := 50 |}
  = {| ix := 50; iy := -210; iw := 500; ih := 500 |}.
Proof. vm_compute. reflexivity. Qed.

(* ------------------------------------------------------------------ extension round 4: masks on masks and stacks of group
   effects to ANY depth (rationals), and the exact u8 mask chain of tiny-skia to any depth *)
From RV Require Import Model.F32.
From RV Require Import Model.Blend8.
From RV Require Import Model.ClipMask.
From RV Require Import Proofs.ByteSweep.
From RV Require Import Proofs.ClipMask.
From Flocq Require Import Core BinarySingleNaN.

Local Open Scope Q_scope.
Lemma unit_one : unit_q 1.
Proof. unfold unit_q. split; discriminate. Qed.

Fixpoint eval_mask_unit (m : mtree) : wf_mask m -> unit_q (eval_mask m).
Proof.
  destruct m as [c r [k|]]; cbn [wf_mask eval_mask]; intros (Hc & Hr & Hk).
  - apply mask_factor_unit; [exact Hc|exact Hr|apply eval_mask_unit, Hk].
  - apply mask_factor_unit; [exact Hc|exact Hr|apply unit_one].
Qed.

(* a mask with a mask never lets through more than either of them alone, nor more than its own region *)
Lemma nested_mask_intersection : forall c r k, unit_q c -> unit_q r -> wf_mask k ->
  eval_mask (MMask c r (Some k)) == eval_mask (MMask c r None) * eval_mask k /\
  eval_mask (MMask c r (Some k)) <= eval_mask k /\
  eval_mask (MMask c r (Some k)) <= eval_mask (MMask c r None) /\
  eval_mask (MMask c r (Some k)) <= r.
Proof.
  intros c r k [C0 C1] [R0 R1] Hk. destruct (eval_mask_unit k Hk) as [K0 K1].
  cbn [eval_mask]. unfold mask_factor. set (e := eval_mask k) in *. clearbody e.
  assert (CR : 0 <= c * r /\ c * r <= 1) by (split; nra).
  assert (CE : 0 <= c * e /\ c * e <= 1) by (split; nra).
  destruct CR as [CR0 CR1]. destruct CE as [CE0 CE1].
  split; [ring|]. split; [|split].
  - set (cr := c * r) in *. clearbody cr. nra.
  - set (cr := c * r) in *. clearbody cr. nra.
  - setoid_replace (c * r * e) with (c * e * r) by ring. set (ce := c * e) in *. clearbody ce. nra.
Qed.

(* outside the mask rectangle of ANY level of the chain the target is transparent *)
Fixpoint m_outside (m : mtree) : Prop :=
  match m with MMask _ r n => r == 0 \/ match n with Some k => m_outside k | None => False end end.
Fixpoint outside_any_mask_level (m : mtree) : m_outside m -> eval_mask m == 0.
Proof.
  destruct m as [c r [k|]]; cbn [m_outside eval_mask]; unfold mask_factor; intros [H|H].
  - rewrite H. ring.
  - rewrite (outside_any_mask_level k H). ring.
  - rewrite H. ring.
  - contradiction.
Qed.

(* any stack of unit factors (clip, mask, opacity of a group, of its parent, ...) only removes paint, and a longer stack
   removes at least as much *)
Lemma apply_factors_le : forall fs p, 0 <= p -> Forall unit_q fs -> 0 <= apply_factors p fs /\ apply_factors p fs <= p.
Proof.
  induction fs as [|f r IH]; intros p Hp H; unfold apply_factors; cbn [fold_left].
  - split; [exact Hp|apply Qle_refl].
  - inversion H as [|x l Hf Hr]; subst. destruct (apply_factor_le p f Hp Hf) as [A0 A1].
    destruct (IH (apply_factor p f) A0 Hr) as [B0 B1]. unfold apply_factors in *. split; [exact B0|].
    eapply Qle_trans; [exact B1|exact A1].
Qed.
Lemma apply_factors_app : forall p fs gs, apply_factors p (fs ++ gs) = apply_factors (apply_factors p fs) gs.
Proof. intros. unfold apply_factors. apply fold_left_app. Qed.
Lemma apply_factors_prefix : forall fs gs p, 0 <= p -> Forall unit_q fs -> Forall unit_q gs ->
  apply_factors p (fs ++ gs) <= apply_factors p fs.
Proof.
  intros fs gs p Hp Hf Hg. rewrite apply_factors_app.
  destruct (apply_factors_le fs p Hp Hf) as [A0 _]. apply (apply_factors_le gs _ A0 Hg).
Qed.

(* ---- exact u8 *)
Local Open Scope Z_scope.
Lemma trunc_me_nonneg' : forall m e, 0 <= trunc_me m e.
Proof.
  intros m e. unfold trunc_me. destruct e; [lia|apply Z.shiftl_nonneg; lia|apply Z.shiftr_nonneg; lia].
Qed.
Lemma ceil_u8_byte : forall x, is_byte (ceil_u8 x).
Proof.
  intro x. unfold is_byte, ceil_u8. destruct x as [s|s| |s m e H]; try lia.
  - destruct s; lia.
  - destruct s; [lia|]. pose proof (trunc_me_nonneg' m e).
    destruct (match e with Z.neg p => Z.shiftl (trunc_me m e) (Z.pos p) =? Z.pos m | _ => true end); lia.
Qed.
Lemma scale_u8_byte : forall c m, is_byte c -> is_byte m -> is_byte (scale_u8 c m).
Proof. intros c m Hc Hm. destruct (scale_u8_le c m Hc Hm) as [[A B] _]. unfold is_byte in *. lia. Qed.
Lemma umask_coef_byte : forall lum r g b a rc, is_byte a -> is_byte rc -> is_byte (umask_coef lum r g b a rc).
Proof.
  intros lum r g b a rc Ha Hrc. unfold umask_coef, lum_mask_u8, alpha_mask_u8. destruct lum.
  - apply ceil_u8_byte.
  - apply scale_u8_byte; assumption.
Qed.
Lemma scale_u8_zero_l : forall m, is_byte m -> scale_u8 0 m = 0.
Proof.
  intros m Hm. assert (Z0 : is_byte 0) by (unfold is_byte; lia).
  destruct (scale_u8_le 0 m Z0 Hm) as [[A B] _]. lia.
Qed.
Lemma umask_coef_outside : forall lum r g b a, is_byte r -> is_byte g -> is_byte b -> is_byte a -> umask_coef lum r g b a 0 = 0.
Proof.
  intros lum r g b a Hr Hg Hb Ha. unfold umask_coef.
  rewrite (proj2 (scale_u8_full r Hr)), (proj2 (scale_u8_full g Hg)), (proj2 (scale_u8_full b Hb)), (proj2 (scale_u8_full a Ha)).
  destruct lum; [exact (proj1 (proj2 white_luminance_is_full))|reflexivity].
Qed.

(* mask on mask on mask ...: the exact bytes only ever decrease *)
Fixpoint umask_apply_le (m : umask) : forall c, umask_wf m -> is_byte c -> 0 <= umask_apply m c <= c.
Proof.
  destruct m as [lum r g b a rc [k|]]; intros c (Hr & Hg & Hb & Ha & Hrc & Hk) Hc; cbn [umask_apply].
  - pose proof (umask_apply_le k c Hk Hc) as I.
    assert (B : is_byte (umask_apply k c)) by (unfold is_byte in *; lia).
    destruct (scale_u8_le _ _ B (umask_coef_byte lum r g b a rc Ha Hrc)) as [S _]. lia.
  - destruct (scale_u8_le _ _ Hc (umask_coef_byte lum r g b a rc Ha Hrc)) as [S _]. exact S.
Qed.

(* ... and are exactly 0 where any level's mask rectangle has no coverage *)
Fixpoint umask_outside_zero (m : umask) : forall c, umask_wf m -> is_byte c -> umask_outside m -> umask_apply m c = 0.
Proof.
  destruct m as [lum r g b a rc [k|]]; intros c (Hr & Hg & Hb & Ha & Hrc & Hk) Hc [O|O]; cbn [umask_apply].
  - subst rc. rewrite umask_coef_outside by assumption.
    pose proof (umask_apply_le k c Hk Hc) as I.
    assert (B : is_byte (umask_apply k c)) by (unfold is_byte in *; lia).
    apply (proj2 (scale_u8_full _ B)).
  - rewrite (umask_outside_zero k c Hk Hc O). apply scale_u8_zero_l, umask_coef_byte; assumption.
  - subst rc. rewrite umask_coef_outside by assumption. apply (proj2 (scale_u8_full c Hc)).
  - contradiction.
Qed.

(* ------------------------------------------------------------------ second pass: group opacity in exact binary32, all 65 536
   (premultiplied channel, opacity byte) pairs *)
Definition sweep_rows {T : Type} (F : Z -> T) (P : Z -> Z -> T -> bool) : bool :=
  forallb (fun k => let fk := F k in forallb (fun c => P c k fk) bytes) bytes.
Lemma sweep_rows_spec {T : Type} (F : Z -> T) (P : Z -> Z -> T -> bool) :
  sweep_rows F P = true -> forall c k, is_byte c -> is_byte k -> P c k (F k) = true.
Proof.
  unfold sweep_rows. intros H c k Hc Hk. rewrite forallb_forall in H.
  specialize (H k (proj2 (bytes_spec k) Hk)). cbv beta zeta in H.
  rewrite forallb_forall in H. apply H, bytes_spec, Hc.
Qed.
Definition op_pair (k : Z) : f32 * f32 := (opacity_of_byte k, opacity_of_byte (k + 1)).
Definition op_ok (c k : Z) (o : f32 * f32) : bool :=
  let v := opacity_u8 c (fst o) in
  (0 <=? v) && (v <=? c) && ((0 <? k) || (v =? 0)) && ((k <? 255) || (v =? c)) && ((k =? 255) || (v <=? opacity_u8 c (snd o))).
Lemma opacity_sweep_true : sweep_rows op_pair op_ok = true.
Proof. vm_compute. reflexivity. Qed.

Lemma opacity_u8_facts : forall c k, is_byte c -> is_byte k ->
  let v := opacity_u8 c (fst (op_pair k)) in
  0 <= v <= c /\ (k = 0 -> v = 0) /\ (k = 255 -> v = c) /\ (k < 255 -> v <= opacity_u8 c (snd (op_pair k))).
Proof.
  intros c k Hc Hk v.
  pose proof (sweep_rows_spec _ _ opacity_sweep_true c k Hc Hk) as H. unfold op_ok in H. fold v in H.
  rewrite !andb_true_iff, !orb_true_iff, !Z.leb_le, !Z.ltb_lt, !Z.eqb_eq in H. unfold is_byte in Hk. lia.
Qed.

(* ------------------------------------------------------------------ second pass: chains of apply_mask of any length (nested clip
   paths, clip + mask + ... of nested groups), exact bytes *)
Lemma scale_chain_le : forall ms c, is_byte c -> Forall is_byte ms -> 0 <= scale_chain c ms <= c.
Proof.
  induction ms as [|m r IH]; intros c Hc H; unfold scale_chain; cbn [fold_left]; [unfold is_byte in Hc; lia|].
  inversion H as [|x l Hm Hr]; subst. destruct (scale_u8_le c m Hc Hm) as [S _].
  pose proof (IH (scale_u8 c m) (scale_u8_byte c m Hc Hm) Hr) as I. unfold scale_chain in I. lia.
Qed.
Lemma scale_chain_app : forall c ms ns, scale_chain c (ms ++ ns) = scale_chain (scale_chain c ms) ns.
Proof. intros. unfold scale_chain. apply fold_left_app. Qed.
Lemma scale_chain_byte : forall ms c, is_byte c -> Forall is_byte ms -> is_byte (scale_chain c ms).
Proof. intros ms c Hc H. pose proof (scale_chain_le ms c Hc H). unfold is_byte in *. lia. Qed.
Lemma scale_chain_prefix : forall ms ns c, is_byte c -> Forall is_byte ms -> Forall is_byte ns ->
  scale_chain c (ms ++ ns) <= scale_chain c ms.
Proof.
  intros ms ns c Hc Hm Hn. rewrite scale_chain_app. apply (scale_chain_le ns _ (scale_chain_byte ms c Hc Hm) Hn).
Qed.
Lemma scale_chain_zero : forall ms c, is_byte c -> Forall is_byte ms -> In 0 ms -> scale_chain c ms = 0.
Proof.
  induction ms as [|m r IH]; intros c Hc H Hin; [contradiction|].
  inversion H as [|x l Hm Hr]; subst. unfold scale_chain. cbn [fold_left]. destruct Hin as [->|Hin].
  - rewrite (proj2 (scale_u8_full c Hc)).
    assert (Z0 : is_byte 0) by (unfold is_byte; lia). pose proof (scale_chain_le r 0 Z0 Hr) as I. unfold scale_chain in I. lia.
  - apply (IH (scale_u8 c m) (scale_u8_byte c m Hc Hm) Hr Hin).
Qed.
Lemma lum_coef_byte : forall r g b a, is_byte (lum_mask_u8 r g b a).
Proof. intros. unfold lum_mask_u8. apply ceil_u8_byte. Qed.
