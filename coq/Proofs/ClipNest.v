(* Nested isolation (render.rs render_group): a group with clip-path / mask inside another isolated group is limited by
   the parent's clamp box expressed in the PARENT LAYER's coordinates.  Stated over the source-derived
   Gen.LeafRender.layer_child_max: pixel (x, y) of the layer is inside the child's bounds exactly when the canvas-frame pixel
   (x + origin) is inside the parent's bounds - a sign slip in the translation breaks this. *)
From RV Require Import Model.Base.
From RV Require Import Model.RenderPrims.
From RV Require Import Gen.LeafRender.
Local Open Scope Z_scope.

Definition pix_in (r : irect) (x y : Z) : Prop := ix r <= x < ix r + iw r /\ iy r <= y < iy r + ih r.

Lemma irect_from_xywh_some : forall x y w h o, irect_from_xywh x y w h = Some o -> o = {| ix := x; iy := y; iw := w; ih := h |}.
Proof.
  intros x y w h o. unfold irect_from_xywh.
  match goal with |- (if ?c then _ else _) = _ -> _ => destruct c end; [|discriminate].
  intro H. inversion H. reflexivity.
Qed.

Lemma nested_bounds_in_layer_frame : forall maxb ib o,
  irect_translate maxb (- ix ib) (- iy ib) = Some o ->
  layer_child_max maxb ib = o /\
  forall x y, pix_in (layer_child_max maxb ib) x y <-> pix_in maxb (x + ix ib) (y + iy ib).
Proof.
  intros maxb ib o H.
  assert (E : layer_child_max maxb ib = o).
  { unfold layer_child_max. unfold opt_unwrap_or. rewrite H. reflexivity. }
  split; [exact E|]. rewrite E. unfold irect_translate in H. apply irect_from_xywh_some in H. subst o.
  intros x y. unfold pix_in. cbn [ix iy iw ih]. lia.
Qed.

(* the canvas itself, seen from a layer that starts 2.5 canvases to the left, is where it should be *)
Example nested_bounds_far_left :
  layer_child_max {| ix := -200; iy := -200; iw := 500; ih := 500 |} {| ix := -250; iy := 10; iw := 400; ih := 50 |}
  = {| ix := 50; iy := -210; iw := 500; ih := 500 |}.
Proof. vm_compute. reflexivity. Qed.
