(* C08: every id is prefixed exactly once, and every written reference reads back as the written definition id. *)
From RV Require Import Gen.IdSites.
From RV Require Import Model.RoundTrip.
From Coq Require Import String List Bool Ascii.
Import ListNotations.
Local Open Scope string_scope.

Lemma idtok_eqb_eq : forall a b, idtok_eqb a b = true -> a = b.
Proof.
  intros [| |s] [| |t] H; simpl in H; try discriminate; try reflexivity.
  apply String.eqb_eq in H. now subst.
Qed.

Lemma toks_eqb_eq : forall l m, toks_eqb l m = true -> l = m.
Proof.
  induction l as [|a r IH]; intros [|b s] H; simpl in H; try discriminate; try reflexivity.
  apply andb_true_iff in H as [H1 H2]. apply idtok_eqb_eq in H1. apply IH in H2. now subst.
Qed.

Lemma app_nil_r_s : forall s : string, s ++ "" = s.
Proof. induction s; simpl; congruence. Qed.

Lemma app_assoc_s : forall a b c : string, (a ++ b) ++ c = a ++ b ++ c.
Proof. induction a; simpl; intros; congruence. Qed.

Lemma emit_canon : forall k prefix id, emit prefix id (canon k) = expected k prefix id.
Proof.
  intros [] prefix id; simpl; rewrite ?app_nil_r_s; reflexivity.
Qed.

Lemma all_sites_ok : chk_id_sites = true.
Proof. vm_compute. reflexivity. Qed.

(* every id write site and every reference write site of writer.rs, for every prefix and every id *)
Lemma id_sites_prefixed_once : forall lab k toks,
  In (lab, k, toks) id_sites -> forall prefix id, emit prefix id toks = expected k prefix id.
Proof.
  intros lab k toks HI prefix id.
  pose proof all_sites_ok as H. unfold chk_id_sites in H. rewrite forallb_forall in H.
  specialize (H _ HI). unfold site_ok in H. simpl in H. apply toks_eqb_eq in H. subst toks.
  apply emit_canon.
Qed.

Lemma strip_app : forall p s, strip p (p ++ s) = Some s.
Proof. induction p as [|c p IH]; intros s; simpl; [reflexivity|]. rewrite Ascii.eqb_refl. apply IH. Qed.

Lemma clean_app : forall a b, clean (a ++ b) = clean a && clean b.
Proof. induction a as [|c a IH]; intros b; simpl; [reflexivity|]. rewrite IH. apply andb_assoc. Qed.

Lemma take_iri_clean : forall s, clean s = true -> take_iri (s ++ ")") = s.
Proof.
  induction s as [|c s IH]; simpl; intros H; [reflexivity|].
  apply andb_true_iff in H as [H1 H2]. apply negb_true_iff in H1. rewrite H1. now rewrite IH.
Qed.

Lemma parse_func_iri_written : forall x, clean x = true -> parse_func_iri ("url(#" ++ x ++ ")") = Some x.
Proof. intros x H. unfold parse_func_iri. rewrite strip_app. simpl. now rewrite take_iri_clean. Qed.

Lemma parse_href_written : forall x, parse_href ("#" ++ x) = Some x.
Proof. intros x. unfold parse_href. apply strip_app. Qed.

Lemma expected_iri : forall prefix id, expected SIri prefix id = "url(#" ++ (prefix ++ id) ++ ")".
Proof. intros. unfold expected. now rewrite app_assoc_s. Qed.

(* what the parser extracts from a written reference is the written definition id of the same element
   (for url(#..): as long as prefix and id hold no space and no `)` - class prefix-breaks-url otherwise) *)
Lemma refs_resolve : forall lr kr tr ld td,
  In (lr, kr, tr) id_sites -> kr <> SDef -> In (ld, SDef, td) id_sites ->
  forall prefix id, clean (prefix ++ id) = true ->
  link_target kr (emit prefix id tr) = Some (emit prefix id td).
Proof.
  intros lr kr tr ld td Hr Hk Hd prefix id Hc.
  rewrite (id_sites_prefixed_once _ _ _ Hr), (id_sites_prefixed_once _ _ _ Hd).
  destruct kr; [congruence| |]; unfold link_target.
  - rewrite expected_iri. now apply parse_func_iri_written.
  - apply parse_href_written.
Qed.

(* href references need no side condition *)
Lemma href_resolves : forall lr tr ld td,
  In (lr, SHref, tr) id_sites -> In (ld, SDef, td) id_sites ->
  forall prefix id, parse_href (emit prefix id tr) = Some (emit prefix id td).
Proof.
  intros lr tr ld td Hr Hd prefix id.
  rewrite (id_sites_prefixed_once _ _ _ Hr), (id_sites_prefixed_once _ _ _ Hd).
  apply parse_href_written.
Qed.

Lemma app_inv_head_s : forall p x y : string, p ++ x = p ++ y -> x = y.
Proof. induction p as [|c p IH]; simpl; intros x y H; [exact H|]. inversion H. auto. Qed.

(* two elements get the same written id only if they had the same id in the tree *)
Lemma written_ids_injective : forall l1 t1 l2 t2,
  In (l1, SDef, t1) id_sites -> In (l2, SDef, t2) id_sites ->
  forall prefix i j, emit prefix i t1 = emit prefix j t2 -> i = j.
Proof.
  intros l1 t1 l2 t2 H1 H2 prefix i j E.
  rewrite (id_sites_prefixed_once _ _ _ H1), (id_sites_prefixed_once _ _ _ H2) in E. simpl in E.
  eapply app_inv_head_s; eauto.
Qed.

(* without a prefix (id_prefix = None) write_id_attribute writes the id itself *)
Lemma no_prefix_branch : forall id, emit "" id id_attr_no_prefix = id.
Proof. intros id. vm_compute id_attr_no_prefix. simpl. apply app_nil_r_s. Qed.
