(* Validity (every colour channel <= alpha) of everything that ends in the multiply_alpha pass:
   into_srgb, into_linear_rgb, apply_color_matrix, apply_component_transfer, apply_turbulence -
   whatever the input pixel and whatever the kernel parameters. *)
From RV Require Import Model.F32.
From RV Require Import Gen.PixelTables.
From RV Require Import Model.Pixel.
From RV Require Import Proofs.PixelBase.
From RV Require Import Proofs.PixelMulValid.
Local Open Scope Z_scope.

Lemma px_multiply_valid : forall p, byte_px p -> valid_px (px_multiply p).
Proof.
  intros p (Hr & Hg & Hb & Ha). unfold valid_px, px_multiply. cbn [pr pg pb pa].
  pose proof (mul_alpha_le_alpha (pr p) (pa p) Hr Ha).
  pose proof (mul_alpha_le_alpha (pg p) (pa p) Hg Ha).
  pose proof (mul_alpha_le_alpha (pb p) (pa p) Hb Ha).
  unfold mul_alpha in *. auto.
Qed.

Lemma run_steps_app : forall k l1 l2 p, run_steps k (l1 ++ l2) p = run_steps k l2 (run_steps k l1 p).
Proof. intros. unfold run_steps. apply fold_left_app. Qed.

(* a pass list whose LAST pass is multiply_alpha produces valid premultiplied pixels *)
Lemma valid_if_last_mul : forall k, (forall q, byte_px q -> byte_px (k q)) ->
  forall steps p, last steps StDemul = StMul -> byte_px p ->
  valid_px (run_steps k steps p) /\ byte_px (run_steps k steps p).
Proof.
  intros k Hk steps p Hl Hp. split; [|apply run_steps_byte; assumption].
  destruct steps as [|s r]; [discriminate Hl|].
  rewrite (app_removelast_last StDemul (l := s :: r)) by discriminate.
  rewrite Hl, run_steps_app. unfold run_steps at 1. cbn [fold_left run_step].
  apply px_multiply_valid. apply run_steps_byte; assumption.
Qed.

Lemma id_byte : forall q : px, byte_px q -> byte_px ((fun p => p) q).
Proof. auto. Qed.

Lemma into_srgb_valid : forall p, byte_px p -> valid_px (px_into_srgb p) /\ byte_px (px_into_srgb p).
Proof. intros p Hp. unfold px_into_srgb. apply valid_if_last_mul; [apply id_byte|reflexivity|exact Hp]. Qed.
Lemma into_linear_valid : forall p, byte_px p -> valid_px (px_into_linear p) /\ byte_px (px_into_linear p).
Proof. intros p Hp. unfold px_into_linear. apply valid_if_last_mul; [apply id_byte|reflexivity|exact Hp]. Qed.
Lemma color_matrix_valid : forall k p, byte_px p ->
  valid_px (px_color_matrix k p) /\ byte_px (px_color_matrix k p).
Proof. intros k p Hp. unfold px_color_matrix. apply valid_if_last_mul; [apply cm_kernel_byte|reflexivity|exact Hp]. Qed.
Lemma component_transfer_valid : forall fs p, byte_px p ->
  valid_px (px_component_transfer fs p) /\ byte_px (px_component_transfer fs p).
Proof. intros fs p Hp. unfold px_component_transfer. apply valid_if_last_mul; [apply ct_kernel_byte|reflexivity|exact Hp]. Qed.
(* the noise generator is not modelled: any byte-valued generator followed by the source's pass list *)
Lemma turbulence_valid : forall noise, (forall q, byte_px q -> byte_px (noise q)) -> forall p, byte_px p ->
  valid_px (run_steps noise apply_turbulence_steps p).
Proof. intros k Hk p Hp. apply valid_if_last_mul; [exact Hk|reflexivity|exact Hp]. Qed.
