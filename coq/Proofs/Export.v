(* C19 lemmas about Model/Export.v. *)
From Coq Require Import String.
From RV Require Import Model.Base Model.BBox Model.Export Proofs.BBox.
Local Open Scope Q_scope.

(* ------------------------------------------------------------------ None only for zero-sized nodes *)
Theorem none_iff_zero n tr :
  (render_node_ts n tr = None <-> abs_layer_bounding_box n = None) /\
  (abs_layer_bounding_box n = None <->
     match n with
     | EGroup _ _ _ _ _ => False
     | ELeaf _ _ b => ~ (bx0 b < bx1 b /\ by0 b < by1 b)
     end).
Proof.
  split.
  - unfold render_node_ts. destruct (abs_layer_bounding_box n); split; intros H; try discriminate; reflexivity.
  - destruct n as [i t a l ch|i a b]; cbn.
    + split; [discriminate | contradiction].
    + unfold box_nonzero. split.
      * intros H [H1 H2]. apply Qltb_true in H1, H2. rewrite H1, H2 in H. discriminate.
      * intros H. destruct (Qltb (bx0 b) (bx1 b)) eqn:E1; [|reflexivity].
        destruct (Qltb (by0 b) (by1 b)) eqn:E2; [|reflexivity].
        exfalso. apply H. split; apply Qltb_true; assumption.
Qed.

(* ------------------------------------------------------------------ transforms *)
Lemma ts_concat_assoc a b c : ts_eq (ts_concat (ts_concat a b) c) (ts_concat a (ts_concat b c)).
Proof. unfold ts_eq, ts_concat, from_row. cbn. repeat split; ring. Qed.

Lemma ts_concat_proper a a' b b' : ts_eq a a' -> ts_eq b b' -> ts_eq (ts_concat a b) (ts_concat a' b').
Proof.
  unfold ts_eq, ts_concat, from_row. cbn. intros (A1&A2&A3&A4&A5&A6) (B1&B2&B3&B4&B5&B6).
  rewrite A1, A2, A3, A4, A5, A6, B1, B2, B3, B4, B5, B6. repeat split; reflexivity.
Qed.
Lemma ts_eq_refl a : ts_eq a a.
Proof. repeat split; reflexivity. Qed.

Lemma ts_invert_left t i : ts_invert t = Some i -> ts_eq (ts_concat i t) ts_identity.
Proof.
  unfold ts_invert. destruct (Qeqb (e_det t) 0) eqn:E; [discriminate|]. intros H. inversion H; subst; clear H.
  assert (Hd : ~ e_det t == 0). { intros Hd. apply Qeqb_true in Hd. congruence. }
  unfold e_det in *. unfold ts_eq, ts_concat, from_row, ts_identity. cbn. repeat split; field; exact Hd.
Qed.

Theorem export_transform n tr c :
  content_ts n tr = Some c ->
  match n with EGroup _ t _ _ _ => ts_invert t <> None | ELeaf _ _ _ => True end ->
  exists e, expected_content_ts n tr = Some e /\ ts_eq c e.
Proof.
  unfold content_ts, expected_content_ts, render_node_ts.
  destruct (abs_layer_bounding_box n) as [b|]; [|discriminate].
  intros H Hinv. inversion H; subst; clear H. eexists. split; [reflexivity|].
  destruct n as [i t a l ch|i a bb]; cbn [parent_ts eabs].
  - destruct (ts_invert t) as [inv|] eqn:Ei; [|contradiction Hinv; reflexivity].
    set (w := ts_concat tr (from_translate (- bx0 b) (- by0 b))).
    eapply ts_eq_trans; [apply ts_concat_assoc|]. apply ts_concat_proper; [apply ts_eq_refl|].
    eapply ts_eq_trans; [apply ts_concat_assoc|].
    apply ts_concat_id_r. apply ts_invert_left. exact Ei.
  - apply ts_eq_refl.
Qed.

(* the same as a statement about points: a point of the node lands where the full rendering puts it, moved by the
   origin of the node's absolute layer box, then mapped by the export transform *)
Theorem export_point n tr e b x y :
  expected_content_ts n tr = Some e -> abs_layer_bounding_box n = Some b ->
  map_x e x y == map_x tr (map_x (eabs n) x y - bx0 b) (map_y (eabs n) x y - by0 b) /\
  map_y e x y == map_y tr (map_x (eabs n) x y - bx0 b) (map_y (eabs n) x y - by0 b).
Proof.
  unfold expected_content_ts. intros H Hb. rewrite Hb in H. inversion H; subst; clear H.
  unfold map_x, map_y, ts_concat, from_translate, from_row. cbn. split; ring.
Qed.

(* the absolute layer box itself is moved to the origin of the canvas *)
Theorem export_box_origin tr b x y :
  map_x (ts_concat tr (from_translate (- bx0 b) (- by0 b))) x y == map_x tr (x - bx0 b) (y - by0 b) /\
  map_y (ts_concat tr (from_translate (- bx0 b) (- by0 b))) x y == map_y tr (x - bx0 b) (y - by0 b).
Proof. unfold map_x, map_y, ts_concat, from_translate, from_row. cbn. split; ring. Qed.

(* ------------------------------------------------------------------ node_by_id *)
Lemma nbi_group id i t a l ch :
  nbi id (EGroup i t a l ch) =
  (fix go (l : list enode) : option enode :=
     match l with
     | [] => None
     | c :: r => if String.eqb (eid c) id then Some c else match nbi id c with Some x => Some x | None => go r end
     end) ch.
Proof. reflexivity. Qed.

(* result = the first node in pre-order (below the root) that carries the id *)
Theorem nbi_first : forall id n, nbi id n = find (fun c => String.eqb (eid c) id) (descendants n).
Proof.
  intros id. fix IH 1. intros [i t a l ch|i a b]; [|reflexivity].
  rewrite nbi_group. cbn [descendants].
  induction ch as [|c r IHr]; [reflexivity|].
  cbn [flat_map]. rewrite <- app_comm_cons. cbn [find].
  destruct (String.eqb (eid c) id) eqn:E; [reflexivity|].
  rewrite (IH c).
  assert (Happ : forall (l1 l2 : list enode) f, find f (l1 ++ l2) = match find f l1 with Some x => Some x | None => find f l2 end).
  { intros l1 l2 f. induction l1 as [|x l1 IHl]; [reflexivity|]. cbn. destruct (f x); [reflexivity | exact IHl]. }
  rewrite Happ. destruct (find _ (descendants c)); [reflexivity | exact IHr].
Qed.

Theorem node_by_id_sound root id n :
  node_by_id root id = Some n -> id <> ""%string /\ In n (descendants root) /\ eid n = id.
Proof.
  unfold node_by_id. destruct (String.eqb id "") eqn:E; [discriminate|].
  rewrite nbi_first. intros H. apply find_some in H. destruct H as [Hin He].
  apply String.eqb_neq in E. apply String.eqb_eq in He. auto.
Qed.

Theorem node_by_id_complete root id :
  id <> ""%string -> (exists n, In n (descendants root) /\ eid n = id) -> exists n, node_by_id root id = Some n.
Proof.
  intros Hne (n & Hin & He). unfold node_by_id.
  apply String.eqb_neq in Hne. rewrite Hne. rewrite nbi_first.
  destruct (find (fun c => String.eqb (eid c) id) (descendants root)) as [x|] eqn:F; [eauto|].
  exfalso. apply (find_none _ _ F) in Hin. apply String.eqb_neq in Hin. contradiction.
Qed.

Theorem node_by_id_none root id :
  node_by_id root id = None <-> id = ""%string \/ forall n, In n (descendants root) -> eid n <> id.
Proof.
  unfold node_by_id. destruct (String.eqb id "") eqn:E.
  - apply String.eqb_eq in E. split; auto.
  - apply String.eqb_neq in E. rewrite nbi_first. split.
    + intros F. right. intros n Hin. apply (find_none _ _ F) in Hin. apply String.eqb_neq. exact Hin.
    + intros [H|H]; [contradiction|].
      destruct (find (fun c => String.eqb (eid c) id) (descendants root)) as [x|] eqn:F; [|reflexivity].
      apply find_some in F. destruct F as [Hin He]. apply String.eqb_eq in He. exfalso. exact (H x Hin He).
Qed.

(* ------------------------------------------------------------------ export = the node's own draw list, moved *)
Lemma draws_eq_refl l : draws_eq l l.
Proof. induction l as [|[t p] r IH]; cbn; [exact I|]. split; [apply ts_eq_refl | split; [reflexivity | exact IH]]. Qed.
Lemma draws_eq_app a a' b b' : draws_eq a a' -> draws_eq b b' -> draws_eq (a ++ b) (a' ++ b').
Proof.
  revert a'. induction a as [|[t p] r IH]; intros [|[t' p'] r'] H Hb; cbn in *; try contradiction; [exact Hb|].
  destruct H as (A & B & C). split; [exact A | split; [exact B | apply IH; assumption]].
Qed.

Lemma dnode_ind2 (P : dnode -> Prop) :
  (forall p, P (DLeaf p)) -> (forall t ch, Forall P ch -> P (DGroup t ch)) -> forall n, P n.
Proof.
  intros HL HG. fix IH 1. intros [p|t ch]; [apply HL | apply HG].
  induction ch as [|x r IHr]; constructor; [apply IH | exact IHr].
Qed.

(* draw lists only depend on the start transform up to equality of the matrices ... *)
Lemma draws_proper : forall n c c', ts_eq c c' -> draws_eq (draws c n) (draws c' n).
Proof.
  induction n as [p|t ch IH] using dnode_ind2; intros c c' Hc; cbn [draws].
  - cbn. split; [exact Hc | split; [reflexivity | exact I]].
  - assert (Hct : ts_eq (ts_concat c t) (ts_concat c' t)) by (apply ts_concat_proper; [exact Hc | apply ts_eq_refl]).
    induction ch as [|x r IHr]; cbn [flat_map]; [exact I|].
    inversion IH; subst. apply draws_eq_app; [apply H1; exact Hct | apply IHr; assumption].
Qed.

(* ... and prefixing the start transform by X prefixes every drawn transform by X *)
Fixpoint prefix_draws (x : ts) (l : list (ts * N)) : list (ts * N) :=
  match l with [] => [] | (t, p) :: r => (ts_concat x t, p) :: prefix_draws x r end.
Lemma prefix_draws_app x a b : prefix_draws x (a ++ b) = prefix_draws x a ++ prefix_draws x b.
Proof. induction a as [|[t p] r IH]; cbn; [reflexivity|]. rewrite IH. reflexivity. Qed.

Lemma draws_prefix : forall n x c, draws_eq (draws (ts_concat x c) n) (prefix_draws x (draws c n)).
Proof.
  induction n as [p|t ch IH] using dnode_ind2; intros x c; cbn [draws].
  - cbn. split; [apply ts_eq_refl | split; [reflexivity | exact I]].
  - induction ch as [|y r IHr]; cbn [flat_map]; [exact I|].
    inversion IH; subst. rewrite prefix_draws_app. apply draws_eq_app; [|apply IHr; assumption].
    (* draws ((x*c)*t) y  ~  draws (x*(c*t)) y  ~  prefix x (draws (c*t) y) *)
    assert (E1 := draws_proper y _ _ (ts_concat_assoc x c t)).
    assert (E2 := H1 x (ts_concat c t)).
    clear - E1 E2. revert E1 E2.
    generalize (draws (ts_concat (ts_concat x c) t) y) (draws (ts_concat x (ts_concat c t)) y) (prefix_draws x (draws (ts_concat c t) y)).
    intros l1. induction l1 as [|[t1 p1] r1 IHl]; intros [|[t2 p2] r2] [|[t3 p3] r3] A B; cbn in *; try contradiction; [exact I|].
    destruct A as (A1 & A2 & A3), B as (B1 & B2 & B3). split; [eapply ts_eq_trans; eassumption | split; [congruence | eapply IHl; eassumption]].
Qed.

(* Refinement: when parent_ts is the product of the ancestors' transforms (C12_abs_transform_product + export_transform's
   parent_ts), the export draws exactly the draw list of the node in the full rendering - same leaves, same order - with
   every transform prefixed by  tr * translate(-layer box origin): the export is the node's part of the full rendering seen
   through the window of its layer box, up to the rasteriser. *)
Theorem export_draws_refines tr b parent anc n :
  ts_eq parent anc ->
  draws_eq (export_draws tr b parent n)
           (prefix_draws (ts_concat tr (from_translate (- bx0 b) (- by0 b))) (full_draws anc n)).
Proof.
  intros Hp. unfold export_draws, full_draws.
  set (w := ts_concat tr (from_translate (- bx0 b) (- by0 b))).
  assert (E1 := draws_proper n (ts_concat w parent) (ts_concat w anc) (ts_concat_proper _ _ _ _ (ts_eq_refl w) Hp)).
  assert (E2 := draws_prefix n w anc).
  revert E1 E2.
  generalize (draws (ts_concat w parent) n) (draws (ts_concat w anc) n) (prefix_draws w (draws anc n)).
  intros l1. induction l1 as [|[t1 p1] r1 IHl]; intros [|[t2 p2] r2] [|[t3 p3] r3] A B; cbn in *; try contradiction; [exact I|].
  destruct A as (A1 & A2 & A3), B as (B1 & B2 & B3). split; [eapply ts_eq_trans; eassumption | split; [congruence | eapply IHl; eassumption]].
Qed.

(* the transform render_node reconstructs for the ancestors IS their product when abs_transform is the product *)
Lemma ts_invert_right t i : ts_invert t = Some i -> ts_eq (ts_concat t i) ts_identity.
Proof.
  unfold ts_invert. destruct (Qeqb (e_det t) 0) eqn:E; [discriminate|]. intros H. inversion H; subst; clear H.
  assert (Hd : ~ e_det t == 0). { intros Hd. apply Qeqb_true in Hd. congruence. }
  unfold e_det in *. unfold ts_eq, ts_concat, from_row, ts_identity. cbn. repeat split; field; exact Hd.
Qed.

Theorem parent_ts_is_ancestors n anc :
  match n with
  | EGroup _ t a _ _ => ts_invert t <> None /\ ts_eq a (ts_concat anc t)
  | ELeaf _ a _ => ts_eq a anc
  end -> ts_eq (parent_ts n) anc.
Proof.
  destruct n as [i t a l ch|i a b]; cbn [parent_ts]; [|tauto].
  intros [Hinv Ha]. destruct (ts_invert t) as [inv|] eqn:Ei; [|contradiction Hinv; reflexivity].
  eapply ts_eq_trans; [apply ts_concat_proper; [exact Ha | apply ts_eq_refl]|].
  eapply ts_eq_trans; [apply ts_concat_assoc|]. apply ts_concat_id_r. apply ts_invert_right. exact Ei.
Qed.

(* ------------------------------------------------------------------ extension round 4: node_by_id never looks into sub-trees *)
Lemma f_erase_id n : eid (f_erase n) = fid n.
Proof. destruct n; reflexivity. Qed.

Theorem f_nbi_erase : forall id n, option_map f_erase (f_nbi id n) = nbi id (f_erase n).
Proof.
  fix IH 2. intros id [i t a l subs ch|i a b subs]; [|reflexivity].
  cbn [f_erase]. rewrite nbi_group. cbn [f_nbi].
  induction ch as [|c r IHr]; [reflexivity|].
  cbn [map]. rewrite f_erase_id. destruct (String.eqb (fid c) id); [reflexivity|].
  rewrite <- (IH id c). destruct (f_nbi id c); [reflexivity|]. cbn [option_map]. exact IHr.
Qed.

(* lookup by id on the forest = lookup on the renderable tree; it answers None exactly when the id is empty or no RENDERABLE
   node carries it - ids carried by nodes of clip-path / mask / pattern sub-trees do not matter *)
Theorem f_node_by_id_erase root id : option_map f_erase (f_node_by_id root id) = node_by_id (f_erase root) id.
Proof. unfold f_node_by_id, node_by_id. destruct (String.eqb id ""); [reflexivity|]. apply f_nbi_erase. Qed.

Theorem f_node_by_id_none root id :
  f_node_by_id root id = None <-> id = ""%string \/ forall n, In n (descendants (f_erase root)) -> eid n <> id.
Proof.
  rewrite <- node_by_id_none, <- f_node_by_id_erase. destruct (f_node_by_id root id); cbn; split; congruence.
Qed.

Theorem f_node_by_id_renderable root id x :
  f_node_by_id root id = Some x -> id <> ""%string /\ In (f_erase x) (descendants (f_erase root)) /\ fid x = id.
Proof.
  intros H. assert (H' : node_by_id (f_erase root) id = Some (f_erase x)) by (rewrite <- f_node_by_id_erase, H; reflexivity).
  apply node_by_id_sound in H'. rewrite f_erase_id in H'. exact H'.
Qed.
