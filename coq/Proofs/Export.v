(* C19 lemmas about Model/Export.v. *)
From Coq Require Import String.
From RV Require Import Model.Base Model.BBox Model.Export Proofs.BBox.
Local Open Scope Q_scope.

(* ------------------------------------------------------------------ None only for zero-sized nodes *)
Theorem none_iff_zero n tr :
  (render_node_ts n tr = None <-> abs_layer_bounding_box n = None) /\
  (abs_layer_bounding_box n = None <->
     match n with
     | EGroup _ _ _ _ _ => False
     | ELeaf _ _ b => ~ (bx0 b < bx1 b /\ by0 b < by1 b)
     end).
Proof.
  split.
  - unfold render_node_ts. destruct (abs_layer_bounding_box n); split; intros H; try discriminate; reflexivity.
  - destruct n as [i t a l ch|i a b]; cbn.
    + split; [discriminate | contradiction].
    + unfold box_nonzero. split.
      * intros H [H1 H2]. apply Qltb_true in H1, H2. rewrite H1, H2 in H. discriminate.
      * intros H. destruct (Qltb (bx0 b) (bx1 b)) eqn:E1; [|reflexivity].
        destruct (Qltb (by0 b) (by1 b)) eqn:E2; [|reflexivity].
        exfalso. apply H. split; apply Qltb_true; assumption.
Qed.

(* ------------------------------------------------------------------ transforms *)
Lemma ts_concat_assoc a b c : ts_eq (ts_concat (ts_concat a b) c) (ts_concat a (ts_concat b c)).
Proof. unfold ts_eq, ts_concat, from_row. cbn. repeat split; ring. Qed.

Lemma ts_concat_proper a a' b b' : ts_eq a a' -> ts_eq b b' -> ts_eq (ts_concat a b) (ts_concat a' b').
Proof.
  unfold ts_eq, ts_concat, from_row. cbn. intros (A1&A2&A3&A4&A5&A6) (B1&B2&B3&B4&B5&B6).
  rewrite A1, A2, A3, A4, A5, A6, B1, B2, B3, B4, B5, B6. repeat split; reflexivity.
Qed.
Lemma ts_eq_refl a : ts_eq a a.
Proof. repeat split; reflexivity. Qed.

Lemma ts_invert_left t i : ts_invert t = Some i -> ts_eq (ts_concat i t) ts_identity.
Proof.
  unfold ts_invert. destruct (Qeqb (e_det t) 0) eqn:E; [discriminate|]. intros H. inversion H; subst; clear H.
  assert (Hd : ~ e_det t == 0). { intros Hd. apply Qeqb_true in Hd. congruence. }
  unfold e_det in *. unfold ts_eq, ts_concat, from_row, ts_identity. cbn. repeat split; field; exact Hd.
Qed.

Theorem export_transform n tr c :
  content_ts n tr = Some c ->
  match n with EGroup _ t _ _ _ => ts_invert t <> None | ELeaf _ _ _ => True end ->
  exists e, expected_content_ts n tr = Some e /\ ts_eq c e.
Proof.
  unfold content_ts, expected_content_ts, render_node_ts.
  destruct (abs_layer_bounding_box n) as [b|]; [|discriminate].
  intros H Hinv. inversion H; subst; clear H. eexists. split; [reflexivity|].
  destruct n as [i t a l ch|i a bb]; cbn [parent_ts eabs].
  - destruct (ts_invert t) as [inv|] eqn:Ei; [|contradiction Hinv; reflexivity].
    set (w := ts_concat tr (from_translate (- bx0 b) (- by0 b))).
    eapply ts_eq_trans; [apply ts_concat_assoc|]. apply ts_concat_proper; [apply ts_eq_refl|].
    eapply ts_eq_trans; [apply ts_concat_assoc|].
    apply ts_concat_id_r. apply ts_invert_left. exact Ei.
  - apply ts_eq_refl.
Qed.

(* the same as a statement about points: a point of the node lands where the full rendering puts it, moved by the
   origin of the node's absolute layer box, then mapped by the export transform *)
Theorem export_point n tr e b x y :
  expected_content_ts n tr = Some e -> abs_layer_bounding_box n = Some b ->
  map_x e x y == map_x tr (map_x (eabs n) x y - bx0 b) (map_y (eabs n) x y - by0 b) /\
  map_y e x y == map_y tr (map_x (eabs n) x y - bx0 b) (map_y (eabs n) x y - by0 b).
Proof.
  unfold expected_content_ts. intros H Hb. rewrite Hb in H. inversion H; subst; clear H.
  unfold map_x, map_y, ts_concat, from_translate, from_row. cbn. split; ring.
Qed.

(* the absolute layer box itself is moved to the origin of the canvas *)
Theorem export_box_origin tr b x y :
  map_x (ts_concat tr (from_translate (- bx0 b) (- by0 b))) x y == map_x tr (x - bx0 b) (y - by0 b) /\
  map_y (ts_concat tr (from_translate (- bx0 b) (- by0 b))) x y == map_y tr (x - bx0 b) (y - by0 b).
Proof. unfold map_x, map_y, ts_concat, from_translate, from_row. cbn. split; ring. Qed.

(* ------------------------------------------------------------------ node_by_id *)
Lemma nbi_group id i t a l ch :
  nbi id (EGroup i t a l ch) =
  (fix go (l : list enode) : option enode :=
     match l with
     | [] => None
     | c :: r => if String.eqb (eid c) id then Some c else match nbi id c with Some x => Some x | None => go r end
     end) ch.
Proof. reflexivity. Qed.

(* result = the first node in pre-order (below the root) that carries the id *)
Theorem nbi_first : forall id n, nbi id n = find (fun c => String.eqb (eid c) id) (descendants n).
Proof.
  intros id. fix IH 1. intros [i t a l ch|i a b]; [|reflexivity].
  rewrite nbi_group. cbn [descendants].
  induction ch as [|c r IHr]; [reflexivity|].
  cbn [flat_map]. rewrite <- app_comm_cons. cbn [find].
  destruct (String.eqb (eid c) id) eqn:E; [reflexivity|].
  rewrite (IH c).
  assert (Happ : forall (l1 l2 : list enode) f, find f (l1 ++ l2) = match find f l1 with Some x => Some x | None => find f l2 end).
  { intros l1 l2 f. induction l1 as [|x l1 IHl]; [reflexivity|]. cbn. destruct (f x); [reflexivity | exact IHl]. }
  rewrite Happ. destruct (find _ (descendants c)); [reflexivity | exact IHr].
Qed.

Theorem node_by_id_sound root id n :
  node_by_id root id = Some n -> id <> ""%string /\ In n (descendants root) /\ eid n = id.
Proof.
  unfold node_by_id. destruct (String.eqb id "") eqn:E; [discriminate|].
  rewrite nbi_first. intros H. apply find_some in H. destruct H as [Hin He].
  apply String.eqb_neq in E. apply String.eqb_eq in He. auto.
Qed.

Theorem node_by_id_complete root id :
  id <> ""%string -> (exists n, In n (descendants root) /\ eid n = id) -> exists n, node_by_id root id = Some n.
Proof.
  intros Hne (n & Hin & He). unfold node_by_id.
  apply String.eqb_neq in Hne. rewrite Hne. rewrite nbi_first.
  destruct (find (fun c => String.eqb (eid c) id) (descendants root)) as [x|] eqn:F; [eauto|].
  exfalso. apply (find_none _ _ F) in Hin. apply String.eqb_neq in Hin. contradiction.
Qed.

Theorem node_by_id_none root id :
  node_by_id root id = None <-> id = ""%string \/ forall n, In n (descendants root) -> eid n <> id.
Proof.
  unfold node_by_id. destruct (String.eqb id "") eqn:E.
  - apply String.eqb_eq in E. split; auto.
  - apply String.eqb_neq in E. rewrite nbi_first. split.
    + intros F. right. intros n Hin. apply (find_none _ _ F) in Hin. apply String.eqb_neq. exact Hin.
    + intros [H|H]; [contradiction|].
      destruct (find (fun c => String.eqb (eid c) id) (descendants root)) as [x|] eqn:F; [|reflexivity].
      apply find_some in F. destruct F as [Hin He]. apply String.eqb_eq in He. exfalso. exact (H x Hin He).
Qed.
