(* C08 corollary of C05's collection theorems (Proofs/Collect.v, read-only) and C07's writer model (Model/Writer.v, read-only):
   every definition reachable from the root - through ANY chain (mask -> mask, clip -> clip), from inside pattern content, feImage
   sub-trees, mask / clip content, nested images or flattened text (reach_* enumerate all of that, no depth bound) - is written
   into <defs> by write_defs, and its collection holds it exactly once. *)
From RV Require Import Model.Tree.
From RV Require Import Model.Writer.
From RV Require Import Proofs.Tree.
From RV Require Import Proofs.Collect.
From Coq Require Import NArith List Bool.
Import ListNotations.
Local Open Scope N_scope.

Lemma once {X} (f : X -> N) (l : list X) (x : N) :
  NoDup (map f l) -> In x (map f l) ->
  count_occ N.eq_dec (map f l) x = 1%nat /\ exists d, In d l /\ f d = x.
Proof.
  intros ND HI. split; [apply NoDup_count_occ'; assumption|].
  apply in_map_iff in HI. destruct HI as (d & E & I). exists d. split; assumption.
Qed.

Section Once.
  Variable o : wopts.
  Variable root : group.
  Let t := with_collections root.

  Lemma mask_written_once m :
    In m (reach_masks root) ->
    count_occ N.eq_dec (map m_ptr (t_masks t)) (m_ptr m) = 1%nat /\
    exists m', m_ptr m' = m_ptr m /\ In m' (t_masks t) /\ In (write_mask o m') (write_defs o t).
  Proof.
    intros H. pose proof (with_collections_complete root) as (_ & C & _).
    pose proof (with_collections_nodup root) as (_ & _ & _ & _ & N & _).
    destruct (once m_ptr _ _ N (C m H)) as (K & m' & I & E). split; [exact K|].
    exists m'. repeat split; auto. unfold write_defs. rewrite !in_app_iff. auto 12 using in_map.
  Qed.

  Lemma clip_written_once c :
    In c (reach_clips root) ->
    count_occ N.eq_dec (map c_ptr (t_clips t)) (c_ptr c) = 1%nat /\
    exists c', c_ptr c' = c_ptr c /\ In c' (t_clips t) /\ In (write_clip o c') (write_defs o t).
  Proof.
    intros H. pose proof (with_collections_complete root) as (C & _).
    pose proof (with_collections_nodup root) as (_ & _ & _ & N & _).
    destruct (once c_ptr _ _ N (C c H)) as (K & c' & I & E). split; [exact K|].
    exists c'. repeat split; auto. unfold write_defs. rewrite !in_app_iff. auto 12 using in_map.
  Qed.

  Lemma filter_collected_once f :
    In f (reach_filters root) ->
    count_occ N.eq_dec (map f_ptr (t_filts t)) (f_ptr f) = 1%nat /\ exists f', f_ptr f' = f_ptr f /\ In f' (t_filts t).
  Proof.
    intros H. pose proof (with_collections_complete root) as (_ & _ & C & _).
    pose proof (with_collections_nodup root) as (_ & _ & _ & _ & _ & N).
    destruct (once f_ptr _ _ N (C f H)) as (K & f' & I & E). split; [exact K|]. exists f'. split; auto.
  Qed.

  Lemma pattern_written_once p :
    In p (reach_paints root) -> is_pat p = true ->
    count_occ N.eq_dec (map pa_ptr (t_pats t)) (pa_ptr p) = 1%nat /\
    exists p', pa_ptr p' = pa_ptr p /\ In p' (t_pats t) /\ In (write_pat o p') (write_defs o t).
  Proof.
    intros H Hp. pose proof (with_collections_complete root) as (_ & _ & _ & C).
    pose proof (with_collections_nodup root) as (_ & _ & N & _).
    destruct (C p H) as (_ & _ & Cp).
    destruct (once pa_ptr _ _ N (Cp Hp)) as (K & p' & I & E). split; [exact K|].
    exists p'. repeat split; auto. unfold write_defs. rewrite !in_app_iff. auto 12 using in_map.
  Qed.

  Lemma gradient_written_once p :
    In p (reach_paints root) ->
    (is_lin p = true -> count_occ N.eq_dec (map pa_ptr (t_lins t)) (pa_ptr p) = 1%nat /\
        exists p', pa_ptr p' = pa_ptr p /\ In (write_lin o p') (write_defs o t)) /\
    (is_rad p = true -> count_occ N.eq_dec (map pa_ptr (t_rads t)) (pa_ptr p) = 1%nat /\
        exists p', pa_ptr p' = pa_ptr p /\ In (write_rad o p') (write_defs o t)).
  Proof.
    intros H. pose proof (with_collections_complete root) as (_ & _ & _ & C).
    pose proof (with_collections_nodup root) as (N1 & N2 & _).
    destruct (C p H) as (C1 & C2 & _). split; intros Hp.
    - destruct (once pa_ptr _ _ N1 (C1 Hp)) as (K & p' & I & E). split; [exact K|].
      exists p'. split; auto. unfold write_defs. rewrite !in_app_iff. auto 12 using in_map.
    - destruct (once pa_ptr _ _ N2 (C2 Hp)) as (K & p' & I & E). split; [exact K|].
      exists p'. split; auto. unfold write_defs. rewrite !in_app_iff. auto 12 using in_map.
  Qed.

  (* the chains, explicitly: a mask at ANY position of the mask chain of ANY enumerated group (seeded C08-12) *)
  Lemma mask_chain_reached g m0 m :
    In (NGroup g) (all_group root) -> g_mask g = Some m0 -> In m (mask_chain m0) -> In m (reach_masks root).
  Proof.
    intros Hg Hm Hc. unfold reach_masks, reach_defs. apply in_flat_map. exists (NGroup g). split; [exact Hg|].
    simpl. rewrite Hm. exact Hc.
  Qed.
  Lemma clip_chain_reached g c0 c :
    In (NGroup g) (all_group root) -> g_clip g = Some c0 -> In c (clip_chain c0) -> In c (reach_clips root).
  Proof.
    intros Hg Hm Hc. unfold reach_clips, reach_defs. apply in_flat_map. exists (NGroup g). split; [exact Hg|].
    simpl. rewrite Hm. exact Hc.
  Qed.
End Once.
