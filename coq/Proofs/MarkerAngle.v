(* C04, final pass: the marker angle is finite for all finite vertices (parser/marker.rs calc_angle, Gen/LeafMarkerAngle.v). *)
From RV Require Import Model.Base Model.StylePrims Model.MarkerPrims Gen.LeafMarkerAngle.
Local Open Scope Q_scope.

(* a finite value of magnitude at most B *)
Definition bnd (B : Q) (x : xq) : Prop := exists q, x = Fin q /\ - B <= q <= B.
Lemma f32max_val : F32_MAX == 340282346638528859811704183484516925440.
Proof. reflexivity. Qed.
Lemma norm_small q : -1000000 <= q <= 1000000 -> xq_norm q = Fin q.
Proof.
  intros [L U]. unfold xq_norm. pose proof f32max_val as M.
  assert (A : Qltb F32_MAX q = false) by (apply Qltb_false; lra).
  assert (B : Qltb q (- F32_MAX) = false) by (apply Qltb_false; lra). rewrite A, B. reflexivity.
Qed.
Lemma bnd_add A B x y : bnd A x -> bnd B y -> A + B <= 1000000 -> bnd (A + B) (xq_add x y).
Proof.
  intros (p & -> & Hp) (q & -> & Hq) H. simpl. rewrite norm_small by lra. exists (p + q). split; [reflexivity|lra].
Qed.
Lemma bnd_neg A x : bnd A x -> bnd A (xq_neg x).
Proof. intros (p & -> & Hp). exists (- p). split; [reflexivity|lra]. Qed.
Lemma bnd_sub A B x y : bnd A x -> bnd B y -> A + B <= 1000000 -> bnd (A + B) (xq_sub x y).
Proof. intros. unfold xq_sub. apply bnd_add; [assumption|apply bnd_neg; assumption|assumption]. Qed.
Lemma bnd_mulc A c x : bnd A x -> 0 <= c -> 0 <= A -> A * c <= 1000000 -> bnd (A * c) (xq_mul x (Fin c)).
Proof.
  intros (p & -> & Hp) Hc HA H. simpl. rewrite norm_small by nra. exists (p * c). split; [reflexivity|nra].
Qed.
Lemma bnd_weaken A B x : bnd A x -> A <= B -> bnd B x.
Proof. intros (p & -> & Hp) H. exists p. split; [reflexivity|lra]. Qed.
Lemma bnd_abs A x : bnd A x -> bnd A (xq_abs x).
Proof.
  intros (p & -> & Hp). simpl. unfold Qabs_s. destruct (Qleb 0 p) eqn:E.
  - exists p. split; [reflexivity|lra].
  - exists (- p). split; [reflexivity|lra].
Qed.

Section Angle.
  (* the contract of the f32 primitives the source calls: IEEE atan2 is NaN only for a NaN argument and otherwise a finite angle
     of magnitude at most pi (< 4), also for zero and infinite arguments; `%` (fmod) of finite operands with a non-zero divisor is
     finite and not larger in magnitude than the dividend *)
  Variables atan2_fn frem hypot_fn : xq -> xq -> xq.
  Hypothesis atan2_ok : forall a b, xq_is_nan a = false -> xq_is_nan b = false -> bnd 4 (atan2_fn a b).
  Hypothesis frem_ok : forall A a b, - A <= a <= A -> ~ b == 0 -> bnd A (frem (Fin a) (Fin b)).

  Definition TWO_PI : Q := (13176795 # 4194304) * (2 # 1).
  Lemma two_pi : xq_mul F32_PI (Fin (2 # 1)) = Fin TWO_PI.
  Proof. reflexivity. Qed.

  Lemma normalize_bnd A x : bnd A x -> 0 <= A -> A <= 1000 -> bnd (A + 7) (normalize atan2_fn frem hypot_fn x).
  Proof.
    intros Hx HA HA2. unfold normalize. cbv zeta. rewrite two_pi.
    destruct Hx as (p & -> & Hp).
    destruct (frem_ok A p TWO_PI Hp ltac:(unfold TWO_PI; intro K; vm_compute in K; discriminate)) as (r & Er & Hr).
    rewrite Er. destruct (xq_ltb (Fin r) (Fin (0 # 1))).
    - apply (bnd_weaken (A + TWO_PI)); [|unfold TWO_PI; lra].
      apply bnd_add; [exists r; split; [reflexivity|exact Hr]|exists TWO_PI; split; [reflexivity|unfold TWO_PI; lra]|unfold TWO_PI; lra].
    - exists r. split; [reflexivity|lra].
  Qed.

  Lemma vector_angle_bnd vx vy : xq_is_nan vx = false -> xq_is_nan vy = false ->
    bnd 11 (vector_angle atan2_fn frem hypot_fn vx vy).
  Proof.
    intros Hx Hy. unfold vector_angle. cbv zeta.
    destruct (xq_is_nan (atan2_fn vy vx)); [exists 0; split; [reflexivity|lra]|].
    apply (bnd_weaken (4 + 7)); [|lra]. apply normalize_bnd; [apply atan2_ok; assumption|lra|lra].
  Qed.

  Lemma sub_not_nan a b : xq_is_nan (xq_sub (Fin a) (Fin b)) = false.
  Proof. unfold xq_sub. simpl. unfold xq_norm. destruct (Qltb _ _); [reflexivity|]. destruct (Qltb _ _); reflexivity. Qed.

  (* ALL finite vertex coordinates: coincident vertices (zero vectors), differences that overflow f32 to an infinity *)
  Lemma calc_angle_finite x1 y1 x2 y2 x3 y3 x4 y4 :
    bnd 100000 (calc_angle atan2_fn frem hypot_fn (Fin x1) (Fin y1) (Fin x2) (Fin y2) (Fin x3) (Fin y3) (Fin x4) (Fin y4)).
  Proof.
    unfold calc_angle. cbv zeta.
    pose proof (vector_angle_bnd _ _ (sub_not_nan x2 x1) (sub_not_nan y2 y1)) as Hin.
    pose proof (vector_angle_bnd _ _ (sub_not_nan x4 x3) (sub_not_nan y4 y3)) as Hout.
    set (in_a := vector_angle atan2_fn frem hypot_fn (xq_sub (Fin x2) (Fin x1)) (xq_sub (Fin y2) (Fin y1))) in *.
    set (out_a := vector_angle atan2_fn frem hypot_fn (xq_sub (Fin x4) (Fin x3)) (xq_sub (Fin y4) (Fin y3))) in *.
    assert (Hd : bnd 11 (xq_mul (xq_sub out_a in_a) (Fin (1 # 2)))).
    { apply (bnd_weaken ((11 + 11) * (1 # 2))); [|lra]. apply bnd_mulc; [apply bnd_sub; [assumption|assumption|lra]|lra|lra|lra]. }
    set (d := xq_mul (xq_sub out_a in_a) (Fin (1 # 2))) in *.
    assert (Ha : bnd 22 (xq_add in_a d)) by (apply (bnd_weaken (11 + 11)); [apply bnd_add; [assumption|assumption|lra]|lra]).
    assert (Ha2 : bnd 26 (if xq_ltb F32_FRAC_PI_2 (xq_abs d) then xq_sub (xq_add in_a d) F32_PI else xq_add in_a d)).
    { destruct (xq_ltb F32_FRAC_PI_2 (xq_abs d)).
      - apply (bnd_weaken (22 + 4)); [|lra]. apply bnd_sub; [exact Ha| |lra].
        exists (13176795 # 4194304). split; [reflexivity|lra].
      - apply (bnd_weaken 22); [exact Ha|lra]. }
    pose proof (normalize_bnd 26 _ Ha2 ltac:(lra) ltac:(lra)) as Hn.
    unfold xq_to_degrees. apply (bnd_weaken ((26 + 7) * F32_DEG)); [|unfold F32_DEG; lra].
    apply bnd_mulc; [exact Hn|unfold F32_DEG; lra|lra|unfold F32_DEG; lra].
  Qed.
End Angle.
