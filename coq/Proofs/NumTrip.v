(* C08: number round trip lifted to lists / transforms / path data, and idempotence of writing. *)
From RV Require Import Gen.WriterNum.
From RV Require Import Gen.NumSites.
From RV Require Import Model.WriteNum.
From RV Require Import Proofs.WriteNum.
From RV Require Import Model.NumTrip.
From Coq Require Import String ZArith QArith Qround Qabs List Bool Lia Lqa.
Import ListNotations.
Local Open Scope Z_scope.

Lemma num_sites_ok : chk_num_sites = true.
Proof. vm_compute. reflexivity. Qed.

Lemma Qfloor_unique z q : (inject_Z z <= q)%Q -> (q < inject_Z (z + 1))%Q -> Qfloor q = z.
Proof.
  intros H1 H2.
  assert (A : z <= Qfloor q) by (rewrite <- (Qfloor_Z z); apply Qfloor_resp_le; exact H1).
  assert (B : Qfloor q < z + 1).
  { rewrite Zlt_Qlt. eapply Qle_lt_trans; [apply Qfloor_le|exact H2]. }
  lia.
Qed.

Lemma truncQ_inject z : truncQ (inject_Z z) = z.
Proof.
  unfold truncQ. destruct (Qle_bool 0 (inject_Z z)).
  - apply Qfloor_Z.
  - change (- inject_Z z)%Q with (inject_Z (- z)). rewrite Qfloor_Z. lia.
Qed.

Lemma is_integral_inject z : is_integral (inject_Z z) = true.
Proof. unfold is_integral. simpl. rewrite Z.mod_1_r. reflexivity. Qed.

Lemma roundQ_inject z : roundQ (inject_Z z) = z.
Proof.
  unfold roundQ. destruct (Qle_bool 0 (inject_Z z)).
  - apply Qfloor_unique; rewrite ?inject_Z_plus; change (inject_Z 1) with 1%Q; generalize (inject_Z z); intros; lra.
  - assert (E : Qfloor (- inject_Z z + (1 # 2)) = - z).
    { apply Qfloor_unique; rewrite ?inject_Z_plus, ?inject_Z_opp; change (inject_Z 1) with 1%Q; generalize (inject_Z z); intros; lra. }
    rewrite E. lia.
Qed.

Lemma roundQ_comp x y : (x == y)%Q -> roundQ x = roundQ y.
Proof.
  intros E. unfold roundQ. rewrite (Qleb_comp 0%Q 0%Q (Qeq_refl 0%Q) x y E).
  destruct (Qle_bool 0 y).
  - apply Qfloor_comp. rewrite E. reflexivity.
  - f_equal. apply Qfloor_comp. rewrite E. reflexivity.
Qed.

(* an integral value is written as itself *)
Lemma write_num_integral_fix p v : is_integral v = true -> exists v', write_num p v = WOk v' /\ (v' == v)%Q.
Proof.
  intros Ei. pose proof (is_integral_spec v Ei) as Ex.
  unfold write_num. rewrite Ei. change int_shortcut_bound with (Some 2147483648%Z). cbv iota.
  destruct (Qle_bool (inject_Z 2147483648) (Qabs v)) eqn:Eb.
  - exists v. split; reflexivity.
  - eexists. split; [reflexivity|].
    apply Qle_bool_false in Eb. rewrite Ex in Eb.
    assert (Hr : (I32_MIN <= truncQ v <= I32_MAX)%Z).
    { unfold I32_MIN, I32_MAX.
      destruct (Z_le_gt_dec 0 (truncQ v)) as [Hs|Hs].
      - rewrite Qabs_pos in Eb by (change 0%Q with (inject_Z 0); rewrite <- Zle_Qle; exact Hs).
        rewrite <- Zlt_Qlt in Eb. lia.
      - rewrite Qabs_neg in Eb by (change 0%Q with (inject_Z 0); rewrite <- Zle_Qle; lia).
        rewrite <- inject_Z_opp, <- Zlt_Qlt in Eb. lia. }
    rewrite (as_i32_id _ Hr). symmetry. exact Ex.
Qed.

(* writing what was written changes nothing: write (parse (write x)) = write x, every finite x, every precision *)
Lemma write_num_idempotent p x v :
  0 <= p -> write_num p x = WOk v -> exists v', write_num p v = WOk v' /\ (v' == v)%Q.
Proof.
  intros Hp H. destruct (is_integral v) eqn:Ev; [apply write_num_integral_fix; exact Ev|].
  unfold write_num in H. destruct (is_integral x) eqn:Ei.
  - change int_shortcut_bound with (Some 2147483648%Z) in H. cbv iota in H.
    destruct (Qle_bool (inject_Z 2147483648) (Qabs x)); inversion H; subst.
    + rewrite Ei in Ev. discriminate.
    + rewrite is_integral_inject in Ev. discriminate.
  - destruct (nth_error pow_vec (Z.to_nat (pow_index p))) as [pw|] eqn:En; [|discriminate].
    inversion H; subst v. clear H.
    pose proof (pow_vec_pos _ _ En) as Hpw.
    assert (Hq : (0 < inject_Z pw)%Q) by (change 0%Q with (inject_Z 0); rewrite <- Zlt_Qlt; exact Hpw).
    unfold write_num. rewrite Ev, En. eexists. split; [reflexivity|].
    set (n := roundQ (x * inject_Z pw)).
    assert (E : (inject_Z n / inject_Z pw * inject_Z pw == inject_Z n)%Q) by (field; lra).
    rewrite (roundQ_comp _ _ E), roundQ_inject. reflexivity.
Qed.

(* ---- lists *)
Lemma write_nums_total p l : 0 <= p -> exists vs, write_nums p l = Some vs.
Proof.
  intros Hp. induction l as [|x r [vs IH]]; simpl; [eexists; reflexivity|].
  destruct (write_num p x) as [v|] eqn:E; [|exfalso; exact (write_num_total p x Hp E)].
  rewrite IH. eexists; reflexivity.
Qed.

Lemma write_nums_error p l vs :
  0 <= p -> write_nums p l = Some vs ->
  exists pw, nth_error pow_vec (Z.to_nat (pow_index p)) = Some pw /\
             Forall2 (fun x v => Qabs (v - x) <= 1 / (2 * inject_Z pw))%Q l vs.
Proof.
  intros Hp. destruct (nth_error pow_vec (Z.to_nat (pow_index p))) as [pw|] eqn:En.
  2:{ apply nth_error_None in En. pose proof (pow_index_in_range p Hp). lia. }
  intros H. exists pw. split; [reflexivity|]. revert vs H.
  induction l as [|x r IH]; simpl; intros vs H.
  - inversion H. constructor.
  - destruct (write_num p x) as [v|] eqn:E; [|discriminate].
    destruct (write_nums p r) as [rs|] eqn:Er; [|discriminate]. inversion H; subst vs.
    constructor; [|apply IH; reflexivity].
    destruct (write_num_error p x v Hp E) as (pw' & En' & B). rewrite En in En'. inversion En'; subst. exact B.
Qed.

Lemma write_nums_idempotent p l vs :
  0 <= p -> write_nums p l = Some vs -> exists vs', write_nums p vs = Some vs' /\ Forall2 Qeq vs' vs.
Proof.
  intros Hp. revert vs. induction l as [|x r IH]; simpl; intros vs H.
  - inversion H. exists []. split; [reflexivity|constructor].
  - destruct (write_num p x) as [v|] eqn:E; [|discriminate].
    destruct (write_nums p r) as [rs|] eqn:Er; [|discriminate]. inversion H; subst vs.
    destruct (write_num_idempotent p x v Hp E) as (v' & E' & Q').
    destruct (IH rs eq_refl) as (rs' & Er' & F).
    exists (v' :: rs'). simpl. rewrite E', Er'. split; [reflexivity|constructor; assumption].
Qed.

Lemma write_nums_length p l vs : write_nums p l = Some vs -> length vs = length l.
Proof.
  revert vs. induction l as [|x r IH]; simpl; intros vs H; [inversion H; reflexivity|].
  destruct (write_num p x); [|discriminate]. destruct (write_nums p r) eqn:Er; [|discriminate].
  inversion H; subst. simpl. f_equal. apply IH. reflexivity.
Qed.

(* ---- transforms *)
Lemma Qlist_eqb_eq a b : Qlist_eqb a b = true -> Forall2 Qeq a b.
Proof.
  revert b. induction a as [|x r IH]; intros [|y s] H; simpl in H; try discriminate; constructor.
  - apply andb_true_iff in H as [H _]. apply Qeq_bool_iff. exact H.
  - apply IH. apply andb_true_iff in H as [_ H]. exact H.
Qed.

(* what the parser reads for the transform is within the bound of every one of the six numbers (an elided transform IS the identity) *)
Lemma write_transform_error p ts w :
  0 <= p -> write_transform p ts = Some w ->
  exists pw, nth_error pow_vec (Z.to_nat (pow_index p)) = Some pw /\
             Forall2 (fun x v => Qabs (v - x) <= 1 / (2 * inject_Z pw))%Q ts (read_transform w).
Proof.
  intros Hp H. unfold write_transform in H.
  destruct (Qlist_eqb ts identity6) eqn:Ei.
  - inversion H; subst w. simpl.
    destruct (nth_error pow_vec (Z.to_nat (pow_index p))) as [pw|] eqn:En.
    2:{ apply nth_error_None in En. pose proof (pow_index_in_range p Hp). lia. }
    exists pw. split; [reflexivity|]. pose proof (pow_vec_pos _ _ En) as Hpw.
    assert (Hq : (0 < inject_Z pw)%Q) by (change 0%Q with (inject_Z 0); rewrite <- Zlt_Qlt; exact Hpw).
    assert (Hpos : (0 <= 1 / (2 * inject_Z pw))%Q) by (apply Qle_shift_div_l; lra).
    apply Qlist_eqb_eq in Ei. induction Ei; constructor; auto.
    assert (E0 : (y - x == 0)%Q) by lra. rewrite (Qabs_wd _ _ E0). exact Hpos.
  - destruct (write_nums p ts) as [vs|] eqn:Ew; [|discriminate]. inversion H; subst w. simpl.
    apply write_nums_error; assumption.
Qed.

Lemma write_transform_total p ts : 0 <= p -> exists w, write_transform p ts = Some w.
Proof.
  intros Hp. unfold write_transform. destruct (Qlist_eqb ts identity6); [eexists; reflexivity|].
  destruct (write_nums_total p ts Hp) as [vs E]. rewrite E. eexists; reflexivity.
Qed.

(* ---- path data *)
Lemma write_segs_error p l out :
  0 <= p -> write_segs p l = Some out ->
  exists pw, nth_error pow_vec (Z.to_nat (pow_index p)) = Some pw /\
             Forall2 (fun a b => fst a = fst b /\ Forall2 (fun x v => Qabs (v - x) <= 1 / (2 * inject_Z pw))%Q (snd a) (snd b)) l out.
Proof.
  intros Hp. destruct (nth_error pow_vec (Z.to_nat (pow_index p))) as [pw|] eqn:En.
  2:{ apply nth_error_None in En. pose proof (pow_index_in_range p Hp). lia. }
  intros H. exists pw. split; [reflexivity|]. revert out H.
  induction l as [|[k cs] r IH]; simpl; intros out H.
  - inversion H. constructor.
  - destruct (write_nums p cs) as [vs|] eqn:E; [|discriminate].
    destruct (write_segs p r) as [rs|] eqn:Er; [|discriminate]. inversion H; subst out.
    constructor; [|apply IH; reflexivity]. simpl. split; [reflexivity|].
    destruct (write_nums_error p cs vs Hp E) as (pw' & En' & B). rewrite En in En'. inversion En'; subst. exact B.
Qed.

Lemma write_segs_idempotent p l out :
  0 <= p -> write_segs p l = Some out ->
  exists out', write_segs p out = Some out' /\ Forall2 (fun a b => fst a = fst b /\ Forall2 Qeq (snd a) (snd b)) out' out.
Proof.
  intros Hp. revert out. induction l as [|[k cs] r IH]; simpl; intros out H.
  - inversion H. exists []. split; [reflexivity|constructor].
  - destruct (write_nums p cs) as [vs|] eqn:E; [|discriminate].
    destruct (write_segs p r) as [rs|] eqn:Er; [|discriminate]. inversion H; subst out.
    destruct (write_nums_idempotent p cs vs Hp E) as (vs' & E' & F).
    destruct (IH rs eq_refl) as (rs' & Er' & G).
    exists ((k, vs') :: rs'). simpl. rewrite E', Er'. split; [reflexivity|]. constructor; [split; [reflexivity|exact F]|exact G].
Qed.

Lemma write_segs_total p l : 0 <= p -> exists out, write_segs p l = Some out.
Proof.
  intros Hp. induction l as [|[k cs] r [rs IH]]; simpl; [eexists; reflexivity|].
  destruct (write_nums_total p cs Hp) as [vs E]. rewrite E, IH. eexists; reflexivity.
Qed.
