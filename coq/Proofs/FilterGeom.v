(* Containment geometry of filters: the crop rectangles, the integer region vs the pixel hull of the
   device-space rectangle, the layer (source-derived fit_to_rect) and the final draw. *)
From RV Require Import Model.Base.
From RV Require Import Model.GeomPrims.
From RV Require Import Gen.LeafFit.
From RV Require Import Model.FilterGeom.
From Coq Require Import Qround.
Local Open Scope Z_scope.

Ltac bdestr :=
  repeat match goal with
  | |- context [?a <=? ?b] => destruct (Z.leb_spec a b)
  | |- context [?a <? ?b] => destruct (Z.ltb_spec a b)
  end.

Lemma in_frect_xywh : forall x y w h px py,
  in_frect (frect_from_xywh x y w h) px py = true <->
  (x <= w + x /\ y <= h + y /\ x <= px < w + x /\ y <= py < h + y).
Proof.
  intros. unfold frect_from_xywh.
  destruct (Z.leb_spec x (w + x)); destruct (Z.leb_spec y (h + y)); cbn [andb in_frect];
    try (split; [discriminate|lia]).
  bdestr; cbn; split; intro; try discriminate; try lia; reflexivity.
Qed.

Lemma cleared_iff : forall w h s px py,
  cleared w h s px py = true <->
  ( (0 <= w /\ 0 <= iy s /\ 0 <= px < w /\ 0 <= py < iy s) \/
    (0 <= ix s /\ 0 <= h /\ 0 <= px < ix s /\ 0 <= py < h) \/
    (0 <= w /\ 0 <= h /\ i_right s <= px < w + i_right s /\ 0 <= py < h) \/
    (0 <= w /\ 0 <= h /\ 0 <= px < w /\ i_bottom s <= py < h + i_bottom s) ).
Proof.
  intros. unfold cleared, clip_rects. cbn [existsb]. rewrite !orb_true_iff, !in_frect_xywh. lia.
Qed.

Lemma in_irect_iff : forall s px py,
  in_irect s px py = true <-> (ix s <= px < i_right s /\ iy s <= py < i_bottom s).
Proof. intros. unfold in_irect. rewrite !andb_true_iff, !Z.leb_le, !Z.ltb_lt. lia. Qed.
Lemma in_canvas_iff : forall w h px py,
  in_canvas w h px py = true <-> (0 <= px < w /\ 0 <= py < h).
Proof. intros. unfold in_canvas. rewrite !andb_true_iff, !Z.leb_le, !Z.ltb_lt. lia. Qed.

Lemma bool_eq_iff : forall a b : bool, (a = true <-> b = true) -> a = b.
Proof. intros [|] [|] H; try reflexivity; destruct H as [H1 H2]; [symmetry; apply H1|apply H2]; reflexivity. Qed.

(* the four rectangles clear exactly the complement of the subregion inside the pixmap - provided the
   subregion does not lie wholly to the left of / above the pixmap (right >= 0 and bottom >= 0) *)
Lemma clip_rects_cover_complement : forall w h s px py,
  0 <= i_right s -> 0 <= i_bottom s -> in_canvas w h px py = true ->
  cleared w h s px py = negb (in_irect s px py).
Proof.
  intros w h s px py Hr Hb Hc. apply in_canvas_iff in Hc.
  apply bool_eq_iff. rewrite negb_true_iff, cleared_iff.
  destruct (in_irect s px py) eqn:E.
  - apply in_irect_iff in E. split; [lia|discriminate].
  - split; [reflexivity|intros _].
    assert (~ (ix s <= px < i_right s /\ iy s <= py < i_bottom s)) as N
      by (intro C; apply in_irect_iff in C; congruence).
    lia.
Qed.

Lemma clip_rects_never_clear_inside : forall w h s px py,
  in_irect s px py = true -> cleared w h s px py = false.
Proof.
  intros w h s px py H. apply in_irect_iff in H.
  destruct (cleared w h s px py) eqn:E; [|reflexivity]. apply cleared_iff in E. lia.
Qed.

(* without the side condition the cover statement is false: a subregion wholly left of the region leaves
   the columns [right + w, w) uncleared *)
Definition quirk_sub : irect := {| ix := -8; iy := 0; iw := 5; ih := 10 |}.
Lemma clip_rects_cover_refuted :
  exists w h s px py, in_canvas w h px py = true /\ in_irect s px py = false /\ cleared w h s px py = false.
Proof. exists 10, 10, quirk_sub, 9, 0. vm_compute. repeat split; reflexivity. Qed.

(* ------------------------------------------------------------------ integer region inside the pixel hull *)
Local Open Scope Q_scope.
Lemma floor_plus_ceil_le : forall x w : Q, (Qfloor x + Qceiling w <= Qceiling (x + w))%Z.
Proof.
  intros x w.
  pose proof (Qfloor_le x) as H1. pose proof (Qceiling_lt w) as H2. pose proof (Qle_ceiling (x + w)) as H3.
  assert (inject_Z (Qfloor x + Qceiling w - 1) < inject_Z (Qceiling (x + w))) as H.
  { replace (Qfloor x + Qceiling w - 1)%Z with (Qfloor x + (Qceiling w - 1))%Z by lia.
    rewrite inject_Z_plus. lra. }
  rewrite <- Zlt_Qlt in H. lia.
Qed.
Lemma ceil_pos : forall w : Q, 0 < w -> (1 <= Qceiling w)%Z.
Proof.
  intros w Hw. pose proof (Qle_ceiling w) as H.
  assert (inject_Z 0 < inject_Z (Qceiling w)) as H1 by (change (inject_Z 0) with 0; lra).
  rewrite <- Zlt_Qlt in H1. lia.
Qed.

Lemma int_region_within_hull : forall r, pos_rect r ->
  let ir := to_int_rect r in
  (ix ir = hull_l r /\ i_right ir <= hull_r r /\ iy ir = hull_t r /\ i_bottom ir <= hull_b r)%Z.
Proof.
  intros r [Hw Hh]. unfold to_int_rect, hull_l, hull_r, hull_t, hull_b, i_right, i_bottom. cbn [ix iy iw ih].
  pose proof (ceil_pos _ Hw). pose proof (ceil_pos _ Hh).
  pose proof (floor_plus_ceil_le (rx r) (rw r)). pose proof (floor_plus_ceil_le (ry r) (rh r)).
  repeat split; lia.
Qed.
Local Open Scope Z_scope.

(* ------------------------------------------------------------------ the layer: source-derived fit_to_rect *)
Lemma irect_from_ltrb_some : forall l t r b o, irect_from_ltrb l t r b = Some o ->
  ix o = l /\ iy o = t /\ i_right o = r /\ i_bottom o = b /\ 0 < iw o /\ 0 < ih o.
Proof.
  intros l t r b o. unfold irect_from_ltrb, irect_from_xywh.
  destruct (in_i32 (r - l) && in_i32 (b - t) && (0 <=? r - l) && (0 <=? b - t)); [|discriminate].
  match goal with |- (if ?c then _ else _) = _ -> _ => destruct c eqn:E end; [|discriminate].
  intro H. inversion H; subst o; clear H. unfold i_right, i_bottom. cbn [ix iy iw ih].
  rewrite !andb_true_iff in E. destruct E as [[[[[[[[[_ _] Hw] _] Hh] _] _] _] _] _].
  apply Z.ltb_lt in Hw. apply Z.ltb_lt in Hh. lia.
Qed.

Lemma fit_to_rect_subset : forall r b o, fit_to_rect r b = Some o ->
  ix r <= ix o /\ i_right o <= i_right r /\ iy r <= iy o /\ i_bottom o <= i_bottom r /\
  ix b <= ix o /\ i_right o <= i_right b /\ iy b <= iy o /\ i_bottom o <= i_bottom b.
Proof.
  intros r b o H. unfold fit_to_rect in H. cbv zeta in H.
  apply irect_from_ltrb_some in H. destruct H as (Hx & Hy & Hr & Hb & _ & _).
  rewrite ?Z.gtb_ltb in *.
  repeat match goal with
  | H : context [if ?a <? ?b then _ else _] |- _ => destruct (Z.ltb_spec a b)
  end; lia.
Qed.

(* everything the filtered group draws onto the canvas lies inside the pixel hull of the device-space
   filter region: outside it the canvas is untouched - when the layer does not start left of / above the
   canvas origin (tiny-skia's Rect::round moves a negative origin by one pixel) *)
Lemma drawn_rect_nonneg : forall ib, layer_origin_negative ib = false -> drawn_rect ib = ib.
Proof.
  intros [x y w h] H. unfold layer_origin_negative in H. cbn [ix iy] in H. apply orb_false_iff in H.
  destruct H as [Hx Hy]. unfold drawn_rect, ts_round. cbn [ix iy iw ih]. rewrite Hx, Hy. reflexivity.
Qed.

Lemma result_within_region : forall (A : Type) (blend : A -> A -> A) canvas layer bbox maxb ib,
  pos_rect bbox -> filter_layer bbox maxb = Some ib -> layer_origin_negative ib = false ->
  forall x y, in_hull bbox x y = false -> draw_layer blend canvas ib layer x y = canvas x y.
Proof.
  intros A blend canvas layer bbox maxb ib Hpos Hl Hn x y Hout. unfold draw_layer.
  rewrite (drawn_rect_nonneg ib Hn).
  destruct (in_irect ib x y) eqn:E; [|reflexivity]. exfalso.
  apply in_irect_iff in E. unfold filter_layer in Hl. apply fit_to_rect_subset in Hl.
  pose proof (int_region_within_hull bbox Hpos) as Hh. cbv zeta in Hh.
  assert (in_hull bbox x y = true); [|congruence].
  unfold in_hull. rewrite !andb_true_iff, !Z.leb_le, !Z.ltb_lt. lia.
Qed.

(* in every case the damage is bounded by one pixel row / column beyond the hull *)
Lemma result_within_region_plus1 : forall (A : Type) (blend : A -> A -> A) canvas layer bbox maxb ib,
  pos_rect bbox -> filter_layer bbox maxb = Some ib ->
  forall x y, in_hull_plus1 bbox x y = false -> draw_layer blend canvas ib layer x y = canvas x y.
Proof.
  intros A blend canvas layer bbox maxb ib Hpos Hl x y Hout. unfold draw_layer.
  destruct (in_irect (drawn_rect ib) x y) eqn:E; [|reflexivity]. exfalso.
  apply in_irect_iff in E. unfold drawn_rect, i_right, i_bottom, ts_round in E. cbn [ix iy iw ih] in E.
  unfold filter_layer in Hl. apply fit_to_rect_subset in Hl.
  pose proof (int_region_within_hull bbox Hpos) as Hh. cbv zeta in Hh. unfold i_right, i_bottom in *.
  assert (in_hull_plus1 bbox x y = true); [|congruence].
  unfold in_hull_plus1. rewrite !andb_true_iff, !Z.leb_le, !Z.ltb_lt.
  destruct (Z.ltb_spec (ix ib) 0); destruct (Z.ltb_spec (iy ib) 0); lia.
Qed.

(* the unguarded statement is false for the faithful model: a layer whose origin is negative paints the
   column just right of the region with a copy of the layer's last column *)
Definition neg_bbox : qrect := {| rx := -6 # 1; ry := 2 # 1; rw := 20 # 1; rh := 5 # 1 |}.
Definition neg_max : irect := {| ix := -80; iy := -80; iw := 200; ih := 200 |}.
Lemma result_within_region_refuted :
  exists bbox maxb ib x y, pos_rect bbox /\ filter_layer bbox maxb = Some ib /\ layer_origin_negative ib = true /\
    in_hull bbox x y = false /\
    draw_layer (fun s d : Z => s) (fun _ _ => 0) ib (fun _ _ => 255) x y = 255.
Proof.
  exists neg_bbox, neg_max, {| ix := -6; iy := 2; iw := 20; ih := 5 |}, 14, 3.
  split; [unfold pos_rect, neg_bbox; cbn; split; reflexivity|].
  split; [vm_compute; reflexivity|]. split; [reflexivity|]. split; [vm_compute; reflexivity|].
  vm_compute. reflexivity.
Qed.

(* and the layer is never larger than the clamp box (memory bound shared with C02) *)
Lemma layer_within_max : forall bbox maxb ib, filter_layer bbox maxb = Some ib ->
  ix maxb <= ix ib /\ i_right ib <= i_right maxb /\ iy maxb <= iy ib /\ i_bottom ib <= i_bottom maxb.
Proof. intros bbox maxb ib H. apply fit_to_rect_subset in H. lia. Qed.
