(* C18 lemmas about Model/Obb.v over the source-derived leaves of Gen/LeafObb.v. *)
From RV Require Import Model.Base Model.GeomPrims Model.StylePrims Model.ObbPrims Gen.LeafObb Model.Obb.
Local Open Scope Q_scope.

(* ------------------------------------------------------------------ geometry *)
Lemma nz_some x y w h r : nzrect_from_xywh x y w h = Some r ->
  0 < w /\ 0 < h /\ r = {| rx := x; ry := y; rw := w; rh := h |}.
Proof.
  unfold nzrect_from_xywh. destruct (Qltb 0 w) eqn:E1; simpl; [|discriminate].
  destruct (Qltb 0 h) eqn:E2; simpl; [|discriminate].
  intro H. inversion H. apply Qltb_true in E1, E2. repeat split; assumption.
Qed.
Lemma nz_pos x y w h : 0 < w -> 0 < h -> nzrect_from_xywh x y w h = Some {| rx := x; ry := y; rw := w; rh := h |}.
Proof.
  intros H1 H2. unfold nzrect_from_xywh.
  assert (E1 : Qltb 0 w = true) by (apply Qltb_true; exact H1).
  assert (E2 : Qltb 0 h = true) by (apply Qltb_true; exact H2). rewrite E1, E2. reflexivity.
Qed.

(* the image of a point under a product of transforms *)
Lemma concat_map_x a b x y : map_x (ts_concat a b) x y == map_x a (map_x b x y) (map_y b x y).
Proof. unfold map_x, map_y, ts_concat, from_row. simpl. ring. Qed.
Lemma concat_map_y a b x y : map_y (ts_concat a b) x y == map_y a (map_x b x y) (map_y b x y).
Proof. unfold map_x, map_y, ts_concat, from_row. simpl. ring. Qed.

Lemma from_bbox_map B x y :
  map_x (from_bbox B) x y == x * rw B + rx B /\ map_y (from_bbox B) x y == y * rh B + ry B.
Proof. unfold map_x, map_y, from_bbox, from_row. simpl. split; ring. Qed.

(* bbox_transform r B is the image of r under from_bbox B *)
Lemma bbox_transform_is_map r B r' : checked_bbox_transform r B = Some r' ->
  rx r' == map_x (from_bbox B) (rx r) (ry r) /\ ry r' == map_y (from_bbox B) (rx r) (ry r) /\
  r_right r' == map_x (from_bbox B) (r_right r) (r_bottom r) /\
  r_bottom r' == map_y (from_bbox B) (r_right r) (r_bottom r).
Proof.
  unfold checked_bbox_transform. intro H. apply nz_some in H as (Hw & Hh & ->).
  unfold r_right, r_bottom, map_x, map_y, from_bbox, from_row. simpl. repeat split; ring.
Qed.

Lemma bbox_transform_contains r B r' px py : checked_bbox_transform r B = Some r' -> 0 < rw B -> 0 < rh B ->
  rx r <= px <= r_right r -> ry r <= py <= r_bottom r ->
  rx r' <= map_x (from_bbox B) px py <= r_right r' /\ ry r' <= map_y (from_bbox B) px py <= r_bottom r'.
Proof.
  unfold checked_bbox_transform. intros H Bw Bh [X1 X2] [Y1 Y2]. apply nz_some in H as (Hw & Hh & ->).
  unfold r_right, r_bottom in *. unfold map_x, map_y, from_bbox, from_row. simpl. repeat split; nra.
Qed.

Lemma bbox_transform_defined r B : 0 < rw r -> 0 < rh r -> 0 < rw B -> 0 < rh B ->
  exists r', checked_bbox_transform r B = Some r' /\ 0 < rw r' /\ 0 < rh r'.
Proof.
  intros. unfold checked_bbox_transform. rewrite nz_pos by nra. eexists. split; [reflexivity|]. simpl. split; nra.
Qed.

(* resolved gradient: apply the definition's transform, then the bounding-box mapping *)
Lemma gradient_equiv T B x y :
  map_x (resolve_gradient_ts T B) x y == map_x (from_bbox B) (map_x T x y) (map_y T x y) /\
  map_y (resolve_gradient_ts T B) x y == map_y (from_bbox B) (map_x T x y) (map_y T x y).
Proof. unfold resolve_gradient_ts, ts_post_concat. split; [apply concat_map_x|apply concat_map_y]. Qed.

(* resolved clip path: bounding-box mapping first, the clipPath's own transform on top *)
Lemma clip_equiv T B x y :
  map_x (clip_resolve_ts T B) x y == map_x T (map_x (from_bbox B) x y) (map_y (from_bbox B) x y) /\
  map_y (clip_resolve_ts T B) x y == map_y T (map_x (from_bbox B) x y) (map_y (from_bbox B) x y).
Proof. unfold clip_resolve_ts, ts_pre_concat. split; [apply concat_map_x|apply concat_map_y]. Qed.

(* pattern content under patternContentUnits=objectBoundingBox: scaled by the box size, not shifted *)
Lemma pattern_content_equiv B x y :
  map_x (pattern_content_ts B) x y == x * rw B /\ map_y (pattern_content_ts B) x y == y * rh B.
Proof. unfold pattern_content_ts, from_scale, map_x, map_y, from_row. simpl. split; ring. Qed.

Lemma pattern_rect_equiv rect B r' : resolve_pattern_rect ObjectBoundingBox rect B = Some r' ->
  rx r' == map_x (from_bbox B) (rx rect) (ry rect) /\ ry r' == map_y (from_bbox B) (rx rect) (ry rect) /\
  rw r' == rw rect * rw B /\ rh r' == rh rect * rh B.
Proof.
  unfold resolve_pattern_rect. simpl. unfold checked_bbox_transform. intro H.
  apply nz_some in H as (_ & _ & ->). unfold map_x, map_y, from_bbox, from_row. simpl. repeat split; ring.
Qed.
Lemma pattern_rect_user rect B : resolve_pattern_rect UserSpaceOnUse rect B = Some rect.
Proof. reflexivity. Qed.

(* the from_bbox of a box with area is invertible *)
Lemma from_bbox_det B : 0 < rw B -> 0 < rh B ->
  0 < t_sx (from_bbox B) * t_sy (from_bbox B) - t_kx (from_bbox B) * t_ky (from_bbox B).
Proof. intros. unfold from_bbox, from_row. simpl. nra. Qed.

(* ------------------------------------------------------------------ filter primitive sub-regions *)
Lemma prim_flood_spec x y w h B fr :
  resolve_primitive_region PK_FloodOrImage ObjectBoundingBox (Some x) (Some y) (Some w) (Some h) (Some B) fr
  = match nzrect_from_xywh x y w h with
    | Some _ => prim_region_spec_obb (Some x) (Some y) (Some w) (Some h) B fr
    | None => None
    end.
Proof.
  unfold resolve_primitive_region, prim_region_flood_obb, prim_region_spec_obb. simpl.
  destruct (nzrect_from_xywh x y w h) as [r|] eqn:E; [|reflexivity].
  apply nz_some in E as (_ & _ & ->). unfold checked_bbox_transform. simpl. reflexivity.
Qed.

Lemma prim_other_guarded units x y w h bbox fr : 0 < rw fr -> 0 < rh fr ->
  units = ObjectBoundingBox ->
  KnownClass_prim_subregion PK_Other units x y w h = false ->
  forall B, exists r, resolve_primitive_region PK_Other units x y w h bbox fr = Some r /\
                 prim_region_spec_obb x y w h B fr = Some fr /\ qrect_eqb r fr = true.
Proof.
  intros Fw Fh -> H B. simpl in H.
  destruct x, y, w, h; try discriminate. clear H.
  unfold resolve_primitive_region, prim_region_other_obb, prim_region_spec_obb. simpl.
  unfold checked_bbox_transform. simpl. rewrite nz_pos by lra.
  rewrite nz_pos by assumption.
  eexists. split; [reflexivity|]. split; [destruct fr; reflexivity|].
  unfold qrect_eqb. simpl.
  repeat (apply andb_true_intro; split); apply Qeqb_true; ring.
Qed.

Lemma prim_other_refuted :
  exists x y w h bbox B fr,
    KnownClass_prim_subregion PK_Other ObjectBoundingBox x y w h = true /\ bbox = Some B /\
    match resolve_primitive_region PK_Other ObjectBoundingBox x y w h bbox fr, prim_region_spec_obb x y w h B fr with
    | Some a, Some b => qrect_eqb a b = false
    | _, _ => False
    end.
Proof.
  exists (Some (1 # 10)), (Some (1 # 10)), (Some (1 # 2)), (Some (1 # 2)),
         (Some {| rx := 20; ry := 20; rw := 50; rh := 50 |}), {| rx := 20; ry := 20; rw := 50; rh := 50 |},
         {| rx := 10; ry := 10; rw := 100; rh := 100 |}.
  vm_compute. repeat split; reflexivity.
Qed.

(* ------------------------------------------------------------------ generated ids *)
Local Open Scope N_scope.
Definition above (c : N) (taken : list N) : nat := length (filter (fun x => c <? x) taken).

Lemma above_succ c taken : In (c + 1) taken -> (S (above (c + 1) taken) <= above c taken)%nat.
Proof.
  unfold above. induction taken as [|x r IH]; simpl; [intros []|].
  intros [H|H].
  - subst x. assert (E1 : c <? c + 1 = true) by (apply N.ltb_lt; lia).
    assert (E2 : c + 1 <? c + 1 = false) by (apply N.ltb_ge; lia). rewrite E1, E2. simpl.
    apply le_n_S. clear IH. induction r as [|y r IH]; simpl; [lia|].
    destruct (c + 1 <? y) eqn:A.
    + assert (c <? y = true) by (apply N.ltb_lt; apply N.ltb_lt in A; lia). rewrite H. simpl. lia.
    + destruct (c <? y); simpl; lia.
  - specialize (IH H). destruct (c + 1 <? x) eqn:A.
    + assert (c <? x = true) by (apply N.ltb_lt; apply N.ltb_lt in A; lia). rewrite H0. simpl. lia.
    + destruct (c <? x); simpl; lia.
Qed.

Lemma above_zero c taken x : above c taken = 0%nat -> In x taken -> x <= c.
Proof.
  unfold above. induction taken as [|y r IH]; simpl; [intros _ []|].
  destruct (c <? y) eqn:A; simpl; [discriminate|]. intros H [E|E].
  - subst. apply N.ltb_ge in A. exact A.
  - apply IH; assumption.
Qed.

Lemma gen_id_fuel_fresh fuel : forall taken c, (above c taken <= fuel)%nat ->
  c < gen_id_fuel fuel taken c /\ ~ In (gen_id_fuel fuel taken c) taken.
Proof.
  induction fuel as [|f IH]; intros taken c H; simpl.
  - split; [lia|]. intro K. assert (above c taken = 0%nat) by lia.
    pose proof (above_zero c taken (c + 1) H0 K). lia.
  - destruct (existsb (N.eqb (c + 1)) taken) eqn:E.
    + apply existsb_exists in E as (x & Hx & Ex). apply N.eqb_eq in Ex. subst x.
      pose proof (above_succ c taken Hx).
      destruct (IH taken (c + 1)) as [A B]; [lia|]. split; [lia|exact B].
    + split; [lia|]. intro K.
      assert (existsb (N.eqb (c + 1)) taken = true) by (apply existsb_exists; exists (c + 1); split; [exact K|apply N.eqb_refl]).
      congruence.
Qed.

Lemma gen_id_fresh taken c : c < gen_id taken c /\ ~ In (gen_id taken c) taken.
Proof.
  unfold gen_id. apply gen_id_fuel_fresh. unfold above.
  induction taken as [|x r IH]; simpl; [lia|]. destruct (c <? x); simpl; lia.
Qed.
Local Open Scope Q_scope.

(* ------------------------------------------------------------------ one definition shared by many users *)
Section Shared.
  Variable taken : list N.
  Variable d0 : gdef.
  Hypothesis Hobb : g_units d0 = ObjectBoundingBox.

  (* what the pass amounts to when every user points to cell 0 = d0: every user but the last gets a clone
     under a generated id, the last one rewrites d0 in place; users without area lose the paint *)
  Fixpoint spec_users (H : list gdef) (ctr : N) (todo : list user) : list gdef * N * list user :=
    match todo with
    | [] => (H, ctr, [])
    | u :: rest =>
        match to_non_zero_rect (u_box u) with
        | None => let '(H', c', us) := spec_users H ctr rest in (H', c', set_h u None :: us)
        | Some B =>
            match rest with
            | [] => (heap_set H 0 (resolve_def d0 B (g_id d0)), ctr, [u])
            | _ :: _ =>
                let id := gen_id taken ctr in
                let '(H', c', us) := spec_users (H ++ [resolve_def d0 B id]) id rest in
                (H', c', set_h u (Some (length H)) :: us)
            end
        end
    end.

  Definition no0 (u : user) : Prop := match u_h u with Some h => (1 <= h)%nat | None => True end.
  Definition at0 (u : user) : Prop := u_h u = Some 0%nat.

  Lemma refcount_app h a b : refcount h (a ++ b) = (refcount h a + refcount h b)%nat.
  Proof. unfold refcount. rewrite filter_app, app_length. reflexivity. Qed.
  Lemma refcount_no0 done : Forall no0 done -> refcount 0 done = 0%nat.
  Proof.
    induction 1 as [|u r Hu Hr IH]; [reflexivity|]. unfold refcount in *. simpl.
    unfold points_to, no0 in *. destruct (u_h u) as [h|]; [|exact IH].
    destruct h; [lia|]. simpl. exact IH.
  Qed.
  Lemma refcount_at0 todo : Forall at0 todo -> refcount 0 todo = length todo.
  Proof.
    induction 1 as [|u r Hu Hr IH]; [reflexivity|]. unfold refcount in *. simpl.
    unfold points_to, at0 in *. rewrite Hu. simpl. rewrite IH. reflexivity.
  Qed.

  Lemma spec_none u rest H ctr : to_non_zero_rect (u_box u) = None ->
    spec_users H ctr (u :: rest) = let '(H', c', us) := spec_users H ctr rest in (H', c', set_h u None :: us).
  Proof. intro E. simpl. rewrite E. reflexivity. Qed.
  Lemma spec_last u H ctr B : to_non_zero_rect (u_box u) = Some B ->
    spec_users H ctr [u] = (heap_set H 0 (resolve_def d0 B (g_id d0)), ctr, [u]).
  Proof. intro E. simpl. rewrite E. reflexivity. Qed.
  Lemma spec_clone u v rest H ctr B : to_non_zero_rect (u_box u) = Some B ->
    spec_users H ctr (u :: v :: rest) =
      let '(H', c', us) := spec_users (H ++ [resolve_def d0 B (gen_id taken ctr)]) (gen_id taken ctr) (v :: rest) in
      (H', c', set_h u (Some (length H)) :: us).
  Proof. intro E. simpl. rewrite E. reflexivity. Qed.

  Lemma run_eq_spec : forall todo H ctr done,
    Forall at0 todo -> Forall no0 done -> nth_error H 0 = Some d0 ->
    exists H' c' us, spec_users H ctr todo = (H', c', us) /\
      run_users taken {| ps_heap := H; ps_ctr := ctr |} done todo = ({| ps_heap := H'; ps_ctr := c' |}, done ++ us).
  Proof.
    induction todo as [|u rest IH]; intros H ctr done Ht Hd H0.
    - exists H, ctr, []. simpl. rewrite app_nil_r. split; reflexivity.
    - inversion Ht as [|u' r' Hu Hr]; subst. simpl.
      unfold process_user. unfold at0 in Hu. rewrite Hu. simpl ps_heap. rewrite H0.
      assert (Eu : units_eqb (g_units d0) ObjectBoundingBox = true) by (rewrite Hobb; reflexivity).
      rewrite Eu.
      destruct (to_non_zero_rect (u_box u)) as [B|] eqn:EB.
      + rewrite refcount_app, (refcount_no0 done Hd). simpl.
        assert (Rc : refcount 0 (u :: rest) = S (length rest)).
        { unfold refcount. simpl. unfold points_to at 1. rewrite Hu. simpl.
          fold (refcount 0 rest). rewrite (refcount_at0 rest Hr). reflexivity. }
        rewrite Rc.
        destruct rest as [|v rest'].
        * simpl. exists (heap_set H 0 (resolve_def d0 B (g_id d0))), ctr, [u]. split; reflexivity.
        * simpl Nat.eqb. cbv iota.
          assert (Hne : (1 <= length H)%nat).
          { destruct H; [discriminate|simpl; lia]. }
          destruct (IH (H ++ [resolve_def d0 B (gen_id taken ctr)]) (gen_id taken ctr)
                       (done ++ [set_h u (Some (length H))])) as (H' & c' & us & Es & Er).
          -- exact Hr.
          -- apply Forall_app. split; [exact Hd|]. constructor; [|constructor]. unfold no0. simpl. exact Hne.
          -- rewrite nth_error_app1 by lia. exact H0.
          -- exists H', c', (set_h u (Some (length H)) :: us). split.
             ++ cbv zeta. rewrite Es. reflexivity.
             ++ rewrite Er. rewrite <- app_assoc. reflexivity.
      + destruct (IH H ctr (done ++ [set_h u None])) as (H' & c' & us & Es & Er).
        * exact Hr.
        * apply Forall_app. split; [exact Hd|]. constructor; [|constructor]. unfold no0. simpl. exact I.
        * exact H0.
        * exists H', c', (set_h u None :: us). split.
          -- rewrite Es. reflexivity.
          -- rewrite Er. rewrite <- app_assoc. reflexivity.
  Qed.
End Shared.

Section SharedProps.
  Variable taken : list N.
  Variable d0 : gdef.
  Hypothesis Hobb : g_units d0 = ObjectBoundingBox.
  Hypothesis Hsrc : In (g_id d0) taken.          (* the source id is an id of the document *)

  Lemma heap_set_len H : forall h d, length (heap_set H h d) = length H.
  Proof. induction H as [|x r IH]; intros [|h] d; simpl; try reflexivity. rewrite IH. reflexivity. Qed.
  Lemma heap_set_same H d : (1 <= length H)%nat -> nth_error (heap_set H 0 d) 0 = Some d.
  Proof. destruct H; simpl; [lia|reflexivity]. Qed.
  Lemma heap_set_other H d h : (1 <= h)%nat -> nth_error (heap_set H 0 d) h = nth_error H h.
  Proof. destruct H; simpl; [reflexivity|]. destruct h; [lia|reflexivity]. Qed.

  (* cells other than cell 0 are never rewritten once they exist *)
  Lemma spec_stable : forall todo H ctr H' c' us,
    spec_users taken d0 H ctr todo = (H', c', us) -> (1 <= length H)%nat ->
    (length H <= length H')%nat /\ forall h, (1 <= h < length H)%nat -> nth_error H' h = nth_error H h.
  Proof.
    induction todo as [|u rest IH]; intros H ctr H' c' us E Hn.
    - simpl in E. inversion E; subst. split; [lia|reflexivity].
    - simpl in E. destruct (to_non_zero_rect (u_box u)) as [B|] eqn:EB.
      + destruct rest as [|v rest'].
        * inversion E; subst. rewrite heap_set_len. split; [lia|]. intros h Hh. apply heap_set_other. lia.
        * destruct (spec_users taken d0 (H ++ [resolve_def d0 B (gen_id taken ctr)]) (gen_id taken ctr) (v :: rest'))
            as [[H1 c1] us1] eqn:E1.
          inversion E; subst.
          destruct (IH _ _ _ _ _ E1) as [L S]. { rewrite app_length. simpl. lia. }
          rewrite app_length in L. simpl in L. split; [lia|].
          intros h Hh. rewrite S by (rewrite app_length; simpl; lia). apply nth_error_app1. lia.
      + destruct (spec_users taken d0 H ctr rest) as [[H1 c1] us1] eqn:E1. inversion E; subst.
        apply (IH _ _ _ _ _ E1 Hn).
  Qed.

  (* every user ends with its own resolution *)
  Definition resolved_for (H' : list gdef) (u_in u_out : user) : Prop :=
    u_box u_out = u_box u_in /\
    match to_non_zero_rect (u_box u_in) with
    | None => u_h u_out = None
    | Some B => exists h d, u_h u_out = Some h /\ nth_error H' h = Some d /\
                            g_units d = UserSpaceOnUse /\ g_ts d = resolve_gradient_ts (g_ts d0) B
    end.

  Lemma spec_resolved : forall todo H ctr H' c' us,
    spec_users taken d0 H ctr todo = (H', c', us) -> Forall (at0) todo -> (1 <= length H)%nat ->
    Forall2 (resolved_for H') todo us.
  Proof.
    induction todo as [|u rest IH]; intros H ctr H' c' us E Ht Hn.
    - simpl in E. inversion E; subst. constructor.
    - inversion Ht as [|u' r' Hu Hr]; subst. simpl in E.
      destruct (to_non_zero_rect (u_box u)) as [B|] eqn:EB.
      + destruct rest as [|v rest'].
        * inversion E; subst. constructor; [|constructor]. unfold resolved_for. rewrite EB. split; [reflexivity|].
          exists 0%nat, (resolve_def d0 B (g_id d0)). unfold at0 in Hu.
          repeat split; [exact Hu|apply heap_set_same; exact Hn].
        * destruct (spec_users taken d0 (H ++ [resolve_def d0 B (gen_id taken ctr)]) (gen_id taken ctr) (v :: rest'))
            as [[H1 c1] us1] eqn:E1.
          inversion E; subst.
          assert (Hn1 : (1 <= length (H ++ [resolve_def d0 B (gen_id taken ctr)]))%nat) by (rewrite app_length; simpl; lia).
          constructor; [|apply (IH _ _ _ _ _ E1 Hr Hn1)].
          unfold resolved_for. rewrite EB. split; [reflexivity|].
          exists (length H), (resolve_def d0 B (gen_id taken ctr)).
          destruct (spec_stable _ _ _ _ _ _ E1 Hn1) as [_ S].
          repeat split. rewrite S by (rewrite app_length; simpl; lia).
          rewrite nth_error_app2 by lia. rewrite Nat.sub_diag. reflexivity.
      + destruct (spec_users taken d0 H ctr rest) as [[H1 c1] us1] eqn:E1. inversion E; subst.
        constructor; [|apply (IH _ _ _ _ _ E1 Hr Hn)].
        unfold resolved_for. rewrite EB. split; reflexivity.
  Qed.

  (* ids *)
  Definition out_ids (H' : list gdef) (us : list user) : list N :=
    flat_map (fun u => match u_h u with
                       | Some h => match nth_error H' h with Some d => [g_id d] | None => [] end
                       | None => [] end) us.
  Inductive ids_ok : N -> list N -> Prop :=
  | io_nil c : ids_ok c []
  | io_src c : ids_ok c [g_id d0]
  | io_gen c x l : (c < x)%N -> ~ In x taken -> ids_ok x l -> ids_ok c (x :: l).

  Lemma ids_ok_elems c l : ids_ok c l -> forall y, In y l -> ((c < y)%N /\ ~ In y taken) \/ y = g_id d0.
  Proof.
    induction 1; intros y Hy.
    - destruct Hy.
    - destruct Hy as [<-|[]]. right. reflexivity.
    - destruct Hy as [<-|Hy]; [left; split; assumption|].
      destruct (IHids_ok y Hy) as [[A B]|A]; [left; split; [lia|exact B]|right; exact A].
  Qed.
  Lemma ids_ok_nodup c l : ids_ok c l -> NoDup l.
  Proof.
    induction 1.
    - constructor.
    - constructor; [intros []|constructor].
    - constructor; [|exact IHids_ok]. intro K.
      destruct (ids_ok_elems _ _ H1 x K) as [[A _]|A]; [lia|]. subst x. contradiction.
  Qed.

  Fixpoint last_area (todo : list user) : bool :=
    match todo with
    | [] => false
    | u :: rest => match rest with
                   | [] => match to_non_zero_rect (u_box u) with Some _ => true | None => false end
                   | _ :: _ => last_area rest
                   end
    end.

  Lemma spec_ids : forall todo H ctr H' c' us,
    spec_users taken d0 H ctr todo = (H', c', us) -> Forall at0 todo -> (1 <= length H)%nat ->
    ids_ok ctr (out_ids H' us) /\ (In (g_id d0) (out_ids H' us) <-> last_area todo = true).
  Proof.
    induction todo as [|u rest IH]; intros H ctr H' c' us E Ht Hn.
    - simpl in E. inversion E; subst. simpl. split; [constructor|]. split; [intros []|discriminate].
    - inversion Ht as [|u' r' Hu Hr]; subst. simpl in E.
      destruct (to_non_zero_rect (u_box u)) as [B|] eqn:EB.
      + destruct rest as [|v rest'].
        * inversion E; subst. unfold out_ids. simpl. unfold at0 in Hu. rewrite Hu.
          rewrite (heap_set_same H _ Hn). simpl. split; [constructor|]. rewrite EB.
          split; [reflexivity|]. intros _. left. reflexivity.
        * destruct (spec_users taken d0 (H ++ [resolve_def d0 B (gen_id taken ctr)]) (gen_id taken ctr) (v :: rest'))
            as [[H1 c1] us1] eqn:E1.
          inversion E; subst.
          assert (Hn1 : (1 <= length (H ++ [resolve_def d0 B (gen_id taken ctr)]))%nat) by (rewrite app_length; simpl; lia).
          destruct (IH _ _ _ _ _ E1 Hr Hn1) as [A Bk].
          destruct (spec_stable _ _ _ _ _ _ E1 Hn1) as [_ S].
          assert (Ecell : nth_error H' (length H) = Some (resolve_def d0 B (gen_id taken ctr))).
          { rewrite S by (rewrite app_length; simpl; lia). rewrite nth_error_app2 by lia.
            rewrite Nat.sub_diag. reflexivity. }
          unfold out_ids. simpl. rewrite Ecell. simpl.
          destruct (gen_id_fresh taken ctr) as [G1 G2].
          split.
          -- apply io_gen; assumption.
          -- change (last_area (u :: v :: rest')) with (last_area (v :: rest')). rewrite <- Bk.
             split; [intros [K|K]; [exfalso; rewrite K in G2; contradiction|exact K]|intro K; right; exact K].
      + destruct (spec_users taken d0 H ctr rest) as [[H1 c1] us1] eqn:E1. inversion E; subst.
        destruct (IH _ _ _ _ _ E1 Hr Hn) as [A Bk].
        unfold out_ids. simpl. fold (out_ids H' us1). split; [exact A|].
        destruct rest as [|v rest'].
        * simpl in E1. inversion E1; subst. simpl. rewrite EB. split; [intros []|discriminate].
        * exact Bk.
  Qed.
End SharedProps.

(* the statement about the pass itself *)
Lemma shared_users taken d0 users :
  g_units d0 = ObjectBoundingBox -> In (g_id d0) taken -> Forall (fun u => u_h u = Some 0%nat) users ->
  forall ctr, let '(st, out) := postpass taken [d0] ctr users in
    Forall2 (resolved_for d0 (ps_heap st)) users out
    /\ NoDup (out_ids (ps_heap st) out)
    /\ (In (g_id d0) (out_ids (ps_heap st) out) <-> last_area users = true)
    /\ (forall y, In y (out_ids (ps_heap st) out) -> y = g_id d0 \/ ~ In y taken).
Proof.
  intros Hobb Hsrc Hat ctr. unfold postpass.
  destruct (run_eq_spec taken d0 Hobb users [d0] ctr [] Hat (Forall_nil _) eq_refl) as (H' & c' & us & Es & Er).
  rewrite Er. simpl app. simpl ps_heap.
  assert (Hn : (1 <= length [d0])%nat) by (simpl; lia).
  destruct (spec_ids taken d0 Hsrc users [d0] ctr H' c' us Es Hat Hn) as [A B].
  repeat split.
  - apply (spec_resolved taken d0 users [d0] ctr H' c' us Es Hat Hn).
  - apply (ids_ok_nodup taken d0 Hsrc ctr _ A).
  - apply B.
  - apply B.
  - intros y Hy. destruct (ids_ok_elems taken d0 _ _ A y Hy) as [[_ K]|K]; [right; exact K|left; exact K].
Qed.

Lemma Forall2_imp {A B} (P Q : A -> B -> Prop) l1 l2 :
  (forall a b, P a b -> Q a b) -> Forall2 P l1 l2 -> Forall2 Q l1 l2.
Proof. intros H F. induction F; constructor; auto. Qed.

(* zero-size box: the paint is removed, never resolved with a degenerate transform *)
Lemma no_bbox_fallback taken d0 users :
  g_units d0 = ObjectBoundingBox -> In (g_id d0) taken -> Forall (fun u => u_h u = Some 0%nat) users ->
  forall ctr, let '(st, out) := postpass taken [d0] ctr users in
    Forall2 (fun u_in u_out =>
       (~ (0 < rw (u_box u_in) /\ 0 < rh (u_box u_in)) -> u_h u_out = None) /\
       (forall d, user_def st u_out = Some d ->
          exists B, 0 < rw B /\ 0 < rh B /\ g_ts d = resolve_gradient_ts (g_ts d0) B)) users out.
Proof.
  intros Hobb Hsrc Hat ctr. pose proof (shared_users taken d0 users Hobb Hsrc Hat ctr) as K.
  destruct (postpass taken [d0] ctr users) as [st out]. destruct K as [K _].
  revert K. apply Forall2_imp. intros u_in u_out [Hb R]. unfold to_non_zero_rect in R. split.
  - intro Hz. destruct (nzrect_from_xywh _ _ _ _) as [B|] eqn:E; [|exact R].
    apply nz_some in E as (A1 & A2 & _). exfalso. apply Hz. split; assumption.
  - intros d Hd. destruct (nzrect_from_xywh _ _ _ _) as [B|] eqn:E.
    + destruct R as (h & d' & Eh & En & _ & Et). unfold user_def in Hd. rewrite Eh, En in Hd. inversion Hd; subst.
      apply nz_some in E as (A1 & A2 & ->). eexists. split; [|split; [|exact Et]]; simpl; assumption.
    + unfold user_def in Hd. rewrite R in Hd. discriminate.
Qed.

(* ------------------------------------------------------------------ nested content (F25) *)
Definition is_user (d : gdef) : Prop := g_units d = UserSpaceOnUse.
(* how the heap evolves: old cells keep user-space units, new cells are born in user space *)
Definition heap_le (H H' : list gdef) : Prop :=
  (forall h d, nth_error H h = Some d -> exists d', nth_error H' h = Some d' /\ (is_user d -> is_user d')) /\
  (forall h d', nth_error H h = None -> nth_error H' h = Some d' -> is_user d').
Lemma heap_le_refl H : heap_le H H.
Proof. split; [intros h d E; exists d; split; [exact E|auto]|intros h d' E1 E2; congruence]. Qed.
Lemma heap_le_trans A B C : heap_le A B -> heap_le B C -> heap_le A C.
Proof.
  intros [H1 N1] [H2 N2]. split.
  - intros h d E. destruct (H1 h d E) as (d1 & E1 & U1). destruct (H2 h d1 E1) as (d2 & E2 & U2).
    exists d2. split; [exact E2|auto].
  - intros h d' E1 E3. destruct (nth_error B h) as [d1|] eqn:EB.
    + destruct (H2 h d1 EB) as (d2 & E2 & U2). rewrite E2 in E3. inversion E3; subst. apply U2. apply (N1 h d1 E1 EB).
    + apply (N2 h d' EB E3).
Qed.
Lemma heap_le_app H x : is_user x -> heap_le H (H ++ [x]).
Proof.
  intro U. split.
  - intros h d E. exists d. split; [|auto]. rewrite nth_error_app1; [exact E|].
    apply nth_error_Some. congruence.
  - intros h d' E1 E2. apply nth_error_None in E1.
    rewrite nth_error_app2 in E2 by exact E1.
    destruct (h - length H)%nat; simpl in E2; [inversion E2; subst; exact U|destruct n; discriminate].
Qed.
Lemma heap_set_nth H : forall h d k, nth_error (heap_set H h d) k =
  if Nat.eqb k h then (match nth_error H h with Some _ => Some d | None => None end) else nth_error H k.
Proof.
  induction H as [|x r IH]; intros h d k; simpl.
  - destruct (Nat.eqb k h); destruct k, h; reflexivity.
  - destruct h, k; simpl; try reflexivity. apply IH.
Qed.
Lemma heap_le_set H h d : is_user d -> heap_le H (heap_set H h d).
Proof.
  intros U. split.
  - intros k e E. rewrite heap_set_nth. destruct (Nat.eqb k h) eqn:Ek.
    + apply Nat.eqb_eq in Ek. subst k. rewrite E. exists d. split; [reflexivity|auto].
    + exists e. split; [exact E|auto].
  - intros k d' E1 E2. rewrite heap_set_nth in E2. destruct (Nat.eqb k h) eqn:Ek.
    + apply Nat.eqb_eq in Ek. subst k. rewrite E1 in E2. discriminate.
    + congruence.
Qed.

Definition user_ok (H : list gdef) (u : user) : Prop :=
  match u_h u with
  | Some h => match nth_error H h with Some d => is_user d | None => True end
  | None => True
  end.
Lemma user_ok_le H H' u : heap_le H H' -> user_ok H u -> user_ok H' u.
Proof.
  unfold user_ok. intros [L N] O. destruct (u_h u) as [h|]; [|exact I].
  destruct (nth_error H h) as [d|] eqn:E.
  - destruct (L h d E) as (d' & E' & U). rewrite E'. auto.
  - destruct (nth_error H' h) as [d'|] eqn:E'; [|exact I]. apply (N h d' E E').
Qed.

Lemma resolve_def_user d B id : is_user (resolve_def d B id).
Proof. reflexivity. Qed.

Lemma process_user_ok taken st done u rest :
  let '(st', u') := process_user taken st done u rest in
  heap_le (ps_heap st) (ps_heap st') /\ user_ok (ps_heap st') u'.
Proof.
  unfold process_user. destruct (u_h u) as [h|] eqn:Eh.
  - destruct (nth_error (ps_heap st) h) as [d|] eqn:Ed.
    + destruct (units_eqb (g_units d) ObjectBoundingBox) eqn:Eu.
      * destruct (to_non_zero_rect (u_box u)) as [B|].
        -- destruct (Nat.eqb (refcount h (done ++ u :: rest)) 1).
           ++ simpl. split; [apply heap_le_set; apply resolve_def_user|].
              unfold user_ok. rewrite Eh. rewrite heap_set_nth, Nat.eqb_refl, Ed. apply resolve_def_user.
           ++ simpl. split; [apply heap_le_app; apply resolve_def_user|].
              unfold user_ok. simpl. rewrite nth_error_app2 by lia. rewrite Nat.sub_diag. simpl. apply resolve_def_user.
        -- split; [apply heap_le_refl|]. unfold user_ok. simpl. exact I.
      * split; [apply heap_le_refl|]. unfold user_ok. rewrite Eh, Ed.
        unfold is_user. destruct (g_units d); [reflexivity|discriminate].
    + split; [apply heap_le_refl|]. unfold user_ok. rewrite Eh, Ed. exact I.
  - split; [apply heap_le_refl|]. unfold user_ok. rewrite Eh. exact I.
Qed.

Lemma run_users_ok taken : forall todo st done,
  Forall (user_ok (ps_heap st)) done ->
  let '(st', out) := run_users taken st done todo in
  heap_le (ps_heap st) (ps_heap st') /\ Forall (user_ok (ps_heap st')) out.
Proof.
  induction todo as [|u rest IH]; intros st done Hd; simpl.
  - split; [apply heap_le_refl|exact Hd].
  - pose proof (process_user_ok taken st done u rest) as P.
    destruct (process_user taken st done u rest) as [st1 u1]. destruct P as [L O].
    specialize (IH st1 (done ++ [u1])).
    destruct (run_users taken st1 (done ++ [u1]) rest) as [st2 out].
    destruct IH as [L2 O2].
    + apply Forall_app. split; [|constructor; [exact O|constructor]].
      revert Hd. apply Forall_impl. intros a. apply user_ok_le. exact L.
    + split; [apply (heap_le_trans _ _ _ L L2)|exact O2].
Qed.

Lemma pats_set_nth ps : forall k p j, nth_error (pats_set ps k p) j =
  if Nat.eqb j k then (match nth_error ps k with Some _ => Some p | None => None end) else nth_error ps j.
Proof.
  induction ps as [|x r IH]; intros k p j; simpl.
  - destruct (Nat.eqb j k); destruct j, k; reflexivity.
  - destruct k, j; simpl; try reflexivity. apply IH.
Qed.

Definition content_ok (H : list gdef) (p : pattern) : Prop := Forall (user_ok H) (pt_content p).
Lemma content_ok_le H H' p : heap_le H H' -> content_ok H p -> content_ok H' p.
Proof. intros L. unfold content_ok. apply Forall_impl. intros a. apply user_ok_le. exact L. Qed.

(* one main-tree user of a pattern *)
Lemma process_puser_step taken all st pats u :
  let '(st1, pats1) := process_puser taken all (st, pats) u in
  heap_le (ps_heap st) (ps_heap st1) /\
  (forall k p1, nth_error pats1 k = Some p1 ->
     exists p, nth_error pats k = Some p /\ pt_units p1 = pt_units p /\ (p1 = p \/ content_ok (ps_heap st1) p1)) /\
  (forall p, nth_error pats (pu_pat u) = Some p -> pt_units p = UserSpaceOnUse -> pat_refcount (pu_pat u) all = 1%nat ->
     forall p1, nth_error pats1 (pu_pat u) = Some p1 -> content_ok (ps_heap st1) p1).
Proof.
  unfold process_puser. destruct (nth_error pats (pu_pat u)) as [p|] eqn:Ep.
  - destruct (units_eqb (pt_units p) UserSpaceOnUse) eqn:Eu.
    + destruct (Nat.eqb (pat_refcount (pu_pat u) all) 1) eqn:Er.
      * pose proof (run_users_ok taken (pt_content p) st [] (Forall_nil _)) as R.
        destruct (run_users taken st [] (pt_content p)) as [st' content']. destruct R as [L O].
        split; [exact L|]. split.
        -- intros k p1 E. rewrite pats_set_nth in E. destruct (Nat.eqb k (pu_pat u)) eqn:Ek.
           ++ apply Nat.eqb_eq in Ek. subst k. rewrite Ep in E. inversion E; subst.
              exists p. split; [exact Ep|]. split; [reflexivity|]. right. exact O.
           ++ exists p1. split; [exact E|]. split; [reflexivity|]. left. reflexivity.
        -- intros p0 _ _ _ p1 E. rewrite pats_set_nth, Nat.eqb_refl, Ep in E. inversion E; subst. exact O.
      * split; [apply heap_le_refl|]. split.
        -- intros k p1 E. exists p1. split; [exact E|]. split; [reflexivity|]. left. reflexivity.
        -- intros p0 _ _ Hc. apply Nat.eqb_neq in Er. contradiction.
    + split; [apply heap_le_refl|]. split.
      * intros k p1 E. exists p1. split; [exact E|]. split; [reflexivity|]. left. reflexivity.
      * intros p0 E0 Hu _. inversion E0; subst. rewrite Hu in Eu. discriminate.
  - split; [apply heap_le_refl|]. split.
    + intros k p1 E. exists p1. split; [exact E|]. split; [reflexivity|]. left. reflexivity.
    + intros p0 E0. discriminate.
Qed.

Lemma fold_none taken all : forall todo acc k, nth_error (snd acc) k = None ->
  nth_error (snd (fold_left (process_puser taken all) todo acc)) k = None.
Proof.
  induction todo as [|w r IHr]; intros [s ps] k En; simpl; [exact En|].
  apply IHr. unfold process_puser. simpl in En.
  destruct (nth_error ps (pu_pat w)) as [p|] eqn:Ep; [|exact En].
  destruct (units_eqb (pt_units p) UserSpaceOnUse); [|exact En].
  destruct (Nat.eqb (pat_refcount (pu_pat w) all) 1); [|exact En].
  destruct (run_users taken s [] (pt_content p)) as [s' c']. simpl.
  rewrite pats_set_nth. destruct (Nat.eqb k (pu_pat w)) eqn:Ek; [|exact En].
  apply Nat.eqb_eq in Ek. subst k. rewrite En in Ep. discriminate.
Qed.

Lemma fold_keep taken all : forall todo acc k p1,
  nth_error (snd acc) k = Some p1 -> content_ok (ps_heap (fst acc)) p1 ->
  forall p2, nth_error (snd (fold_left (process_puser taken all) todo acc)) k = Some p2 ->
             content_ok (ps_heap (fst (fold_left (process_puser taken all) todo acc))) p2.
Proof.
  induction todo as [|w r IHr]; intros [s ps] k q1 Eq Cq q2 Eq2; cbn [fold_left fst snd] in *.
  - rewrite Eq in Eq2. inversion Eq2; subst. exact Cq.
  - pose proof (process_puser_step taken all s ps w) as S.
    destruct (process_puser taken all (s, ps) w) as [s1 ps1]. destruct S as (L & P & _).
    destruct (nth_error ps1 k) as [q1'|] eqn:Eq1'.
    + apply (IHr (s1, ps1) k q1' Eq1'); [|exact Eq2].
      destruct (P k q1' Eq1') as (q & Eqq & _ & D). rewrite Eq in Eqq. inversion Eqq; subst q.
      destruct D as [->|D]; [apply (content_ok_le _ _ _ L Cq)|exact D].
    + rewrite (fold_none taken all r (s1, ps1) k Eq1') in Eq2. discriminate.
Qed.

Definition nested_inv (H0 : list gdef) (pats0 : list pattern) (acc : pstate * list pattern) : Prop :=
  heap_le H0 (ps_heap (fst acc)) /\
  forall k p1, nth_error (snd acc) k = Some p1 ->
    exists p, nth_error pats0 k = Some p /\ pt_units p1 = pt_units p /\ (p1 = p \/ content_ok (ps_heap (fst acc)) p1).

Lemma nested_fold taken all H0 pats0 : forall todo acc,
  nested_inv H0 pats0 acc ->
  let acc' := fold_left (process_puser taken all) todo acc in
  nested_inv H0 pats0 acc' /\
  forall u, In u todo -> pat_refcount (pu_pat u) all = 1%nat ->
    forall p0, nth_error pats0 (pu_pat u) = Some p0 -> pt_units p0 = UserSpaceOnUse ->
    forall p2, nth_error (snd acc') (pu_pat u) = Some p2 -> content_ok (ps_heap (fst acc')) p2.
Proof.
  induction todo as [|u rest IH]; intros [st pats] [HL HP]; cbn [fold_left fst snd] in *.
  - split; [split; assumption|]. intros u [].
  - pose proof (process_puser_step taken all st pats u) as S.
    destruct (process_puser taken all (st, pats) u) as [st1 pats1] eqn:E1.
    destruct S as (L1 & P1 & R1).
    assert (J1 : nested_inv H0 pats0 (st1, pats1)).
    { split; simpl.
      - apply (heap_le_trans _ _ _ HL L1).
      - intros k p1 E. destruct (P1 k p1 E) as (p & Ep & Eu & D).
        destruct (HP k p Ep) as (p0 & Ep0 & Eu0 & D0).
        exists p0. split; [exact Ep0|]. split; [congruence|].
        destruct D as [->|D]; [|right; exact D].
        destruct D0 as [->|D0]; [left; reflexivity|right; apply (content_ok_le _ _ _ L1 D0)]. }
    destruct (IH (st1, pats1) J1) as [J2 R2]. split; [exact J2|].
    intros v [<-|Hv] Hc p0 Ep0 Hu p2 E2; [|apply (R2 v Hv Hc p0 Ep0 Hu p2 E2)].
    (* the user just processed: resolved at its turn, later steps keep it resolved *)
    destruct (nth_error pats1 (pu_pat u)) as [p1|] eqn:Ep1.
    + apply (fold_keep taken all rest (st1, pats1) (pu_pat u) p1 Ep1); [|exact E2].
      destruct (P1 _ _ Ep1) as (p & Ep & Eu & _).
      destruct (HP _ _ Ep) as (p0' & Ep0' & Eu0 & _). rewrite Ep0 in Ep0'. inversion Ep0'; subst p0'.
      apply (R1 p Ep); [congruence|exact Hc|reflexivity].
    + rewrite (fold_none taken all rest (st1, pats1) _ Ep1) in E2. discriminate.
Qed.

(* guarded: outside the known class every paint reachable through a used user-space pattern is resolved *)
Lemma user_ok_b st u : user_ok (ps_heap st) u ->
  match user_def st u with Some d => units_eqb (g_units d) UserSpaceOnUse | None => true end = true.
Proof.
  unfold user_ok, user_def. destruct (u_h u) as [h|]; [|reflexivity].
  destruct (nth_error (ps_heap st) h) as [d|]; [|reflexivity]. unfold is_user. intros ->. reflexivity.
Qed.

Lemma nested_guarded taken heap ctr pats users :
  Forall (fun p => pt_units p = UserSpaceOnUse) pats ->
  KnownClass_shared_nested heap pats users = false ->
  nested_resolved (postpass_nested taken heap ctr pats users) users = true.
Proof.
  intros Hu Hk. unfold postpass_nested.
  assert (J0 : nested_inv heap pats ({| ps_heap := heap; ps_ctr := ctr |}, pats)).
  { split; simpl; [apply heap_le_refl|]. intros k p1 E. exists p1. split; [exact E|]. split; [reflexivity|left; reflexivity]. }
  destruct (nested_fold taken users heap pats users _ J0) as [[HL HP] R].
  set (res := fold_left (process_puser taken users) users ({| ps_heap := heap; ps_ctr := ctr |}, pats)) in *.
  unfold nested_resolved. apply forallb_forall. intros u Hin.
  destruct (nth_error (snd res) (pu_pat u)) as [p2|] eqn:E2; [|reflexivity].
  destruct (HP _ _ E2) as (p0 & Ep0 & Eu0 & D).
  assert (Up0 : pt_units p0 = UserSpaceOnUse).
  { rewrite Forall_forall in Hu. apply Hu. apply (nth_error_In _ _ Ep0). }
  assert (C : content_ok (ps_heap (fst res)) p2).
  { destruct D as [->|D]; [|exact D].
    destruct (Nat.eq_dec (pat_refcount (pu_pat u) users) 1) as [Hc|Hc].
    - apply (R u Hin Hc p0 Ep0 Up0 p0 E2).
    - (* shared: outside the known class its content holds no objectBoundingBox paint *)
      unfold KnownClass_shared_nested in Hk.
      assert (Hk' : (negb (Nat.eqb (pat_refcount (pu_pat u) users) 1) && content_has_obb heap p0) = false).
      { destruct (negb (Nat.eqb (pat_refcount (pu_pat u) users) 1) && content_has_obb heap p0) eqn:Eb; [|reflexivity].
        assert (existsb (fun u0 => match nth_error pats (pu_pat u0) with
                                   | Some p => negb (Nat.eqb (pat_refcount (pu_pat u0) users) 1) && content_has_obb heap p
                                   | None => false end) users = true).
        { apply existsb_exists. exists u. split; [exact Hin|]. rewrite Ep0. exact Eb. }
        congruence. }
      assert (Nb : Nat.eqb (pat_refcount (pu_pat u) users) 1 = false) by (apply Nat.eqb_neq; exact Hc).
      rewrite Nb in Hk'. simpl in Hk'.
      apply (content_ok_le heap); [exact HL|].
      unfold content_ok. apply Forall_forall. intros cu Hcu. unfold user_ok.
      destruct (u_h cu) as [h|] eqn:Eh; [|exact I]. destruct (nth_error heap h) as [d|] eqn:Ed; [|exact I].
      unfold content_has_obb in Hk'.
      destruct (units_eqb (g_units d) ObjectBoundingBox) eqn:Eo.
      + exfalso.
        assert (existsb (fun u0 => match u_h u0 with
                                   | Some h0 => match nth_error heap h0 with
                                                | Some d0 => units_eqb (g_units d0) ObjectBoundingBox | None => false end
                                   | None => false end) (pt_content p0) = true).
        { apply existsb_exists. exists cu. split; [exact Hcu|]. rewrite Eh, Ed. exact Eo. }
        congruence.
      + unfold is_user. destruct (g_units d); [reflexivity|discriminate]. }
  unfold content_resolved. apply forallb_forall. intros cu Hcu.
  apply user_ok_b. unfold content_ok in C. rewrite Forall_forall in C. apply C. exact Hcu.
Qed.

Lemma nested_refuted :
  exists taken heap ctr pats users,
    Forall (fun p => pt_units p = UserSpaceOnUse) pats /\
    KnownClass_shared_nested heap pats users = true /\
    nested_resolved (postpass_nested taken heap ctr pats users) users = false.
Proof.
  exists [7%N], [{| g_id := 7%N; g_units := ObjectBoundingBox; g_ts := ts_identity |}], 0%N,
         [{| pt_units := UserSpaceOnUse; pt_content := [{| u_h := Some 0%nat; u_box := {| rx := 0; ry := 0; rw := 10; rh := 10 |} |}] |}],
         [{| pu_pat := 0%nat; pu_box := {| rx := 0; ry := 0; rw := 80; rh := 80 |} |};
          {| pu_pat := 0%nat; pu_box := {| rx := 100; ry := 0; rw := 80; rh := 80 |} |}].
  split; [repeat constructor|]. vm_compute. split; reflexivity.
Qed.

(* ------------------------------------------------------------------ clip paths and the conversion cache (F18, fixed by 18adf92) *)
Lemma chain_cacheable_iff c : chain_cacheable c = negb (chain_has_obb c).
Proof.
  unfold chain_cacheable, chain_has_obb, clip_cacheable. induction c as [|e r IH]; simpl; [reflexivity|].
  rewrite IH. destruct (units_eqb (ce_units e) ObjectBoundingBox); simpl; [reflexivity|].
  destruct (existsb _ r); reflexivity.
Qed.

Lemma expected_indep c : chain_has_obb c = false ->
  forall b, clip_expected c b = clip_expected c None /\ exists l, clip_expected c None = Some l.
Proof.
  induction c as [|e link IH]; intros H b; simpl.
  - split; [reflexivity|]. exists []. reflexivity.
  - unfold chain_has_obb in H. simpl in H. apply orb_false_elim in H as [He Hl].
    destruct (IH Hl b) as [E1 (l & E2)]. unfold clip_elem_ts. rewrite He. rewrite E1, E2.
    split; [reflexivity|]. eexists. reflexivity.
Qed.

Local Arguments chain_cacheable : simpl never.
Section ClipCache.
  Variable taken : list N.
  (* the clip path chains of one document: closed under links, an id names one element, ids are document ids *)
  Variable inD : csrc -> Prop.
  Hypothesis D_tl : forall e link, inD (e :: link) -> link = [] \/ inD link.
  Hypothesis D_inj : forall e1 l1 e2 l2, inD (e1 :: l1) -> inD (e2 :: l2) -> ce_id e1 = ce_id e2 -> e1 :: l1 = e2 :: l2.
  Hypothesis D_taken : forall e l, inD (e :: l) -> In (ce_id e) taken.

  (* what is cached under the id of a fully user-space chain is its box-independent conversion *)
  Definition cache_ok (st : cstate) : Prop :=
    forall e link v, inD (e :: link) -> chain_has_obb (e :: link) = false ->
      cache_get (cs_cache st) (ce_id e) = Some v -> Some (cconv_ts v) = clip_expected (e :: link) None.

  Definition result_ok (c : csrc) (bbox : option qrect) (r : option cconv) : Prop :=
    match clip_expected c bbox with
    | Some l => exists v, r = Some v /\ cconv_ts v = l
    | None => r = None
    end.

  Lemma convert_ok : forall c, (c = [] \/ inD c) ->
    forall bbox st, cache_ok st ->
      let '(r, st') := clip_convert taken c bbox st in cache_ok st' /\ result_ok c bbox r.
  Proof.
    induction c as [|e link IH]; intros Hin bbox st Hc.
    - simpl. split; [exact Hc|]. unfold result_ok. simpl. exists []. split; reflexivity.
    - destruct Hin as [Hin|Hin]; [discriminate|].
      assert (Hlink : link = [] \/ inD link) by (apply (D_tl e); exact Hin).
      simpl clip_convert. rewrite chain_cacheable_iff.
      destruct (chain_has_obb (e :: link)) eqn:Hall; simpl negb.
      + (* some clip path of the chain is objectBoundingBox: converted afresh with this user's box, never looked up *)
        cbv iota.
        destruct (clip_elem_ts e bbox) as [t'|] eqn:Et.
        * specialize (IH Hlink bbox st Hc).
          destruct (clip_convert taken link bbox st) as [rl st1]. destruct IH as [Hc1 Rl].
          unfold result_ok in *. simpl clip_expected. rewrite Et.
          destruct (clip_expected link bbox) as [ll|] eqn:Ell.
          -- destruct Rl as (lk & -> & Elk). simpl. split.
             ++ intros e2 l2 v2 Hin2 Hall2 Eg2. simpl in Eg2.
                set (regen := match cache_get (cs_cache st1) (ce_id e) with Some _ => true | None => false end) in *.
                destruct (N.eqb (if regen then gen_id taken (cs_ctr st1) else ce_id e) (ce_id e2)) eqn:Eid.
                ** exfalso. apply N.eqb_eq in Eid. destruct regen.
                   --- destruct (gen_id_fresh taken (cs_ctr st1)) as [_ G]. apply G. rewrite Eid. apply (D_taken e2 l2 Hin2).
                   --- pose proof (D_inj _ _ _ _ Hin Hin2 Eid) as Eq. inversion Eq; subst e2 l2. congruence.
                ** apply (Hc1 e2 l2 v2 Hin2 Hall2 Eg2).
             ++ eexists. split; [reflexivity|]. unfold cconv_ts. simpl. fold (cconv_ts lk). rewrite Elk. reflexivity.
          -- subst rl. split; [exact Hc1|reflexivity].
        * split; [exact Hc|]. unfold result_ok. simpl. rewrite Et. reflexivity.
      + (* the whole chain is in user space: box-independent, may be shared *)
        assert (Hsplit : units_eqb (ce_units e) ObjectBoundingBox = false /\ chain_has_obb link = false).
        { unfold chain_has_obb in Hall. simpl in Hall. apply orb_false_elim in Hall. exact Hall. }
        destruct Hsplit as [He Hlall].
        destruct (expected_indep (e :: link) Hall bbox) as [Ei (l & El)].
        destruct (cache_get (cs_cache st) (ce_id e)) as [v|] eqn:Eg.
        * split; [exact Hc|]. unfold result_ok. rewrite Ei, El. exists v. split; [reflexivity|].
          pose proof (Hc e link v Hin Hall Eg) as K. rewrite El in K. inversion K. reflexivity.
        * unfold clip_elem_ts. rewrite He.
          specialize (IH Hlink bbox st Hc).
          destruct (clip_convert taken link bbox st) as [rl st1]. destruct IH as [Hc1 Rl].
          destruct (expected_indep link Hlall bbox) as [Eli (ll & Ell)].
          unfold result_ok in Rl. rewrite Eli, Ell in Rl. destruct Rl as (lk & -> & Elk).
          simpl. split.
          -- intros e2 l2 v2 Hin2 Hall2 Eg2. simpl in Eg2.
             destruct (N.eqb (ce_id e) (ce_id e2)) eqn:Eid.
             ++ apply N.eqb_eq in Eid. pose proof (D_inj _ _ _ _ Hin Hin2 Eid) as Eq. inversion Eq; subst e2 l2.
                inversion Eg2; subst v2. simpl. unfold cconv_ts. simpl. fold (cconv_ts lk). rewrite Elk.
                unfold clip_elem_ts. rewrite He. rewrite Ell. reflexivity.
             ++ apply (Hc1 e2 l2 v2 Hin2 Hall2 Eg2).
          -- unfold result_ok. rewrite Ei. simpl. unfold clip_elem_ts. rewrite He. rewrite Ell.
             eexists. split; [reflexivity|]. unfold cconv_ts. simpl. fold (cconv_ts lk). rewrite Elk. reflexivity.
  Qed.

  (* any sequence of users of chains of the document *)
  Lemma clip_users_ok : forall us st, cache_ok st ->
    Forall (fun p => inD (fst p)) us ->
    Forall2 (fun p r => result_ok (fst p) (snd p) r) us (clip_users taken us st).
  Proof.
    induction us as [|[c b] rest IH]; intros st Hc Hus; simpl; [constructor|].
    inversion Hus as [|x y Hin Hr]; subst. simpl in Hin.
    pose proof (convert_ok c (or_intror Hin) b st Hc) as K.
    destruct (clip_convert taken c b st) as [r st']. destruct K as [Hc' R].
    constructor; [exact R|]. apply IH; assumption.
  Qed.
End ClipCache.

Lemma cache_ok_empty inD ctr : cache_ok inD {| cs_cache := []; cs_ctr := ctr |}.
Proof. intros e link v _ _ E. simpl in E. discriminate. Qed.

(* the F18 shape: outer (user space) -> inner (objectBoundingBox), two users with different boxes *)
Definition f18_chain : csrc :=
  [ {| ce_id := 1; ce_units := UserSpaceOnUse; ce_ts := ts_identity |};
    {| ce_id := 2; ce_units := ObjectBoundingBox; ce_ts := ts_identity |} ].
Definition f18_b1 : qrect := {| rx := 10; ry := 10; rw := 40; rh := 40 |}.
Definition f18_b2 : qrect := {| rx := 100; ry := 20; rw := 80; rh := 60 |}.

(* ------------------------------------------------------------------ object bounding box of a group *)
Local Open Scope Q_scope.
Lemma Qmin_o_le a b : Qmin_o a b <= a /\ Qmin_o a b <= b.
Proof. unfold Qmin_o. destruct (Qleb a b) eqn:E; [apply Qleb_true in E|apply Qleb_false in E]; split; lra. Qed.
Lemma Qmax_o_ge a b : a <= Qmax_o a b /\ b <= Qmax_o a b.
Proof. unfold Qmax_o. destruct (Qleb a b) eqn:E; [apply Qleb_true in E|apply Qleb_false in E]; split; lra. Qed.

Lemma rect_union_inside a b : rect_inside a (rect_union a b) /\ rect_inside b (rect_union a b).
Proof.
  unfold rect_inside, rect_union, r_right, r_bottom. simpl.
  pose proof (Qmin_o_le (rx a) (rx b)) as [X1 X2]. pose proof (Qmin_o_le (ry a) (ry b)) as [Y1 Y2].
  pose proof (Qmax_o_ge (rx a + rw a) (rx b + rw b)) as [R1 R2]. pose proof (Qmax_o_ge (ry a + rh a) (ry b + rh b)) as [B1 B2].
  repeat split; lra.
Qed.
Lemma rect_inside_trans a b c : rect_inside a b -> rect_inside b c -> rect_inside a c.
Proof. unfold rect_inside. intros (A1 & A2 & A3 & A4) (B1 & B2 & B3 & B4). repeat split; lra. Qed.
Lemma rect_inside_refl a : rect_inside a a.
Proof. unfold rect_inside. repeat split; lra. Qed.

Lemma union_children_inside cs : forall acc u, union_children acc cs = Some u ->
  (forall a, acc = Some a -> rect_inside a u) /\
  (forall c, In c cs -> gc_empty_group c = false -> rect_inside (gc_box c) u).
Proof.
  induction cs as [|c r IH]; intros acc u H; simpl in H.
  - split; [intros a ->; inversion H; apply rect_inside_refl|intros c []].
  - destruct (gc_empty_group c) eqn:Ec.
    + destruct (IH acc u H) as [A B]. split; [exact A|].
      intros c' [<-|Hin] Hc; [congruence|apply B; assumption].
    + destruct (IH _ u H) as [A B]. split.
      * intros a ->. apply (rect_inside_trans _ (rect_union a (gc_box c))); [apply rect_union_inside|apply A; reflexivity].
      * intros c' [<-|Hin] Hc; [|apply B; assumption].
        destruct acc as [a|].
        -- apply (rect_inside_trans _ (rect_union a (gc_box c))); [apply rect_union_inside|apply A; reflexivity].
        -- apply A. reflexivity.
Qed.

(* every child that is not an empty group - zero-area ones included - lies inside the object box *)
Lemma object_bbox_contains cs B : object_bbox cs = Some B ->
  forall c, In c cs -> gc_empty_group c = false -> rect_inside (gc_box c) B.
Proof.
  unfold object_bbox. destruct (union_children None cs) as [u|] eqn:E; [|discriminate].
  unfold to_non_zero_rect. intros H c Hin Hc. apply nz_some in H as (_ & _ & ->).
  destruct (union_children_inside cs None u E) as [_ K]. specialize (K c Hin Hc).
  unfold rect_inside, r_right, r_bottom in *. simpl. destruct u; simpl in *. exact K.
Qed.
