(* Lemmas about Model/Writer.v: every reference written is defined (given C05's conclusions about the
   tree), one prefix everywhere, xlink declared when used, the root element. *)
From RV Require Import Model.Tree.
From RV Require Import Model.Writer.
From RV Require Import Proofs.Tree.
From RV Require Import Proofs.Collect.
From RV Require Import Proofs.Closure.
From Coq Require Import NArith List Bool Lia.
Import ListNotations.
Local Open Scope N_scope.

Definition ldefs (l : list xout) : list (N * N) := flat_map defs_of l.
Definition lrefs (l : list xout) : list (N * N) := flat_map refs_of l.

Lemma defs_of_eq tag a k : defs_of (XE tag a k) = flat_map attr_defs a ++ ldefs k.
Proof. reflexivity. Qed.
Lemma refs_of_eq tag a k : refs_of (XE tag a k) = flat_map attr_refs a ++ lrefs k.
Proof. reflexivity. Qed.
Lemma ldefs_app a b : ldefs (a ++ b) = ldefs a ++ ldefs b.
Proof. apply flat_map_app. Qed.
Lemma lrefs_app a b : lrefs (a ++ b) = lrefs a ++ lrefs b.
Proof. apply flat_map_app. Qed.
Lemma in_lrefs_map {X} (f : X -> xout) l r : In r (lrefs (map f l)) -> exists x, In x l /\ In r (refs_of (f x)).
Proof.
  unfold lrefs. rewrite flat_map_concat_map, map_map, <- flat_map_concat_map. intro H.
  apply in_flat_map in H. exact H.
Qed.
Lemma in_ldefs_map {X} (f : X -> xout) l x d : In x l -> In d (defs_of (f x)) -> In d (ldefs (map f l)).
Proof.
  intros Hx Hd. unfold ldefs. apply in_flat_map. exists (f x). split; auto. apply in_map. exact Hx.
Qed.
Lemma in_lrefs_flat_map {X} (f : X -> list xout) l r :
  In r (lrefs (flat_map f l)) -> exists x, In x l /\ In r (lrefs (f x)).
Proof.
  unfold lrefs. induction l as [|x l IH]; simpl; [intros []|]. rewrite flat_map_app. intro H.
  apply in_app_or in H. destruct H as [H|H]; [exists x; auto|]. destruct (IH H) as (y & Hy & Hr). exists y; auto.
Qed.

Section W.
  Variable o : wopts.
  Let p := w_prefix o.

  (* ---------------------------------------------------------------- unfolding *)
  Lemma write_group_noclip i c m fs ks :
    write_group o (G i c m fs ks) false =
    [XE Tg (id_attr o i ++ opt_url o K_CLIP c_id c ++ opt_url o K_MASK m_id m ++
            match fs with [] => [] | _ => [AUrls (map (fun f => (p, f_id f)) fs)] end)
        (flat_map (fun k => write_node o k false) ks)].
  Proof. reflexivity. Qed.

  Definition clip_kid (c : option clipdef) (k : node) : list xout :=
    match k with NPath pi fl st => [write_path o pi fl st (option_map c_id c)] | _ => [] end.
  Lemma write_group_clip i c m fs ks :
    write_group o (G i c m fs ks) true = flat_map (clip_kid c) ks.
  Proof.
    cbn [write_group]. induction ks as [|k r IH]; [reflexivity|].
    destruct k; simpl; rewrite <- IH; reflexivity.
  Qed.
  Lemma write_node_group g clip : write_node o (NGroup g) clip = write_group o g clip.
  Proof. reflexivity. Qed.
  Lemma write_node_text i flat ch clip :
    write_node o (NText i flat ch) clip =
    if w_preserve_text o then [XE Ttext (id_attr o i) (map (write_chunk o) ch)] else write_group o flat clip.
  Proof. reflexivity. Qed.

  Lemma paint_attr_refs k pa r : In r (flat_map attr_refs (paint_attr o k pa)) -> is_server pa = true /\ r = (p, pa_id pa).
  Proof. destruct pa; simpl; intro H; try contradiction; destruct H as [H|[]]; subst; auto. Qed.
  Lemma id_attr_refs i : flat_map attr_refs (id_attr o i) = [].
  Proof. unfold id_attr. destruct (i =? 0); reflexivity. Qed.

  Lemma write_path_refs i fl st cr r :
    In r (refs_of (write_path o i fl st cr)) ->
    (is_server fl = true /\ r = (p, pa_id fl)) \/ (is_server st = true /\ r = (p, pa_id st)) \/
    (exists c, cr = Some c /\ r = (p, c)).
  Proof.
    unfold write_path. rewrite refs_of_eq. simpl lrefs. rewrite app_nil_r, !flat_map_app, id_attr_refs. simpl.
    intro H. apply in_app_or in H. destruct H as [H|H]; [left; apply (paint_attr_refs _ _ _ H)|].
    apply in_app_or in H. destruct H as [H|H]; [right; left; apply (paint_attr_refs _ _ _ H)|].
    right. right. destruct cr as [c|]; simpl in H; [|destruct H]. destruct H as [<-|[]]. eauto.
  Qed.

  (* ---------------------------------------------------------------- references of written content *)
  Section Content.
    Variable root : group.
    Let U := all_group root.
    Variable Good : N * N -> Prop.
    Hypothesis Hc : forall g c, In (NGroup g) U -> In c (ochain clip_chain (g_clip g)) -> Good (p, c_id c).
    Hypothesis Hm : forall g c, In (NGroup g) U -> In c (ochain mask_chain (g_mask g)) -> Good (p, m_id c).
    Hypothesis Hf : forall g f, In (NGroup g) U -> In f (g_filters g) -> Good (p, f_id f).
    Hypothesis Hp : forall i fl st d, In (NPath i fl st) U -> In d [fl; st] -> is_server d = true -> Good (p, pa_id d).
    Hypothesis Hs : w_preserve_text o = true ->
      forall n d, In n U -> In d (span_paints_of n) -> Good (p, pa_id d).
    Hypothesis Htp : w_preserve_text o = true ->
      forall i flat ch q j sp, In (NText i flat ch) U -> In (CH (Some (q, j)) sp) ch -> Good (p, j).
    Hypothesis Hflat : forall i flat ch, In (NText i flat ch) U ->
      g_clip flat = None /\ g_mask flat = None /\ g_filters flat = [].

    Definition own_ok (g : group) : Prop :=
      (forall c, g_clip g = Some c -> Good (p, c_id c)) /\
      (forall c, g_mask g = Some c -> Good (p, m_id c)) /\
      (forall f, In f (g_filters g) -> Good (p, f_id f)).

    Lemma chunk_refs i flat ch c r :
      w_preserve_text o = true -> In (NText i flat ch) U -> In c ch -> In r (refs_of (write_chunk o c)) -> Good r.
    Proof.
      intros Hpt Hn Hin Hr. destruct c as [tp sp].
      assert (Hspans : forall r, In r (lrefs (map (write_ppair o) sp)) -> Good r).
      { intros r0 H0. apply in_lrefs_map in H0. destruct H0 as (pp & Hpp & H0). destruct pp as [fl st].
        simpl in H0. rewrite app_nil_r, flat_map_app in H0.
        assert (Hd : forall d, In d [fl; st] -> is_server d = true -> Good (p, pa_id d)).
        { intros d Hd Hsv. apply (Hs Hpt (NText i flat ch)); auto. unfold span_paints_of. apply in_flat_map.
          exists (CH tp sp). split; auto.
          change (In d (flat_map (fun pp => match pp with PP fl0 st0 => filter is_server [fl0; st0] end) sp)).
          apply in_flat_map. exists (PP fl st). split; auto.
          change (In d (filter is_server [fl; st])). apply filter_In. split; auto. }
        apply in_app_or in H0. destruct H0 as [H0|H0]; apply paint_attr_refs in H0; destruct H0 as [Hsv ->];
          apply Hd; simpl; auto. }
      simpl in Hr. destruct tp as [[q j]|].
      - rewrite refs_of_eq in Hr. simpl in Hr. destruct Hr as [<-|Hr]; [apply (Htp Hpt i flat ch q j sp); auto|].
        rewrite app_nil_r in Hr. apply Hspans. exact Hr.
      - rewrite refs_of_eq in Hr. simpl in Hr. apply Hspans. exact Hr.
    Qed.

    Lemma content_all :
      (forall n, In n U -> forall clip r, In r (lrefs (write_node o n clip)) -> Good r) /\
      (forall g, (forall k, In k (g_kids g) -> In k U) -> own_ok g ->
                 forall clip r, In r (lrefs (write_group o g clip)) -> Good r) /\
      (forall c : clipdef, True) /\ (forall m : maskdef, True) /\ (forall f : filterdef, True) /\
      (forall x : prim, True) /\ (forall x : paint, True).
    Proof.
      apply tree_mutind; auto.
      - (* NGroup *)
        intros g Hg Hn clip r Hr. rewrite write_node_group in Hr. apply (Hg (fun k => U_kid root g k Hn)) with (clip := clip); auto.
        repeat split.
        + intros c E. apply (Hc g c Hn). rewrite E. simpl. apply clip_chain_head.
        + intros c E. apply (Hm g c Hn). rewrite E. simpl. apply mask_chain_head.
        + intros f Hin. apply (Hf g f Hn Hin).
      - (* NPath *)
        intros i fl st _ _ Hn clip r Hr. simpl in Hr. rewrite app_nil_r in Hr.
        apply write_path_refs in Hr. destruct Hr as [[Hsv ->]|[[Hsv ->]|(c & E & _)]]; [| |discriminate].
        + apply (Hp i fl st fl Hn); simpl; auto.
        + apply (Hp i fl st st Hn); simpl; auto.
      - (* NImage *)
        intros i sub _ Hn clip r Hr. simpl in Hr. rewrite app_nil_r, flat_map_app, id_attr_refs in Hr. destruct Hr.
      - (* NText *)
        intros i flat ch Hfl Hn clip r Hr. rewrite write_node_text in Hr.
        destruct (w_preserve_text o) eqn:Hpt.
        + simpl in Hr. rewrite app_nil_r, id_attr_refs in Hr. simpl in Hr.
          change (In r (lrefs (map (write_chunk o) ch))) in Hr. apply in_lrefs_map in Hr.
          destruct Hr as (c & Hin & Hr). eapply chunk_refs; eauto.
        + apply Hfl with (clip := clip); auto.
          * intros k Hk. apply (U_text_kid root i flat ch k Hn Hk).
          * destruct (Hflat i flat ch Hn) as (E1 & E2 & E3). repeat split.
            -- intros c E. congruence.
            -- intros c E. congruence.
            -- intros f Hin. rewrite E3 in Hin. destruct Hin.
      - (* G *)
        intros i c m fs ks _ _ _ Hks Hkids Hown clip r Hr. destruct Hown as (O1 & O2 & O3). simpl in *.
        destruct clip.
        + rewrite write_group_clip in Hr. apply in_lrefs_flat_map in Hr. destruct Hr as (k & Hk & Hr).
          destruct k as [|pi fl st| |]; simpl in Hr; try destruct Hr. rewrite app_nil_r in Hr.
          apply write_path_refs in Hr. destruct Hr as [[Hsv ->]|[[Hsv ->]|(c0 & E & ->)]].
          * apply (Hp pi fl st fl (Hkids _ Hk)); simpl; auto.
          * apply (Hp pi fl st st (Hkids _ Hk)); simpl; auto.
          * destruct c as [cd|]; simpl in E; [|discriminate]. inversion E; subst. apply O1. reflexivity.
        + rewrite write_group_noclip in Hr. simpl in Hr. rewrite app_nil_r in Hr. rewrite !flat_map_app, id_attr_refs in Hr.
          simpl in Hr. apply in_app_or in Hr. destruct Hr as [Hr|Hr].
          { destruct c as [cd|]; simpl in Hr; [|destruct Hr]. destruct Hr as [<-|[]]. apply O1. reflexivity. }
          apply in_app_or in Hr. destruct Hr as [Hr|Hr].
          { destruct m as [cd|]; simpl in Hr; [|destruct Hr]. destruct Hr as [<-|[]]. apply O2. reflexivity. }
          apply in_app_or in Hr. destruct Hr as [Hr|Hr].
          { destruct fs as [|f0 fr]; [destruct Hr|]. simpl in Hr. rewrite app_nil_r in Hr.
            change (In r (map (fun f => (p, f_id f)) (f0 :: fr))) in Hr. apply in_map_iff in Hr.
            destruct Hr as (f & <- & Hin). apply O3. exact Hin. }
          change (In r (lrefs (flat_map (fun k => write_node o k false) ks))) in Hr.
          apply in_lrefs_flat_map in Hr. destruct Hr as (k & Hk & Hr).
          rewrite Forall_forall in Hks. apply (Hks k Hk (Hkids k Hk) false r Hr).
    Qed.

    Lemma node_refs_good n clip r : In n U -> In r (lrefs (write_node o n clip)) -> Good r.
    Proof. intros Hn Hr. destruct content_all as (H & _). eapply H; eauto. Qed.

    (* write_elements of a sub-root whose children are in the universe *)
    Lemma elements_refs_good g clip r :
      (forall k, In k (g_kids g) -> In k U) -> In r (lrefs (write_elements o g clip)) -> Good r.
    Proof.
      intros Hk Hr. unfold write_elements in Hr. apply in_lrefs_flat_map in Hr. destruct Hr as (k & Hin & Hr).
      apply (node_refs_good k clip r (Hk k Hin) Hr).
    Qed.
  End Content.

  (* ---------------------------------------------------------------- ids written *)
  Lemma id_attr_defs i : i <> 0 -> flat_map attr_defs (id_attr o i) = [(p, i)].
  Proof. intro H. unfold id_attr. apply N.eqb_neq in H. rewrite H. reflexivity. Qed.

  (* a node with an id is written with that id, when its text representation carries the same id *)
  Definition flat_id_ok (n : node) : Prop :=
    match n with NText i flat _ => g_id flat = i | _ => True end.
  Lemma write_node_has_id n : node_id n <> 0 -> flat_id_ok n -> In (p, node_id n) (ldefs (write_node o n false)).
  Proof.
    intros Hn Hfl. destruct n as [g|i fl st|i sub|i flat ch]; simpl in Hn.
    - destruct g as [i c m fs ks]. rewrite write_node_group, write_group_noclip. simpl. rewrite !flat_map_app.
      rewrite (id_attr_defs i Hn). simpl. auto.
    - simpl. rewrite !flat_map_app, (id_attr_defs i Hn). simpl. auto.
    - simpl. rewrite !flat_map_app, (id_attr_defs i Hn). simpl. auto.
    - rewrite write_node_text. destruct (w_preserve_text o).
      + simpl. rewrite (id_attr_defs i Hn). simpl. auto.
      + simpl in Hfl. destruct flat as [j c m fs ks]. simpl in Hfl. subst j. rewrite write_group_noclip. simpl.
        rewrite !flat_map_app, (id_attr_defs i Hn). simpl. auto.
  Qed.

  (* write_filters: every filter is defined; every feImage child with an id is defined, now or earlier *)
  Lemma write_fe_children_spec cs : forall written out w',
    write_fe_children o cs written = (out, w') ->
    incl written w' /\
    (forall c, In c cs -> In (node_id c) w') /\
    (forall i, In i w' -> In i written \/ exists c, In c cs /\ node_id c = i /\
                                         (node_id c <> 0 -> flat_id_ok c -> In (p, i) (ldefs out))).
  Proof.
    induction cs as [|c r IH]; intros written out w' H; simpl in H.
    - inversion H; subst. repeat split; [apply incl_refl|intros c []|auto].
    - destruct (existsb (N.eqb (node_id c)) written) eqn:E.
      + destruct (IH _ _ _ H) as (I1 & I2 & I3). repeat split; auto.
        * intros c0 [<-|Hc0]; auto. apply I1. apply existsb_exists in E. destruct E as (x & Hx & Ex).
          apply N.eqb_eq in Ex. subst. exact Hx.
        * intros i Hi. destruct (I3 i Hi) as [Hw|(c0 & Hc0 & E0 & Hd)]; auto. right. exists c0. repeat split; auto. right; auto.
      + destruct (write_fe_children o r (written ++ [node_id c])) as [out1 w1] eqn:E1.
        inversion H; subst. destruct (IH _ _ _ E1) as (I1 & I2 & I3). repeat split.
        * intros x Hx. apply I1. apply in_or_app. left. exact Hx.
        * intros c0 [<-|Hc0]; auto. apply I1. apply in_or_app. right. left. reflexivity.
        * intros i Hi. destruct (I3 i Hi) as [Hw|(c0 & Hc0 & E0 & Hd)].
          -- apply in_app_or in Hw. destruct Hw as [Hw|[<-|[]]]; auto. right. exists c. repeat split; auto.
             ++ left. reflexivity.
             ++ intros Hn Hfl. rewrite ldefs_app. apply in_or_app. left. apply write_node_has_id; auto.
          -- right. exists c0. repeat split; auto.
             ++ right. exact Hc0.
             ++ intros Hn Hfl. rewrite ldefs_app. apply in_or_app. right. apply Hd; auto.
  Qed.

  Lemma write_filters_spec fs : forall written,
    (forall f, In f fs -> In (p, f_id f) (ldefs (write_filters o fs written))) /\
    (forall f c, In f fs -> In c (fe_children f) -> node_id c <> 0 ->
                 (forall f' c', In f' fs -> In c' (fe_children f') -> flat_id_ok c') ->
                 In (node_id c) written \/ In (p, node_id c) (ldefs (write_filters o fs written))).
  Proof.
    induction fs as [|f r IH]; intros written; [split; [intros f []|intros f c []]|].
    simpl. destruct (write_fe_children o (fe_children f) written) as [pre w'] eqn:E.
    destruct (write_fe_children_spec _ _ _ _ E) as (S1 & S2 & S3). destruct (IH w') as (J1 & J2). split.
    - intros f0 [<-|Hf0]; rewrite ldefs_app; apply in_or_app; right; simpl.
      + left. reflexivity.
      + right. apply in_or_app. right. apply J1. exact Hf0.
    - intros f0 c Hf0 Hc Hn Hfl. rewrite ldefs_app.
      assert (Hw' : In (node_id c) w' -> In (node_id c) written \/
                    In (p, node_id c) (ldefs pre ++ ldefs (XE Tfilter [AId p (f_id f)] (map (write_prim o) (f_prims f)) :: write_filters o r w'))).
      { intro Hi. destruct (S3 _ Hi) as [Hw|(c0 & Hc0 & E0 & Hd)]; auto. right. apply in_or_app. left.
        apply Hd; [congruence|]. apply (Hfl f c0); simpl; auto. }
      destruct Hf0 as [<-|Hf0].
      + apply Hw'. apply S2. exact Hc.
      + destruct (J2 f0 c Hf0 Hc Hn (fun f' c' Hf' => Hfl f' c' (or_intror Hf'))) as [Hi|Hd]; [apply Hw'; exact Hi|].
        right. apply in_or_app. right. simpl. right. apply in_or_app. right. exact Hd.
  Qed.
End W.
