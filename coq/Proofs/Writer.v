(* Lemmas about Model/Writer.v: every reference written is defined (given C05's conclusions about the
   tree), one prefix everywhere, xlink declared when used, the root element. *)
From RV Require Import Model.Tree.
From RV Require Import Model.Writer.
From RV Require Import Proofs.Tree.
From RV Require Import Proofs.Collect.
From RV Require Import Proofs.Closure.
From Coq Require Import NArith List Bool Lia.
Import ListNotations.
Local Open Scope N_scope.

Definition ldefs (l : list xout) : list (N * N) := flat_map defs_of l.
Definition lrefs (l : list xout) : list (N * N) := flat_map refs_of l.

Lemma defs_of_eq tag a k : defs_of (XE tag a k) = flat_map attr_defs a ++ ldefs k.
Proof. reflexivity. Qed.
Lemma refs_of_eq tag a k : refs_of (XE tag a k) = flat_map attr_refs a ++ lrefs k.
Proof. reflexivity. Qed.
Lemma ldefs_app a b : ldefs (a ++ b) = ldefs a ++ ldefs b.
Proof. apply flat_map_app. Qed.
Lemma lrefs_app a b : lrefs (a ++ b) = lrefs a ++ lrefs b.
Proof. apply flat_map_app. Qed.
Lemma in_lrefs_map {X} (f : X -> xout) l r : In r (lrefs (map f l)) -> exists x, In x l /\ In r (refs_of (f x)).
Proof.
  unfold lrefs. rewrite flat_map_concat_map, map_map, <- flat_map_concat_map. intro H.
  apply in_flat_map in H. exact H.
Qed.
Lemma in_ldefs_map {X} (f : X -> xout) l x d : In x l -> In d (defs_of (f x)) -> In d (ldefs (map f l)).
Proof.
  intros Hx Hd. unfold ldefs. apply in_flat_map. exists (f x). split; auto. apply in_map. exact Hx.
Qed.
Lemma in_lrefs_flat_map {X} (f : X -> list xout) l r :
  In r (lrefs (flat_map f l)) -> exists x, In x l /\ In r (lrefs (f x)).
Proof.
  unfold lrefs. induction l as [|x l IH]; simpl; [intros []|]. rewrite flat_map_app. intro H.
  apply in_app_or in H. destruct H as [H|H]; [exists x; auto|]. destruct (IH H) as (y & Hy & Hr). exists y; auto.
Qed.

Lemma fm_cons {A B} (f : A -> list B) a l : flat_map f (a :: l) = f a ++ flat_map f l.
Proof. reflexivity. Qed.
Lemma ex_cons {A} (f : A -> bool) a l : existsb f (a :: l) = f a || existsb f l.
Proof. reflexivity. Qed.
Lemma lrefs_single x : lrefs [x] = refs_of x.
Proof. unfold lrefs. simpl. apply app_nil_r. Qed.
Lemma ldefs_single x : ldefs [x] = defs_of x.
Proof. unfold ldefs. simpl. apply app_nil_r. Qed.

Section W.
  Variable o : wopts.
  Let p := w_prefix o.

  (* ---------------------------------------------------------------- unfolding *)
  Lemma write_group_noclip i sy c m fs ks :
    write_group o (G i sy c m fs ks) false =
    [XE Tg (id_attr o i ++ opt_url o K_CLIP c_id c ++ opt_url o K_MASK m_id m ++
            match fs with [] => [] | _ => [AUrls (map (fun f => (p, f_id f)) fs)] end ++
            (if sy then [AStyle] else []))
        (flat_map (fun k => write_node o k false) ks)].
  Proof. reflexivity. Qed.

  (* one child of a group written in clip-path mode (write_clip_path_children) *)
  Definition clip_kid (cid : option N) (k : node) : list xout :=
    match k with
    | NPath pi pvz fl st => [write_path o pi fl st cid]
    | NGroup inner =>
        match cid, option_map c_id (g_clip inner) with
        | Some _, Some _ => []
        | _, ic => write_clipkids o inner (match cid with Some x => Some x | None => ic end)
        end
    | NText _ flat _ => write_clipkids o flat cid
    | NImage _ _ => []
    end.
  Lemma write_clipkids_eq i sy c m fs ks cid :
    write_clipkids o (G i sy c m fs ks) cid = flat_map (clip_kid cid) ks.
  Proof.
    cbn [write_clipkids]. induction ks as [|k r IH]; [reflexivity|].
    destruct k; simpl; rewrite <- IH; try reflexivity.
    all: try (destruct cid, (option_map c_id (g_clip g)); reflexivity).
  Qed.
  Lemma write_group_clip i sy c m fs ks :
    write_group o (G i sy c m fs ks) true = flat_map (clip_kid (option_map c_id c)) ks.
  Proof.
    cbn [write_group]. induction ks as [|k r IH]; [reflexivity|].
    destruct k; simpl; rewrite <- IH; try reflexivity.
    all: try (destruct (option_map c_id c), (option_map c_id (g_clip g)); reflexivity).
  Qed.
  Lemma write_node_group g clip : write_node o (NGroup g) clip = write_group o g clip.
  Proof. reflexivity. Qed.
  Lemma write_node_text i flat ch clip :
    write_node o (NText i flat ch) clip =
    if w_preserve_text o then [XE Ttext (id_attr o i) (map (write_chunk o) ch)] else write_group o flat clip.
  Proof. reflexivity. Qed.

  Lemma paint_attr_refs k pa r : In r (flat_map attr_refs (paint_attr o k pa)) -> is_server pa = true /\ r = (p, pa_id pa).
  Proof. destruct pa; simpl; intro H; try contradiction; destruct H as [H|[]]; subst; auto. Qed.
  Lemma style_refs (sy : bool) : flat_map attr_refs (if sy then [AStyle] else []) = [].
  Proof. destruct sy; reflexivity. Qed.
  Lemma id_attr_refs i : flat_map attr_refs (id_attr o i) = [].
  Proof. unfold id_attr. destruct (i =? 0); reflexivity. Qed.

  Lemma write_path_refs i fl st cr r :
    In r (refs_of (write_path o i fl st cr)) ->
    (is_server fl = true /\ r = (p, pa_id fl)) \/ (is_server st = true /\ r = (p, pa_id st)) \/
    (exists c, cr = Some c /\ r = (p, c)).
  Proof.
    unfold write_path. rewrite refs_of_eq. simpl lrefs. rewrite app_nil_r, !flat_map_app, id_attr_refs. simpl.
    intro H. apply in_app_or in H. destruct H as [H|H]; [left; apply (paint_attr_refs _ _ _ H)|].
    apply in_app_or in H. destruct H as [H|H]; [right; left; apply (paint_attr_refs _ _ _ H)|].
    right. right. destruct cr as [c|]; simpl in H; [|destruct H]. destruct H as [<-|[]]. eauto.
  Qed.

  (* ---------------------------------------------------------------- references of written content *)
  Section Content.
    Variable root : group.
    Let U := all_group root.
    Variable Good : N * N -> Prop.
    Hypothesis Hc : forall g c, In (NGroup g) U -> In c (ochain clip_chain (g_clip g)) -> Good (p, c_id c).
    Hypothesis Hm : forall g c, In (NGroup g) U -> In c (ochain mask_chain (g_mask g)) -> Good (p, m_id c).
    Hypothesis Hf : forall g f, In (NGroup g) U -> In f (g_filters g) -> Good (p, f_id f).
    Hypothesis Hp : forall i vz fl st d, In (NPath i vz fl st) U -> In d [fl; st] -> is_server d = true -> Good (p, pa_id d).
    Hypothesis Hs : w_preserve_text o = true ->
      forall n d, In n U -> In d (span_paints_of n) -> Good (p, pa_id d).
    Hypothesis Htp : w_preserve_text o = true ->
      forall i flat ch q j sp, In (NText i flat ch) U -> In (CH (Some (q, j)) sp) ch -> Good (p, j).
    Hypothesis Hflat : forall i flat ch, In (NText i flat ch) U ->
      g_clip flat = None /\ g_mask flat = None /\ g_filters flat = [].

    Definition own_ok (g : group) : Prop :=
      (forall c, g_clip g = Some c -> Good (p, c_id c)) /\
      (forall c, g_mask g = Some c -> Good (p, m_id c)) /\
      (forall f, In f (g_filters g) -> Good (p, f_id f)).

    Lemma chunk_refs i flat ch c r :
      w_preserve_text o = true -> In (NText i flat ch) U -> In c ch -> In r (refs_of (write_chunk o c)) -> Good r.
    Proof.
      intros Hpt Hn Hin Hr. destruct c as [tp sp].
      assert (Hspans : forall r, In r (lrefs (map (write_ppair o) sp)) -> Good r).
      { intros r0 H0. apply in_lrefs_map in H0. destruct H0 as (pp & Hpp & H0). destruct pp as [fl st].
        simpl in H0. rewrite app_nil_r, flat_map_app in H0.
        assert (Hd : forall d, In d [fl; st] -> is_server d = true -> Good (p, pa_id d)).
        { intros d Hd Hsv. apply (Hs Hpt (NText i flat ch)); auto. unfold span_paints_of. apply in_flat_map.
          exists (CH tp sp). split; auto.
          change (In d (flat_map (fun pp => match pp with PP fl0 st0 => filter is_server [fl0; st0] end) sp)).
          apply in_flat_map. exists (PP fl st). split; auto.
          change (In d (filter is_server [fl; st])). apply filter_In. split; auto. }
        apply in_app_or in H0. destruct H0 as [H0|H0]; apply paint_attr_refs in H0; destruct H0 as [Hsv ->];
          apply Hd; simpl; auto. }
      simpl in Hr. destruct tp as [[q j]|].
      - rewrite refs_of_eq in Hr. simpl in Hr. destruct Hr as [<-|Hr]; [apply (Htp Hpt i flat ch q j sp); auto|].
        rewrite app_nil_r in Hr. apply Hspans. exact Hr.
      - rewrite refs_of_eq in Hr. simpl in Hr. apply Hspans. exact Hr.
    Qed.

    (* clip-path mode, any nesting depth: the paths carry `cid`; entering a group may pick up that group's own clip id *)
    Definition cid_good (cid : option N) : Prop := forall x, cid = Some x -> Good (p, x).
    Lemma clip_content_all :
      (forall n, In n U -> forall cid r, cid_good cid -> In r (lrefs (clip_kid cid n)) -> Good r) /\
      (forall g, (forall k, In k (g_kids g) -> In k U) ->
                 forall cid r, cid_good cid -> In r (lrefs (write_clipkids o g cid)) -> Good r) /\
      (forall c : clipdef, True) /\ (forall m : maskdef, True) /\ (forall f : filterdef, True) /\
      (forall x : prim, True) /\ (forall x : paint, True).
    Proof.
      apply tree_mutind; auto.
      - (* NGroup *)
        intros g Hg Hn cid r Hcid Hr. cbn [clip_kid] in Hr.
        assert (Hk : forall k, In k (g_kids g) -> In k U) by (intros k Hk; apply (U_kid root g k Hn Hk)).
        destruct cid as [x|].
        + destruct (option_map c_id (g_clip g)); [destruct Hr|]. apply (Hg Hk (Some x) r Hcid Hr).
        + apply (Hg Hk (option_map c_id (g_clip g)) r); auto.
          intros x E. destruct (g_clip g) as [cd|] eqn:Ec; [|discriminate]. simpl in E. inversion E; subst.
          apply (Hc g cd Hn). rewrite Ec. simpl. apply clip_chain_head.
      - (* NPath *)
        intros i vz fl st _ _ Hn cid r Hcid Hr. cbn [clip_kid] in Hr. rewrite lrefs_single in Hr.
        apply write_path_refs in Hr. destruct Hr as [[Hsv ->]|[[Hsv ->]|(c0 & E & ->)]].
        + apply (Hp i vz fl st fl Hn); simpl; auto.
        + apply (Hp i vz fl st st Hn); simpl; auto.
        + apply Hcid. exact E.
      - (* NImage *)
        intros i sub _ Hn cid r _ Hr. destruct Hr.
      - (* NText *)
        intros i flat ch Hfl Hn cid r Hcid Hr. cbn [clip_kid] in Hr. apply (Hfl (fun k Hk => U_text_kid root i flat ch k Hn Hk) cid r Hcid Hr).
      - (* G *)
        intros i sy c m fs ks _ _ _ Hks Hkids cid r Hcid Hr. simpl g_kids in Hkids. rewrite write_clipkids_eq in Hr.
        apply in_lrefs_flat_map in Hr. destruct Hr as (k & Hk & Hr). rewrite Forall_forall in Hks.
        apply (Hks k Hk (Hkids k Hk) cid r Hcid Hr).
    Qed.

    Lemma content_all :
      (forall n, In n U -> forall clip r, In r (lrefs (write_node o n clip)) -> Good r) /\
      (forall g, (forall k, In k (g_kids g) -> In k U) -> own_ok g ->
                 forall clip r, In r (lrefs (write_group o g clip)) -> Good r) /\
      (forall c : clipdef, True) /\ (forall m : maskdef, True) /\ (forall f : filterdef, True) /\
      (forall x : prim, True) /\ (forall x : paint, True).
    Proof.
      apply tree_mutind; auto.
      - (* NGroup *)
        intros g Hg Hn clip r Hr. rewrite write_node_group in Hr. apply (Hg (fun k => U_kid root g k Hn)) with (clip := clip); auto.
        repeat split.
        + intros c E. apply (Hc g c Hn). rewrite E. simpl. apply clip_chain_head.
        + intros c E. apply (Hm g c Hn). rewrite E. simpl. apply mask_chain_head.
        + intros f Hin. apply (Hf g f Hn Hin).
      - (* NPath *)
        intros i vz fl st _ _ Hn clip r Hr. change (In r (lrefs [write_path o i fl st None])) in Hr.
        rewrite lrefs_single in Hr. apply write_path_refs in Hr. destruct Hr as [[Hsv ->]|[[Hsv ->]|(c & E & _)]]; [| |discriminate].
        + apply (Hp i vz fl st fl Hn); simpl; auto.
        + apply (Hp i vz fl st st Hn); simpl; auto.
      - (* NImage *)
        intros i sub _ Hn clip r Hr. simpl in Hr. rewrite app_nil_r, flat_map_app, id_attr_refs in Hr. destruct Hr.
      - (* NText *)
        intros i flat ch Hfl Hn clip r Hr. rewrite write_node_text in Hr.
        destruct (Bool.bool_dec (w_preserve_text o) true) as [Hpt|Hpt];
          [rewrite Hpt in Hr|apply not_true_is_false in Hpt; rewrite Hpt in Hr].
        + rewrite lrefs_single, refs_of_eq, id_attr_refs in Hr. simpl in Hr.
          change (In r (lrefs (map (write_chunk o) ch))) in Hr. apply in_lrefs_map in Hr.
          destruct Hr as (c & Hin & Hr). eapply chunk_refs; eauto.
        + apply Hfl with (clip := clip); auto.
          * intros k Hk. apply (U_text_kid root i flat ch k Hn Hk).
          * destruct (Hflat i flat ch Hn) as (E1 & E2 & E3). repeat split.
            -- intros c E. congruence.
            -- intros c E. congruence.
            -- intros f Hin. rewrite E3 in Hin. destruct Hin.
      - (* G *)
        intros i sy c m fs ks _ _ _ Hks Hkids Hown clip r Hr. destruct Hown as (O1 & O2 & O3). simpl g_kids in Hkids. simpl g_clip in O1. simpl g_mask in O2. simpl g_filters in O3.
        destruct clip.
        + rewrite write_group_clip in Hr. apply in_lrefs_flat_map in Hr. destruct Hr as (k & Hk & Hr).
          destruct clip_content_all as (Hclip & _). apply (Hclip k (Hkids k Hk) (option_map c_id c) r); auto.
          intros x E. destruct c as [cd|]; simpl in E; [|discriminate]. inversion E; subst. apply O1. reflexivity.
        + rewrite write_group_noclip, lrefs_single, refs_of_eq in Hr. rewrite !flat_map_app, id_attr_refs, style_refs, app_nil_r in Hr.
          apply in_app_or in Hr. destruct Hr as [Hr|Hr].
          * simpl app in Hr. apply in_app_or in Hr. destruct Hr as [Hr|Hr].
            { destruct c as [cd|]; simpl in Hr; [|destruct Hr]. destruct Hr as [<-|[]]. apply O1. reflexivity. }
            apply in_app_or in Hr. destruct Hr as [Hr|Hr].
            { destruct m as [cd|]; simpl in Hr; [|destruct Hr]. destruct Hr as [<-|[]]. apply O2. reflexivity. }
            destruct fs as [|f0 fr]; [destruct Hr|]. simpl flat_map in Hr. rewrite app_nil_r in Hr.
            change (In r (map (fun f : filterdef => (p, f_id f)) (f0 :: fr))) in Hr.
            apply in_map_iff in Hr. destruct Hr as (f & <- & Hin). apply O3. exact Hin.
          * apply in_lrefs_flat_map in Hr. destruct Hr as (k & Hk & Hr).
            rewrite Forall_forall in Hks. apply (Hks k Hk (Hkids k Hk) false r Hr).
    Qed.

    Lemma node_refs_good n clip r : In n U -> In r (lrefs (write_node o n clip)) -> Good r.
    Proof. intros Hn Hr. destruct content_all as (H & _). eapply H; eauto. Qed.

    (* write_elements of a sub-root whose children are in the universe *)
    Lemma elements_refs_good g clip r :
      (forall k, In k (g_kids g) -> In k U) -> In r (lrefs (write_elements o g clip)) -> Good r.
    Proof.
      intros Hk Hr. unfold write_elements in Hr. apply in_lrefs_flat_map in Hr. destruct Hr as (k & Hin & Hr).
      apply (node_refs_good k clip r (Hk k Hin) Hr).
    Qed.
  End Content.

  (* ---------------------------------------------------------------- ids written *)
  Lemma id_attr_defs i : i <> 0 -> flat_map attr_defs (id_attr o i) = [(p, i)].
  Proof. intro H. unfold id_attr. apply N.eqb_neq in H. rewrite H. reflexivity. Qed.

  (* a node with an id is written with that id, when its text representation carries the same id *)
  Definition flat_id_ok (n : node) : Prop :=
    match n with NText i flat _ => g_id flat = i | _ => True end.
  Lemma write_node_has_id n : node_id n <> 0 -> flat_id_ok n -> In (p, node_id n) (ldefs (write_node o n false)).
  Proof.
    intros Hn Hfl. destruct n as [g|i vz fl st|i sub|i flat ch]; simpl in Hn.
    - destruct g as [i sy c m fs ks]. rewrite write_node_group, write_group_noclip. simpl. rewrite !flat_map_app.
      rewrite (id_attr_defs i Hn). simpl. auto.
    - simpl. rewrite !flat_map_app, (id_attr_defs i Hn). simpl. auto.
    - simpl. rewrite !flat_map_app, (id_attr_defs i Hn). simpl. auto.
    - rewrite write_node_text. destruct (w_preserve_text o).
      + simpl. rewrite (id_attr_defs i Hn). simpl. auto.
      + simpl in Hfl. destruct flat as [j sy c m fs ks]. simpl in Hfl. subst j. rewrite write_group_noclip. simpl.
        rewrite !flat_map_app, (id_attr_defs i Hn). simpl. auto.
  Qed.

  (* write_filters: every filter is defined; every feImage child with an id is defined, now or earlier *)
  Lemma write_fe_children_spec cs : forall written out w',
    write_fe_children o cs written = (out, w') ->
    incl written w' /\
    (forall c, In c cs -> In (node_id c) w') /\
    (forall i, In i w' -> In i written \/ exists c, In c cs /\ node_id c = i /\
                                         (node_id c <> 0 -> flat_id_ok c -> In (p, i) (ldefs out))).
  Proof.
    induction cs as [|c r IH]; intros written out w' H; simpl in H.
    - inversion H; subst. repeat split; [apply incl_refl|intros c []|auto].
    - destruct (existsb (N.eqb (node_id c)) written) eqn:E.
      + destruct (IH _ _ _ H) as (I1 & I2 & I3). repeat split; auto.
        * intros c0 [<-|Hc0]; auto. apply I1. apply existsb_exists in E. destruct E as (x & Hx & Ex).
          apply N.eqb_eq in Ex. subst. exact Hx.
        * intros i Hi. destruct (I3 i Hi) as [Hw|(c0 & Hc0 & E0 & Hd)]; auto. right. exists c0. repeat split; auto. right; auto.
      + destruct (write_fe_children o r (written ++ [node_id c])) as [out1 w1] eqn:E1.
        inversion H; subst. destruct (IH _ _ _ E1) as (I1 & I2 & I3). repeat split.
        * intros x Hx. apply I1. apply in_or_app. left. exact Hx.
        * intros c0 [<-|Hc0]; auto. apply I1. apply in_or_app. right. left. reflexivity.
        * intros i Hi. destruct (I3 i Hi) as [Hw|(c0 & Hc0 & E0 & Hd)].
          -- apply in_app_or in Hw. destruct Hw as [Hw|[<-|[]]]; auto. right. exists c. repeat split; auto.
             ++ left. reflexivity.
             ++ intros Hn Hfl. rewrite ldefs_app. apply in_or_app. left. apply write_node_has_id; auto.
          -- right. exists c0. repeat split; auto.
             ++ right. exact Hc0.
             ++ intros Hn Hfl. rewrite ldefs_app. apply in_or_app. right. apply Hd; auto.
  Qed.

  Lemma write_filters_spec fs : forall written,
    (forall f, In f fs -> In (p, f_id f) (ldefs (write_filters o fs written))) /\
    (forall f c, In f fs -> In c (fe_children f) -> node_id c <> 0 ->
                 (forall f' c', In f' fs -> In c' (fe_children f') -> flat_id_ok c') ->
                 In (node_id c) written \/ In (p, node_id c) (ldefs (write_filters o fs written))).
  Proof.
    induction fs as [|f r IH]; intros written; [split; [intros f []|intros f c []]|].
    simpl. destruct (write_fe_children o (fe_children f) written) as [pre w'] eqn:E.
    destruct (write_fe_children_spec _ _ _ _ E) as (S1 & S2 & S3). destruct (IH w') as (J1 & J2). split.
    - intros f0 [<-|Hf0]; rewrite ldefs_app; apply in_or_app; right; simpl.
      + left. reflexivity.
      + right. apply in_or_app. right. apply J1. exact Hf0.
    - intros f0 c Hf0 Hc Hn Hfl. rewrite ldefs_app.
      assert (Hw' : In (node_id c) w' -> In (node_id c) written \/
                    In (p, node_id c) (ldefs pre ++ ldefs (XE Tfilter [AId p (f_id f)] (map (write_prim o) (f_prims f)) :: write_filters o r w'))).
      { intro Hi. destruct (S3 _ Hi) as [Hw|(c0 & Hc0 & E0 & Hd)]; auto. right. apply in_or_app. left.
        apply Hd; [congruence|]. apply (Hfl f c0); simpl; auto. }
      destruct Hf0 as [<-|Hf0].
      + apply Hw'. apply S2. exact Hc.
      + destruct (J2 f0 c Hf0 Hc Hn (fun f' c' Hf' => Hfl f' c' (or_intror Hf'))) as [Hi|Hd]; [apply Hw'; exact Hi|].
        right. apply in_or_app. right. simpl. right. apply in_or_app. right. exact Hd.
  Qed.
End W.

(* ================================================================================================ *)
(* Assembly: the whole document                                                                     *)
Definition coherent (t : tree) : Prop :=
  let r := t_root t in
  (forall a b, In a (reach_clips r) -> In b (reach_clips r) -> c_ptr a = c_ptr b -> c_id a = c_id b) /\
  (forall a b, In a (reach_masks r) -> In b (reach_masks r) -> m_ptr a = m_ptr b -> m_id a = m_id b) /\
  (forall a b, In a (reach_filters r) -> In b (reach_filters r) -> f_ptr a = f_ptr b -> f_id a = f_id b) /\
  (forall a b, In a (reach_paints r) -> In b (reach_paints r) -> pa_ptr a = pa_ptr b -> pa_id a = pa_id b).

(* Text nodes as text/flatten.rs builds them: `flattened` carries the text's id and no definitions;
   a text path has a non-empty id (NonEmptyString) *)
Definition texts_wf (t : tree) : Prop :=
  forall i flat ch, In (NText i flat ch) (all_group (t_root t)) ->
    g_id flat = i /\ g_clip flat = None /\ g_mask flat = None /\ g_filters flat = [] /\
    (forall q j sp, In (CH (Some (q, j)) sp) ch -> j <> 0).

(* NOT the known class `feimage-empty-href` (F10): the element an feImage points to has an id *)
Definition feimage_ok (t : tree) : Prop :=
  forall f c, In f (t_filts t) -> In c (fe_children f) -> node_id c <> 0.
(* NOT the known class `text-span-paint` (F27) *)
Definition span_ok (t : tree) : Prop :=
  forall n d, In n (all_group (t_root t)) -> In d (span_paints_of n) ->
    In (pa_id d) (map pa_id (t_lins t ++ t_rads t ++ t_pats t)).

Lemma node_paints_incl sel n : (forall q, sel q = true -> is_server q = true) ->
  incl (node_paints sel n) (node_paints is_server n).
Proof.
  intros Hs d Hd. destruct n as [g|i vz fl st|i sub|i flat ch]; try exact Hd.
  change (In d (filter sel [fl; st])) in Hd. change (In d (filter is_server [fl; st])).
  apply filter_In in Hd. destruct Hd as [H1 H2]. apply filter_In. split; auto.
Qed.

Section Top.
  Variable o : wopts.
  Let p := w_prefix o.
  Variable t : tree.
  Let root := t_root t.
  Let U := all_group root.
  Let D := defs_of (write o t).

  Lemma D_eq : D = ldefs (write_defs o t) ++ ldefs (write_elements o root false).
  Proof.
    unfold D, write. rewrite defs_of_eq.
    assert (E : flat_map attr_defs (AXmlns :: (if has_xlink (t_root t) then [AXlink] else [])) = []).
    { destruct (has_xlink (t_root t)); reflexivity. }
    rewrite E. simpl. reflexivity.
  Qed.
  Lemma R_eq : refs_of (write o t) = lrefs (write_defs o t) ++ lrefs (write_elements o root false).
  Proof.
    unfold write. rewrite refs_of_eq.
    assert (E : flat_map attr_refs (AXmlns :: (if has_xlink (t_root t) then [AXlink] else [])) = []).
    { destruct (has_xlink (t_root t)); reflexivity. }
    rewrite E. simpl. reflexivity.
  Qed.

  Lemma write_defs_eq :
    write_defs o t =
    map (write_lin o) (t_lins t) ++ map (write_rad o) (t_rads t) ++ map (write_pat o) (t_pats t) ++
    write_text_path_paths o root ++ write_filters o (t_filts t) [] ++
    map (write_clip o) (t_clips t) ++ map (write_mask o) (t_masks t).
  Proof. reflexivity. Qed.

  Lemma D_lin d : In d (t_lins t) -> In (p, pa_id d) D.
  Proof. intro H. rewrite D_eq; apply in_or_app; left; rewrite write_defs_eq; rewrite !ldefs_app; apply in_or_app; left. apply (in_ldefs_map (write_lin o) _ d); auto. simpl. auto. Qed.
  Lemma D_rad d : In d (t_rads t) -> In (p, pa_id d) D.
  Proof. intro H. rewrite D_eq; apply in_or_app; left; rewrite write_defs_eq; rewrite !ldefs_app; apply in_or_app; right; apply in_or_app; left. apply (in_ldefs_map (write_rad o) _ d); auto. simpl. auto. Qed.
  Lemma D_pat d : In d (t_pats t) -> In (p, pa_id d) D.
  Proof. intro H. rewrite D_eq; apply in_or_app; left; rewrite write_defs_eq; rewrite !ldefs_app; apply in_or_app; right; apply in_or_app; right; apply in_or_app; left. apply (in_ldefs_map (write_pat o) _ d); auto. simpl. auto. Qed.
  Lemma D_clip d : In d (t_clips t) -> In (p, c_id d) D.
  Proof. intro H. rewrite D_eq; apply in_or_app; left; rewrite write_defs_eq; rewrite !ldefs_app; apply in_or_app; right; apply in_or_app; right; apply in_or_app; right; apply in_or_app; right; apply in_or_app; right; apply in_or_app; left. apply (in_ldefs_map (write_clip o) _ d); auto. simpl. auto. Qed.
  Lemma D_mask d : In d (t_masks t) -> In (p, m_id d) D.
  Proof.
    intro H. rewrite D_eq; apply in_or_app; left; rewrite write_defs_eq; rewrite !ldefs_app.
    do 6 (apply in_or_app; right). apply (in_ldefs_map (write_mask o) _ d); auto. simpl. auto.
  Qed.
  Lemma D_filter f : In f (t_filts t) -> In (p, f_id f) D.
  Proof. intro H. rewrite D_eq; apply in_or_app; left; rewrite write_defs_eq; rewrite !ldefs_app; apply in_or_app; right; apply in_or_app; right; apply in_or_app; right; apply in_or_app; right; apply in_or_app; left. apply (proj1 (write_filters_spec o (t_filts t) [])). exact H. Qed.

  Lemma D_textpath i flat ch q j sp :
    In (NText i flat ch) U -> In (CH (Some (q, j)) sp) ch -> j <> 0 -> In (p, j) D.
  Proof.
    intros Hn Hc Hj. rewrite D_eq; apply in_or_app; left; rewrite write_defs_eq; rewrite !ldefs_app; apply in_or_app; right; apply in_or_app; right; apply in_or_app; right; apply in_or_app; left.
    assert (Hdone : incl (text_path_defs o (NText i flat ch)) (write_text_path_paths o root)).
    { unfold write_text_path_paths.
      apply (walk_group_done false (fun n acc => acc ++ text_path_defs o n) (fun n acc => incl (text_path_defs o n) acc)); auto.
      - intros n a. apply incl_appr, incl_refl.
      - intros n m a H. apply incl_appl. exact H. }
    unfold ldefs. apply in_flat_map. exists (XE Tpath (id_attr o j) []). split.
    - apply Hdone. simpl. apply in_flat_map. exists (CH (Some (q, j)) sp). split; simpl; auto.
    - rewrite defs_of_eq, (id_attr_defs o j Hj). simpl. auto.
  Qed.

  Hypothesis Hcomplete : coll_complete t.
  Hypothesis Hsound : coll_sound t.
  Hypothesis Hcoh : coherent t.
  Hypothesis Htexts : texts_wf t.

  Lemma good_clip g c : In (NGroup g) U -> In c (ochain clip_chain (g_clip g)) -> In (p, c_id c) D.
  Proof.
    intros Hg Hc. assert (Hr : In c (reach_clips root)).
    { unfold reach_clips, reach_defs. apply in_flat_map. exists (NGroup g). split; auto. }
    destruct Hcomplete as (C1 & _). specialize (C1 c Hr). apply in_map_iff in C1. destruct C1 as (c' & E & Hin).
    destruct Hsound as (S1 & _). destruct Hcoh as (K1 & _).
    rewrite <- (K1 c' c (S1 c' Hin) Hr E). apply D_clip. exact Hin.
  Qed.
  Lemma good_mask g c : In (NGroup g) U -> In c (ochain mask_chain (g_mask g)) -> In (p, m_id c) D.
  Proof.
    intros Hg Hc. assert (Hr : In c (reach_masks root)).
    { unfold reach_masks, reach_defs. apply in_flat_map. exists (NGroup g). split; auto. }
    destruct Hcomplete as (_ & C1 & _). specialize (C1 c Hr). apply in_map_iff in C1. destruct C1 as (c' & E & Hin).
    destruct Hsound as (_ & S1 & _). destruct Hcoh as (_ & K1 & _).
    rewrite <- (K1 c' c (S1 c' Hin) Hr E). apply D_mask. exact Hin.
  Qed.
  Lemma good_filter g f : In (NGroup g) U -> In f (g_filters g) -> In (p, f_id f) D.
  Proof.
    intros Hg Hf. assert (Hr : In f (reach_filters root)).
    { unfold reach_filters, reach_defs. apply in_flat_map. exists (NGroup g). split; auto. }
    destruct Hcomplete as (_ & _ & C1 & _). specialize (C1 f Hr). apply in_map_iff in C1. destruct C1 as (c' & E & Hin).
    destruct Hsound as (_ & _ & S1 & _). destruct Hcoh as (_ & _ & K1 & _).
    rewrite <- (K1 c' f (S1 c' Hin) Hr E). apply D_filter. exact Hin.
  Qed.
  Lemma good_paint i vz fl st d : In (NPath i vz fl st) U -> In d [fl; st] -> is_server d = true -> In (p, pa_id d) D.
  Proof.
    intros Hn Hd Hsv. assert (Hr : In d (reach_paints root)).
    { unfold reach_paints, reach_defs. apply in_flat_map. exists (NPath i vz fl st). split; auto.
      change (In d (filter is_server [fl; st])). apply filter_In. split; auto. }
    destruct Hcomplete as (_ & _ & _ & C1). destruct (C1 d Hr) as (L1 & L2 & L3).
    destruct Hsound as (_ & _ & _ & S1 & S2 & S3). destruct Hcoh as (_ & _ & _ & K1).
    assert (Hsub : forall sel, (forall q, sel q = true -> is_server q = true) ->
                   incl (reach_defs (node_paints sel) root) (reach_paints root)).
    { intros sel Hs x Hx. unfold reach_paints, reach_defs in *. apply in_flat_map in Hx. destruct Hx as (n & Hn' & Hx).
      apply in_flat_map. exists n. split; auto. apply (node_paints_incl sel n Hs). exact Hx. }
    unfold is_server in Hsv. destruct (is_lin d) eqn:E1; [|destruct (is_rad d) eqn:E2; [|destruct (is_pat d) eqn:E3; [|discriminate]]].
    - specialize (L1 eq_refl). apply in_map_iff in L1. destruct L1 as (d' & E & Hin).
      rewrite <- (K1 d' d (Hsub is_lin sel_server_lin d' (S1 d' Hin)) Hr E). apply D_lin. exact Hin.
    - specialize (L2 eq_refl). apply in_map_iff in L2. destruct L2 as (d' & E & Hin).
      rewrite <- (K1 d' d (Hsub is_rad sel_server_rad d' (S2 d' Hin)) Hr E). apply D_rad. exact Hin.
    - specialize (L3 eq_refl). apply in_map_iff in L3. destruct L3 as (d' & E & Hin).
      rewrite <- (K1 d' d (Hsub is_pat sel_server_pat d' (S3 d' Hin)) Hr E). apply D_pat. exact Hin.
  Qed.

  Hypothesis Hfe : feimage_ok t.
  Hypothesis Hspan : w_preserve_text o = true -> span_ok t.

  Lemma good_span : w_preserve_text o = true ->
    forall n d, In n U -> In d (span_paints_of n) -> In (p, pa_id d) D.
  Proof.
    intros Hpt n d Hn Hd. specialize (Hspan Hpt n d Hn Hd). apply in_map_iff in Hspan.
    destruct Hspan as (d' & E & Hin). rewrite <- E. apply in_app_or in Hin. destruct Hin as [Hin|Hin]; [apply D_lin; auto|].
    apply in_app_or in Hin. destruct Hin as [Hin|Hin]; [apply D_rad|apply D_pat]; auto.
  Qed.
  Lemma good_tp : w_preserve_text o = true ->
    forall i flat ch q j sp, In (NText i flat ch) U -> In (CH (Some (q, j)) sp) ch -> In (p, j) D.
  Proof.
    intros _ i flat ch q j sp Hn Hc. destruct (Htexts i flat ch Hn) as (_ & _ & _ & _ & Hj).
    apply (D_textpath i flat ch q j sp); auto. apply (Hj q j sp Hc).
  Qed.
  Lemma flat_bare i flat ch : In (NText i flat ch) U -> g_clip flat = None /\ g_mask flat = None /\ g_filters flat = [].
  Proof. intro Hn. destruct (Htexts i flat ch Hn) as (_ & H1 & H2 & H3 & _). auto. Qed.

  Definition Good (r : N * N) : Prop := In r D.

  Lemma content_good n clip r : In n U -> In r (lrefs (write_node o n clip)) -> Good r.
  Proof.
    apply (node_refs_good o root Good good_clip good_mask good_filter good_paint good_span good_tp flat_bare).
  Qed.
  Lemma elements_good g clip r : (forall k, In k (g_kids g) -> In k U) -> In r (lrefs (write_elements o g clip)) -> Good r.
  Proof.
    apply (elements_refs_good o root Good good_clip good_mask good_filter good_paint good_span good_tp flat_bare).
  Qed.

  (* where the children of an feImage live *)
  Lemma fe_child_in_U f c : In f (t_filts t) -> In c (fe_children f) -> In c U.
  Proof.
    intros Hf Hc. destruct Hsound as (_ & _ & S1 & _). specialize (S1 f Hf).
    unfold reach_filters, reach_defs in S1. apply in_flat_map in S1. destruct S1 as (n & Hn & Hin).
    destruct n as [g| | |]; simpl in Hin; try destruct Hin.
    unfold fe_children in Hc. apply in_flat_map in Hc. destruct Hc as (pr & Hpr & Hc).
    destruct (p_img pr) as [r0|] eqn:Ei; [|destruct Hc]. destruct (g_kids r0) as [|c0 rest] eqn:Ek; [destruct Hc|].
    destruct Hc as [<-|[]]. apply (U_feimage_kid root g f pr r0 c0 Hn Hin Hpr Ei). rewrite Ek. left. reflexivity.
  Qed.

  Lemma fe_children_refs cs : forall written out w' r,
    write_fe_children o cs written = (out, w') -> In r (lrefs out) ->
    exists c, In c cs /\ In r (lrefs (write_node o c false)).
  Proof.
    induction cs as [|c rest IH]; intros written out w' r H Hr; simpl in H.
    - inversion H; subst. destruct Hr.
    - destruct (existsb (N.eqb (node_id c)) written).
      + destruct (IH _ _ _ _ H Hr) as (c0 & H0 & H1). exists c0. split; auto. right; auto.
      + destruct (write_fe_children o rest (written ++ [node_id c])) as [out1 w1] eqn:E1. inversion H; subst.
        rewrite lrefs_app in Hr. apply in_app_or in Hr. destruct Hr as [Hr|Hr].
        * exists c. split; auto. left; reflexivity.
        * destruct (IH _ _ _ _ E1 Hr) as (c0 & H0 & H1). exists c0. split; auto. right; auto.
  Qed.

  Lemma prim_refs pr r : In r (refs_of (write_prim o pr)) ->
    exists r0 c rest, p_img pr = Some r0 /\ g_kids r0 = c :: rest /\ r = (p, node_id c).
  Proof.
    destruct pr as [k sb res ins img]. unfold write_prim.
    assert (Hin : forall l j, flat_map attr_refs ((fix go (l : list finput) (j : N) : list aval :=
                     match l with [] => [] | i :: r => AIn j i :: go r (j + 1) end) l j) = []).
    { induction l as [|x l IH]; intro j; simpl; auto. }
    destruct (k =? 12).
    - rewrite refs_of_eq. simpl. intro H. exfalso. induction ins as [|x l IH]; simpl in H; auto.
    - rewrite refs_of_eq. rewrite fm_cons, !flat_map_app, Hin. simpl. rewrite app_nil_r.
      destruct img as [r0|]; simpl; [|intros []]. destruct (g_kids r0) as [|c rest] eqn:E; simpl; [intros []|].
      intros [<-|[]]. exists r0, c, rest. auto.
  Qed.

  Lemma filters_refs fs : forall written r, In r (lrefs (write_filters o fs written)) ->
    exists f c, In f fs /\ In c (fe_children f) /\ (In r (lrefs (write_node o c false)) \/ r = (p, node_id c)).
  Proof.
    induction fs as [|f rest IH]; intros written r Hr; simpl in Hr; [destruct Hr|].
    destruct (write_fe_children o (fe_children f) written) as [pre w'] eqn:E.
    rewrite lrefs_app in Hr. apply in_app_or in Hr. destruct Hr as [Hr|Hr].
    - destruct (fe_children_refs _ _ _ _ _ E Hr) as (c & Hc & H1). exists f, c. repeat split; auto. left; reflexivity.
    - change (In r (lrefs ([XE Tfilter [AId p (f_id f)] (map (write_prim o) (f_prims f))] ++ write_filters o rest w'))) in Hr.
      rewrite lrefs_app in Hr. apply in_app_or in Hr. destruct Hr as [Hr|Hr].
      + rewrite lrefs_single, refs_of_eq in Hr. simpl in Hr. apply in_lrefs_map in Hr. destruct Hr as (pr & Hpr & Hr).
        apply prim_refs in Hr. destruct Hr as (r0 & c & rs & E1 & E2 & ->). exists f, c. repeat split; auto.
        * left; reflexivity.
        * unfold fe_children. apply in_flat_map. exists pr. split; auto. rewrite E1, E2. left. reflexivity.
      + destruct (IH _ _ Hr) as (f0 & c & Hf0 & Hc & H1). exists f0, c. repeat split; auto. right; auto.
  Qed.

  Lemma text_paths_no_refs : lrefs (write_text_path_paths o root) = [].
  Proof.
    unfold write_text_path_paths.
    apply (walk_group_inv false (fun n acc => acc ++ text_path_defs o n) root (fun acc => lrefs acc = [])); auto.
    intros m a _ Ha. rewrite lrefs_app, Ha. simpl. destruct m; simpl; auto.
    induction chunks as [|c r IH]; simpl; auto. destruct c as [[[q j]|] sp]; simpl; auto.
    rewrite app_nil_r, id_attr_refs. simpl. exact IH.
  Qed.

  Theorem refs_in_defs : forall r, In r (refs_of (write o t)) -> In r D.
  Proof.
    intros r Hr. rewrite R_eq in Hr. apply in_app_or in Hr. destruct Hr as [Hr|Hr].
    2:{ apply (elements_good root false r); auto. intros k Hk. apply U_root_kid. exact Hk. }
    rewrite write_defs_eq in Hr. rewrite !lrefs_app in Hr.
    apply in_app_or in Hr. destruct Hr as [Hr|Hr].
    { apply in_lrefs_map in Hr. destruct Hr as (d & _ & Hr). simpl in Hr. destruct Hr. }
    apply in_app_or in Hr. destruct Hr as [Hr|Hr].
    { apply in_lrefs_map in Hr. destruct Hr as (d & _ & Hr). simpl in Hr. destruct Hr. }
    apply in_app_or in Hr. destruct Hr as [Hr|Hr].
    { (* patterns *)
      apply in_lrefs_map in Hr. destruct Hr as (d & Hd & Hr). unfold write_pat in Hr. rewrite refs_of_eq in Hr.
      simpl in Hr. destruct d as [| | | |q j r0]; try (simpl in Hr; destruct Hr; fail).
      apply (elements_good r0 false r); auto. intros k Hk.
      destruct Hsound as (_ & _ & _ & _ & _ & S3). specialize (S3 _ Hd). unfold reach_defs in S3.
      apply in_flat_map in S3. destruct S3 as (n & Hn & Hin). destruct n as [|i vz fl st| |]; cbn [node_paints] in Hin; try (destruct Hin; fail).
      apply (U_pattern_kid root i vz fl st q j r0 k Hn); auto.
      apply filter_In in Hin. destruct Hin as [[<-|[<-|[]]] _]; auto. }
    apply in_app_or in Hr. destruct Hr as [Hr|Hr].
    { rewrite text_paths_no_refs in Hr. destruct Hr. }
    apply in_app_or in Hr. destruct Hr as [Hr|Hr].
    { (* filters *)
      apply filters_refs in Hr. destruct Hr as (f & c & Hf & Hc & [Hr|Er]); [|subst r].
      - apply (content_good c false r); auto. apply (fe_child_in_U f c Hf Hc).
      - destruct (proj2 (write_filters_spec o (t_filts t) []) f c Hf Hc (Hfe f c Hf Hc)) as [[]|Hd].
        + intros f' c' Hf' Hc'. pose proof (fe_child_in_U f' c' Hf' Hc') as Hu. destruct c'; simpl; auto.
          destruct (Htexts _ _ _ Hu) as (E & _). exact E.
        + rewrite D_eq. apply in_or_app. left. rewrite write_defs_eq, !ldefs_app.
          do 4 (apply in_or_app; right). apply in_or_app. left. exact Hd. }
    apply in_app_or in Hr. destruct Hr as [Hr|Hr].
    { (* clip paths *)
      apply in_lrefs_map in Hr. destruct Hr as (c & Hc & Hr). unfold write_clip in Hr. rewrite refs_of_eq in Hr.
      destruct Hsound as (S1 & _). specialize (S1 c Hc). unfold reach_clips, reach_defs in S1.
      apply in_flat_map in S1. destruct S1 as (n & Hn & Hin). destruct n as [g| | |]; simpl in Hin; try destruct Hin.
      apply in_app_or in Hr. destruct Hr as [Hr|Hr].
      - simpl in Hr. destruct (c_next c) as [c'|] eqn:En; simpl in Hr; [|destruct Hr]. destruct Hr as [<-|[]].
        apply (good_clip g c' Hn). destruct (g_clip g) as [c0|]; simpl in *; [|destruct Hin].
        apply (clip_chain_succ c0 c c' Hin En).
      - apply (elements_good (c_root c) true r); auto. intros k Hk. apply (U_clip_kid root g c k Hn Hin Hk). }
    { (* masks *)
      apply in_lrefs_map in Hr. destruct Hr as (c & Hc & Hr). unfold write_mask in Hr. rewrite refs_of_eq in Hr.
      destruct Hsound as (_ & S1 & _). specialize (S1 c Hc). unfold reach_masks, reach_defs in S1.
      apply in_flat_map in S1. destruct S1 as (n & Hn & Hin). destruct n as [g| | |]; simpl in Hin; try destruct Hin.
      apply in_app_or in Hr. destruct Hr as [Hr|Hr].
      - simpl in Hr. destruct (m_next c) as [c'|] eqn:En; simpl in Hr; [|destruct Hr]. destruct Hr as [<-|[]].
        apply (good_mask g c' Hn). destruct (g_mask g) as [c0|]; simpl in *; [|destruct Hin].
        apply (mask_chain_succ c0 c c' Hin En).
      - apply (elements_good (m_root c) false r); auto. intros k Hk. apply (U_mask_kid root g c k Hn Hin Hk). }
  Qed.
End Top.

(* ================================================================================================ *)
(* One prefix everywhere                                                                            *)
Definition attr_marks (a : aval) : list (N * N) := attr_defs a ++ attr_refs a.
Fixpoint marks_of (x : xout) : list (N * N) :=
  match x with
  | XE _ attrs kids =>
      flat_map attr_marks attrs ++
      (fix go (l : list xout) : list (N * N) := match l with [] => [] | k :: r => marks_of k ++ go r end) kids
  end.
Definition lmarks (l : list xout) : list (N * N) := flat_map marks_of l.
Lemma marks_of_eq tag a k : marks_of (XE tag a k) = flat_map attr_marks a ++ lmarks k.
Proof. reflexivity. Qed.
Lemma lmarks_app a b : lmarks (a ++ b) = lmarks a ++ lmarks b.
Proof. apply flat_map_app. Qed.
Lemma lmarks_single x : lmarks [x] = marks_of x.
Proof. unfold lmarks. simpl. apply app_nil_r. Qed.

Section XInd.
  Variable P : xout -> Prop.
  Hypothesis H : forall t a k, Forall P k -> P (XE t a k).
  Fixpoint xout_ind' (x : xout) : P x :=
    match x return P x with
    | XE t a k => H t a k ((fix go (l : list xout) : Forall P l :=
                              match l return Forall P l with
                              | [] => Forall_nil _
                              | y :: r => Forall_cons y (xout_ind' y) (go r)
                              end) k)
    end.
End XInd.

Lemma defs_in_marks x : incl (defs_of x) (marks_of x).
Proof.
  induction x as [t a k IH] using xout_ind'. rewrite defs_of_eq, marks_of_eq. intros r Hr.
  apply in_app_or in Hr. apply in_or_app. destruct Hr as [Hr|Hr].
  - left. apply in_flat_map in Hr. destruct Hr as (at1 & H1 & H2). apply in_flat_map. exists at1. split; auto.
    unfold attr_marks. apply in_or_app. left. exact H2.
  - right. unfold ldefs in Hr. apply in_flat_map in Hr. destruct Hr as (y & Hy & Hr). apply in_flat_map. exists y.
    split; auto. rewrite Forall_forall in IH. apply (IH y Hy). exact Hr.
Qed.
Lemma refs_in_marks x : incl (refs_of x) (marks_of x).
Proof.
  induction x as [t a k IH] using xout_ind'. rewrite refs_of_eq, marks_of_eq. intros r Hr.
  apply in_app_or in Hr. apply in_or_app. destruct Hr as [Hr|Hr].
  - left. apply in_flat_map in Hr. destruct Hr as (at1 & H1 & H2). apply in_flat_map. exists at1. split; auto.
    unfold attr_marks. apply in_or_app. right. exact H2.
  - right. unfold lrefs in Hr. apply in_flat_map in Hr. destruct Hr as (y & Hy & Hr). apply in_flat_map. exists y.
    split; auto. rewrite Forall_forall in IH. apply (IH y Hy). exact Hr.
Qed.

Section Prefix.
  Variable o : wopts.
  Let p := w_prefix o.
  Definition allp (l : list (N * N)) : Prop := forall r, In r l -> fst r = p.
  Lemma allp_nil : allp [].
  Proof. intros r []. Qed.
  Lemma allp_app a b : allp a -> allp b -> allp (a ++ b).
  Proof. intros Ha Hb r Hr. apply in_app_or in Hr. destruct Hr; auto. Qed.
  Lemma allp_flat_map {X} (f : X -> list (N * N)) l : (forall x, In x l -> allp (f x)) -> allp (flat_map f l).
  Proof. intros H r Hr. apply in_flat_map in Hr. destruct Hr as (x & Hx & Hr). apply (H x Hx r Hr). Qed.
  Lemma allp_lmarks_map {X} (f : X -> xout) l : (forall x, In x l -> allp (marks_of (f x))) -> allp (lmarks (map f l)).
  Proof.
    intros H. unfold lmarks. rewrite flat_map_concat_map, map_map, <- flat_map_concat_map. apply allp_flat_map. exact H.
  Qed.

  Lemma allp_id i : allp (flat_map attr_marks (id_attr o i)).
  Proof. unfold id_attr. destruct (i =? 0); simpl; [apply allp_nil|]. intros r [<-|[]]. reflexivity. Qed.
  Lemma allp_paint k pa : allp (flat_map attr_marks (paint_attr o k pa)).
  Proof. destruct pa; simpl; try apply allp_nil; intros r [<-|[]]; reflexivity. Qed.
  Lemma allp_opt {X} k (idf : X -> N) d : allp (flat_map attr_marks (opt_url o k idf d)).
  Proof. destruct d; simpl; [intros r [<-|[]]; reflexivity|apply allp_nil]. Qed.

  Lemma allp_path i fl st cr : allp (marks_of (write_path o i fl st cr)).
  Proof.
    unfold write_path. rewrite marks_of_eq. simpl lmarks. rewrite app_nil_r, !flat_map_app.
    repeat apply allp_app; try apply allp_id; try apply allp_paint.
    destruct cr; simpl; [intros r [<-|[]]; reflexivity|apply allp_nil].
  Qed.
  Lemma allp_chunk c : allp (marks_of (write_chunk o c)).
  Proof.
    assert (Hsp : forall sp, allp (lmarks (map (write_ppair o) sp))).
    { intro sp. apply allp_lmarks_map. intros [fl st] _. simpl. rewrite app_nil_r, flat_map_app.
      apply allp_app; apply allp_paint. }
    destruct c as [[[q j]|] sp]; simpl.
    - intros r [<-|Hr]; [reflexivity|]. rewrite app_nil_r in Hr. apply (Hsp sp r Hr).
    - apply Hsp.
  Qed.

  Lemma allp_clip_content :
    (forall n cid, allp (lmarks (clip_kid o cid n))) /\
    (forall g cid, allp (lmarks (write_clipkids o g cid))) /\
    (forall c : clipdef, True) /\ (forall m : maskdef, True) /\ (forall f : filterdef, True) /\
    (forall x : prim, True) /\ (forall x : paint, True).
  Proof.
    apply tree_mutind; auto.
    - intros g Hg cid. cbn [clip_kid]. destruct cid as [x|]; [destruct (option_map c_id (g_clip g)); [apply allp_nil|]|]; apply Hg.
    - intros i vz fl st _ _ cid. cbn [clip_kid]. rewrite lmarks_single. apply allp_path.
    - intros i sub _ cid. apply allp_nil.
    - intros i sy c m fs ks _ _ _ Hks cid. rewrite write_clipkids_eq. unfold lmarks. intros r Hr.
      apply in_flat_map in Hr. destruct Hr as (x & Hx & Hr). apply in_flat_map in Hx. destruct Hx as (k & Hk & Hx).
      rewrite Forall_forall in Hks. apply (Hks k Hk cid r). unfold lmarks. apply in_flat_map. exists x. split; auto.
  Qed.

  Lemma allp_content :
    (forall n clip, allp (lmarks (write_node o n clip))) /\
    (forall g clip, allp (lmarks (write_group o g clip))) /\
    (forall c : clipdef, True) /\ (forall m : maskdef, True) /\ (forall f : filterdef, True) /\
    (forall x : prim, True) /\ (forall x : paint, True).
  Proof.
    apply tree_mutind; auto.
    - intros i vz fl st _ _ clip. change (allp (lmarks [write_path o i fl st None])). rewrite lmarks_single.
      apply allp_path.
    - intros i sub _ clip. change (allp (lmarks [XE Timage (id_attr o i ++ [AHrefData]) []])). rewrite lmarks_single, marks_of_eq.
      simpl lmarks. rewrite app_nil_r, flat_map_app. apply allp_app; [apply allp_id|simpl; apply allp_nil].
    - intros i flat ch Hfl clip.
      change (allp (lmarks (if w_preserve_text o then [XE Ttext (id_attr o i) (map (write_chunk o) ch)] else write_group o flat clip))).
      destruct (w_preserve_text o); [|apply Hfl].
      rewrite lmarks_single, marks_of_eq. apply allp_app; [apply allp_id|].
      apply allp_lmarks_map. intros c _. apply allp_chunk.
    - intros i sy c m fs ks _ _ _ Hks clip. destruct clip.
      + rewrite write_group_clip. unfold lmarks. intros r Hr. apply in_flat_map in Hr. destruct Hr as (x & Hx & Hr).
        apply in_flat_map in Hx. destruct Hx as (k & Hk & Hx).
        apply (proj1 allp_clip_content k (option_map c_id c) r). unfold lmarks. apply in_flat_map. exists x. split; auto.
      + rewrite write_group_noclip. rewrite lmarks_single, marks_of_eq, !flat_map_app.
        repeat apply allp_app; try apply allp_id; try apply allp_opt.
        * destruct fs as [|f0 fr]; [apply allp_nil|]. simpl flat_map. rewrite app_nil_r.
          intros r Hr. change (In r (map (fun f => (p, f_id f)) (f0 :: fr))) in Hr. apply in_map_iff in Hr.
          destruct Hr as (f & <- & _). reflexivity.
        * destruct sy; simpl; apply allp_nil.
        * intros r Hr. unfold lmarks in Hr. apply in_flat_map in Hr. destruct Hr as (x & Hx & Hr).
          apply in_flat_map in Hx. destruct Hx as (k & Hk & Hx). rewrite Forall_forall in Hks.
          apply (Hks k Hk false r). unfold lmarks. apply in_flat_map. exists x. split; auto.
  Qed.

  Lemma allp_elements g clip : allp (lmarks (write_elements o g clip)).
  Proof.
    unfold write_elements. intros r Hr. unfold lmarks in Hr. apply in_flat_map in Hr. destruct Hr as (x & Hx & Hr).
    apply in_flat_map in Hx. destruct Hx as (k & Hk & Hx). destruct allp_content as (H & _).
    apply (H k clip r). unfold lmarks. apply in_flat_map. exists x. split; auto.
  Qed.

  Lemma allp_prim pr : allp (marks_of (write_prim o pr)).
  Proof.
    destruct pr as [k sb res ins img]. unfold write_prim.
    assert (Hin : forall l j, flat_map attr_marks ((fix go (l : list finput) (j : N) : list aval :=
                     match l with [] => [] | i :: r => AIn j i :: go r (j + 1) end) l j) = []).
    { induction l as [|x l IH]; intro j; simpl; auto. }
    destruct (k =? 12).
    - rewrite marks_of_eq. simpl flat_map. apply allp_lmarks_map. intros i _. simpl. apply allp_nil.
    - rewrite marks_of_eq. rewrite fm_cons, !flat_map_app, Hin. simpl. rewrite app_nil_r.
      destruct img as [r0|]; simpl; [|apply allp_nil]. destruct (g_kids r0); simpl; [apply allp_nil|].
      intros r [<-|[]]. reflexivity.
  Qed.

  Lemma allp_fe_children cs : forall written out w', write_fe_children o cs written = (out, w') -> allp (lmarks out).
  Proof.
    induction cs as [|c r IH]; intros written out w' H; simpl in H.
    - inversion H; subst. apply allp_nil.
    - destruct (existsb (N.eqb (node_id c)) written); [eapply IH; eauto|].
      destruct (write_fe_children o r (written ++ [node_id c])) as [out1 w1] eqn:E1. inversion H; subst.
      rewrite lmarks_app. apply allp_app; [apply (proj1 allp_content)|eapply IH; eauto].
  Qed.
  Lemma allp_filters fs : forall written, allp (lmarks (write_filters o fs written)).
  Proof.
    induction fs as [|f r IH]; intro written; simpl; [apply allp_nil|].
    destruct (write_fe_children o (fe_children f) written) as [pre w'] eqn:E.
    rewrite lmarks_app. apply allp_app; [eapply allp_fe_children; eauto|].
    change (allp (lmarks ([XE Tfilter [AId p (f_id f)] (map (write_prim o) (f_prims f))] ++ write_filters o r w'))).
    rewrite lmarks_app. apply allp_app; [|apply IH]. rewrite lmarks_single, marks_of_eq.
    apply allp_app; [simpl; intros x [<-|[]]; reflexivity|]. apply allp_lmarks_map. intros pr _. apply allp_prim.
  Qed.
  Lemma allp_text_paths root : allp (lmarks (write_text_path_paths o root)).
  Proof.
    unfold write_text_path_paths.
    apply (walk_group_inv false (fun n acc => acc ++ text_path_defs o n) root (fun acc => allp (lmarks acc))); [|apply allp_nil].
    intros m a _ Ha. rewrite lmarks_app. apply allp_app; auto. destruct m; simpl; try apply allp_nil.
    induction chunks as [|c r IH]; simpl; [apply allp_nil|]. destruct c as [[[q j]|] sp]; simpl; auto.
    rewrite app_nil_r. apply allp_app; auto. apply allp_id.
  Qed.

  Theorem marks_prefix t : allp (marks_of (write o t)).
  Proof.
    unfold write. rewrite marks_of_eq. apply allp_app.
    { destruct (has_xlink (t_root t)); simpl; apply allp_nil. }
    change (allp (lmarks ([XE Tdefs [] (write_defs o t)] ++ write_elements o (t_root t) false))).
    rewrite lmarks_app. apply allp_app; [|apply allp_elements].
    rewrite lmarks_single, marks_of_eq. apply allp_app; [apply allp_nil|].
    unfold write_defs. rewrite !lmarks_app.
    repeat apply allp_app.
    - apply allp_lmarks_map. intros d _. simpl. intros r [<-|[]]. reflexivity.
    - apply allp_lmarks_map. intros d _. simpl. intros r [<-|[]]. reflexivity.
    - apply allp_lmarks_map. intros d _. unfold write_pat. rewrite marks_of_eq. apply allp_app.
      + simpl. intros r [<-|[]]. reflexivity.
      + destruct d; try apply allp_nil. apply allp_elements.
    - unfold has_text_nodes. apply allp_text_paths.
    - apply allp_filters.
    - apply allp_lmarks_map. intros c _. unfold write_clip. rewrite marks_of_eq. apply allp_app; [|apply allp_elements].
      rewrite flat_map_app. apply allp_app; [simpl; intros r [<-|[]]; reflexivity|apply allp_opt].
    - apply allp_lmarks_map. intros c _. unfold write_mask. rewrite marks_of_eq. apply allp_app; [|apply allp_elements].
      rewrite flat_map_app. apply allp_app; [simpl; intros r [<-|[]]; reflexivity|apply allp_opt].
  Qed.
End Prefix.

(* ================================================================================================ *)
(* xlink is declared whenever it is used                                                            *)
Definition lx (l : list xout) : bool := existsb uses_xlink l.
Lemma uses_xlink_eq t a k : uses_xlink (XE t a k) = existsb attr_xlink a || lx k.
Proof. reflexivity. Qed.
Lemma lx_app a b : lx (a ++ b) = lx a || lx b.
Proof. apply existsb_app. Qed.
Lemma lx_flat_map {X} (f : X -> list xout) l : lx (flat_map f l) = true -> exists x, In x l /\ lx (f x) = true.
Proof.
  induction l as [|x r IH]; simpl; [discriminate|]. rewrite lx_app. intro H. apply orb_true_iff in H.
  destruct H as [H|H]; [exists x; auto|]. destruct (IH H) as (y & Hy & Hl). exists y; auto.
Qed.
Lemma lx_map {X} (f : X -> xout) l : lx (map f l) = true -> exists x, In x l /\ uses_xlink (f x) = true.
Proof.
  unfold lx. rewrite existsb_exists. intros (y & Hy & H). apply in_map_iff in Hy. destruct Hy as (x & <- & Hx). eauto.
Qed.
Lemma lx_single x : lx [x] = uses_xlink x.
Proof. unfold lx. simpl. apply orb_false_r. Qed.

Section Xlink.
  Variable o : wopts.
  Let p := w_prefix o.

  Lemma id_attr_nox i : existsb attr_xlink (id_attr o i) = false.
  Proof. unfold id_attr. destruct (i =? 0); reflexivity. Qed.
  Lemma paint_attr_nox k pa : existsb attr_xlink (paint_attr o k pa) = false.
  Proof. destruct pa; reflexivity. Qed.
  Lemma opt_url_nox {X} k (f : X -> N) d : existsb attr_xlink (opt_url o k f d) = false.
  Proof. destruct d; reflexivity. Qed.
  Lemma write_path_nox i fl st cr : uses_xlink (write_path o i fl st cr) = false.
  Proof.
    unfold write_path. rewrite uses_xlink_eq. simpl lx. rewrite orb_false_r, !existsb_app, id_attr_nox, !paint_attr_nox.
    destruct cr; reflexivity.
  Qed.

  Lemma xl_clip_content :
    (forall n cid, lx (clip_kid o cid n) = false) /\
    (forall g cid, lx (write_clipkids o g cid) = false) /\
    (forall c : clipdef, True) /\ (forall m : maskdef, True) /\ (forall f : filterdef, True) /\
    (forall x : prim, True) /\ (forall x : paint, True).
  Proof.
    apply tree_mutind; auto.
    - intros g Hg cid. cbn [clip_kid]. destruct cid as [x|]; [destruct (option_map c_id (g_clip g)); [reflexivity|]|]; apply Hg.
    - intros i vz fl st _ _ cid. cbn [clip_kid]. rewrite lx_single. apply write_path_nox.
    - intros i sy c m fs ks _ _ _ Hks cid. rewrite write_clipkids_eq.
      destruct (lx (flat_map (clip_kid o cid) ks)) eqn:E; [|reflexivity].
      apply lx_flat_map in E. destruct E as (k & Hk & E). rewrite Forall_forall in Hks. rewrite (Hks k Hk cid) in E. discriminate.
  Qed.

  Lemma xl_content :
    (forall n clip, lx (write_node o n clip) = true -> exists m, In m (all_node n) /\ xlink_trigger m = true) /\
    (forall g clip, lx (write_group o g clip) = true -> exists m, In m (all_group g) /\ xlink_trigger m = true) /\
    (forall c : clipdef, True) /\ (forall m : maskdef, True) /\ (forall f : filterdef, True) /\
    (forall x : prim, True) /\ (forall x : paint, True).
  Proof.
    apply tree_mutind; auto.
    - intros g Hg clip H. change (lx (write_group o g clip) = true) in H. destruct (Hg clip H) as (m & Hm & Ht).
      exists m. split; auto. rewrite all_node_group. right. apply in_or_app. left. exact Hm.
    - intros i vz fl st _ _ clip H. change (lx [write_path o i fl st None] = true) in H.
      rewrite lx_single, write_path_nox in H. discriminate.
    - intros i sub _ clip _. exists (NImage i sub). split; [apply self_in_all_node|reflexivity].
    - intros i flat ch Hfl clip H.
      change (lx (if w_preserve_text o then [XE Ttext (id_attr o i) (map (write_chunk o) ch)] else write_group o flat clip) = true) in H.
      destruct (w_preserve_text o).
      + exists (NText i flat ch). split; [apply self_in_all_node|]. rewrite lx_single, uses_xlink_eq, id_attr_nox in H.
        simpl orb in H. apply lx_map in H. destruct H as (c & Hc & H). simpl. apply existsb_exists. exists c. split; auto.
        destruct c as [[[q j]|] sp]; auto. exfalso. unfold write_chunk in H. rewrite uses_xlink_eq in H.
        simpl orb in H. apply lx_map in H. destruct H as ([fl st] & _ & H). unfold write_ppair in H.
        rewrite uses_xlink_eq, existsb_app, !paint_attr_nox in H. discriminate.
      + destruct (Hfl clip H) as (m & Hm & Ht). exists m. split; auto. rewrite all_node_text. right. exact Hm.
    - intros i sy c m fs ks _ _ _ Hks clip H. rewrite all_group_eq. destruct clip.
      + rewrite write_group_clip in H. apply lx_flat_map in H. destruct H as (k & Hk & H).
        rewrite (proj1 xl_clip_content k (option_map c_id c)) in H. discriminate.
      + rewrite write_group_noclip, lx_single, uses_xlink_eq in H. rewrite !existsb_app, id_attr_nox, !opt_url_nox in H.
        assert (H' : lx (flat_map (fun k => write_node o k false) ks) = true)
          by (destruct fs, sy; cbn [orb existsb attr_xlink] in H; exact H).
        clear H. rename H' into H. apply lx_flat_map in H. destruct H as (k & Hk & H).
        rewrite Forall_forall in Hks. destruct (Hks k Hk false H) as (m0 & Hm0 & Ht). exists m0. split; auto.
        apply in_flat_map. exists k. split; auto.
  Qed.

  Lemma xl_elements g clip : lx (write_elements o g clip) = true -> exists m, In m (all_group g) /\ xlink_trigger m = true.
  Proof.
    unfold write_elements. intro H. apply lx_flat_map in H. destruct H as (k & Hk & H).
    destruct (proj1 xl_content k clip H) as (m & Hm & Ht). exists m. split; auto.
    destruct g as [i sy c mk fs ks]. rewrite all_group_eq. apply in_flat_map. exists k. split; auto.
  Qed.

  (* ---- has_xlink with its early returns finds every trigger that the field-by-field enumeration contains *)
  Definition hx_prim (pr : prim) : bool :=
    match pr with PR _ _ _ _ img => match img with Some g => hx_group g | None => false end end.
  Lemma hx_group_eq i sy c m fs ks : hx_group (G i sy c m fs ks) = existsb hx_node ks.
  Proof. reflexivity. Qed.
  Lemma hx_filter_eq q i ps : hx_filter (FD q i ps) = existsb hx_prim ps.
  Proof. reflexivity. Qed.
  Lemma hx_gsub_eq i sy c m fs ks :
    hx_gsub (G i sy c m fs ks) =
    match c with Some c' => hx_clipchain c' | None => false end ||
    match m with Some m' => hx_maskchain_d m' | None => false end || existsb hx_filter fs.
  Proof. reflexivity. Qed.
  Lemma hx_node_group g :
    hx_node (NGroup g) =
    xlink_trigger (NGroup g) || match g_mask g with Some d => hx_maskchain_d d | None => false end || hx_group g || hx_gsub g.
  Proof. destruct g. reflexivity. Qed.
  Lemma hx_clip_eq q i nx r : hx_clipchain (CD q i nx r) = hx_group r || match nx with Some c' => hx_clipchain c' | None => false end.
  Proof. reflexivity. Qed.
  Lemma hx_mask_eq q i nx r : hx_maskchain_d (MD q i nx r) = hx_group r || match nx with Some c' => hx_maskchain_d c' | None => false end.
  Proof. reflexivity. Qed.

  Lemma hx_complete_all :
    (forall n m, In m (all_node n) -> xlink_trigger m = true -> hx_node n = true) /\
    (forall g, (forall m, In m (all_group g) -> xlink_trigger m = true -> hx_group g = true) /\
               (forall m, In m (all_gdefs g) -> xlink_trigger m = true -> hx_gsub g = true)) /\
    (forall c m, In m (all_clip c) -> xlink_trigger m = true -> hx_clipchain c = true) /\
    (forall d m, In m (all_mask d) -> xlink_trigger m = true -> hx_maskchain_d d = true) /\
    (forall f m, In m (all_filter f) -> xlink_trigger m = true -> hx_filter f = true) /\
    (forall pr m, In m (all_prim pr) -> xlink_trigger m = true -> hx_prim pr = true) /\
    (forall pa m, In m (all_paint pa) -> xlink_trigger m = true -> hx_paint pa = true).
  Proof.
    apply tree_mutind.
    - intros g [Hg Hs] m Hm Ht. rewrite all_node_group in Hm. rewrite hx_node_group.
      destruct Hm as [<-|Hm]; [rewrite Ht; reflexivity|]. apply in_app_or in Hm. destruct Hm as [Hm|Hm].
      + rewrite (Hg m Hm Ht). rewrite !orb_true_r. reflexivity.
      + rewrite (Hs m Hm Ht). rewrite !orb_true_r. reflexivity.
    - intros i vz fl st Hfl Hst m Hm Ht. rewrite all_node_path in Hm. destruct Hm as [<-|Hm]; [discriminate Ht|].
      change (hx_paint fl || hx_paint st = true). apply in_app_or in Hm. destruct Hm as [Hm|Hm].
      + rewrite (Hfl m Hm Ht). reflexivity.
      + rewrite (Hst m Hm Ht). apply orb_true_r.
    - intros; reflexivity.
    - intros i flat ch [Hfl _] m Hm Ht. rewrite all_node_text in Hm.
      change (xlink_trigger (NText i flat ch) || hx_group flat = true).
      destruct Hm as [<-|Hm]; [rewrite Ht; reflexivity|]. rewrite (Hfl m Hm Ht). apply orb_true_r.
    - intros i sy c mk fs ks Hc Hm Hfs Hks. split.
      + intros m Hin Ht. rewrite all_group_eq in Hin. rewrite hx_group_eq. apply in_flat_map in Hin.
        destruct Hin as (k & Hk & Hin). apply existsb_exists. exists k. split; auto.
        rewrite Forall_forall in Hks. apply (Hks k Hk m Hin Ht).
      + intros m Hin Ht. rewrite all_gdefs_eq in Hin. rewrite hx_gsub_eq.
        apply in_app_or in Hin. destruct Hin as [Hin|Hin].
        { destruct c as [c'|]; [|destruct Hin]. simpl in Hc. rewrite (Hc m Hin Ht). reflexivity. }
        apply in_app_or in Hin. destruct Hin as [Hin|Hin].
        { destruct mk as [m'|]; [|destruct Hin]. simpl in Hm. rewrite (Hm m Hin Ht). rewrite orb_true_r. reflexivity. }
        apply in_flat_map in Hin. destruct Hin as (f & Hf & Hin).
        assert (E : existsb hx_filter fs = true).
        { apply existsb_exists. exists f. split; auto. rewrite Forall_forall in Hfs. apply (Hfs f Hf m Hin Ht). }
        rewrite E. apply orb_true_r.
    - intros q i nx r Hnx [Hr _] m Hin Ht. rewrite all_clip_eq in Hin. rewrite hx_clip_eq.
      apply in_app_or in Hin. destruct Hin as [Hin|Hin]; [rewrite (Hr m Hin Ht); reflexivity|].
      destruct nx as [c'|]; [|destruct Hin]. simpl in Hnx. rewrite (Hnx m Hin Ht). apply orb_true_r.
    - intros q i nx r Hnx [Hr _] m Hin Ht. rewrite all_mask_eq in Hin. rewrite hx_mask_eq.
      apply in_app_or in Hin. destruct Hin as [Hin|Hin]; [rewrite (Hr m Hin Ht); reflexivity|].
      destruct nx as [c'|]; [|destruct Hin]. simpl in Hnx. rewrite (Hnx m Hin Ht). apply orb_true_r.
    - intros q i ps Hps m Hin Ht. rewrite all_filter_eq in Hin. rewrite hx_filter_eq. apply in_flat_map in Hin.
      destruct Hin as (pr & Hpr & Hin). apply existsb_exists. exists pr. split; auto.
      rewrite Forall_forall in Hps. apply (Hps pr Hpr m Hin Ht).
    - intros k sb r ins img Hi m Hin Ht. rewrite all_prim_eq in Hin. simpl. destruct img as [g|]; [|destruct Hin].
      simpl in Hi. apply (proj1 Hi m Hin Ht).
    - intros m [].
    - intros m [].
    - intros q i m [].
    - intros q i m [].
    - intros q i r [Hr _] m Hin Ht. rewrite all_paint_pat in Hin. simpl. apply (Hr m Hin Ht).
  Qed.

  Definition has_trigger (l : list node) : Prop := exists m, In m l /\ xlink_trigger m = true.
  Lemma ht_incl l l' : incl l l' -> has_trigger l -> has_trigger l'.
  Proof. intros H (m & Hm & Ht). exists m. split; auto. Qed.

  (* and it answers true only when there is one *)
  Lemma hx_sound_all :
    (forall n, hx_node n = true -> has_trigger (all_node n)) /\
    (forall g, (hx_group g = true -> has_trigger (all_group g)) /\ (hx_gsub g = true -> has_trigger (all_gdefs g))) /\
    (forall c, hx_clipchain c = true -> has_trigger (all_clip c)) /\
    (forall d, hx_maskchain_d d = true -> has_trigger (all_mask d)) /\
    (forall f, hx_filter f = true -> has_trigger (all_filter f)) /\
    (forall pr, hx_prim pr = true -> has_trigger (all_prim pr)) /\
    (forall pa, hx_paint pa = true -> has_trigger (all_paint pa)).
  Proof.
    apply tree_mutind.
    - intros g [Hg Hs] H. rewrite hx_node_group in H. rewrite all_node_group.
      apply orb_true_iff in H. destruct H as [H|H].
      2:{ apply (ht_incl (all_gdefs g)); [apply incl_tl, incl_appr, incl_refl|auto]. }
      apply orb_true_iff in H. destruct H as [H|H].
      2:{ apply (ht_incl (all_group g)); [apply incl_tl, incl_appl, incl_refl|auto]. }
      apply orb_true_iff in H. destruct H as [H|H].
      { exists (NGroup g). split; [left; reflexivity|exact H]. }
      (* the mask chain is part of the sub-roots *)
      apply (ht_incl (all_gdefs g)); [apply incl_tl, incl_appr, incl_refl|]. apply Hs.
      destruct g as [i sy c m fs ks]. rewrite hx_gsub_eq. simpl g_mask in H. destruct m as [d|]; [|discriminate].
      rewrite H. rewrite orb_true_r. reflexivity.
    - intros i vz fl st Hfl Hst H. change (hx_paint fl || hx_paint st = true) in H. rewrite all_node_path.
      apply orb_true_iff in H. destruct H as [H|H].
      + apply (ht_incl (all_paint fl)); [apply incl_tl, incl_appl, incl_refl|auto].
      + apply (ht_incl (all_paint st)); [apply incl_tl, incl_appr, incl_refl|auto].
    - intros i sub _ _. exists (NImage i sub). split; [apply self_in_all_node|reflexivity].
    - intros i flat ch [Hfl _] H. change (xlink_trigger (NText i flat ch) || hx_group flat = true) in H.
      rewrite all_node_text. apply orb_true_iff in H. destruct H as [H|H].
      + exists (NText i flat ch). split; [left; reflexivity|exact H].
      + apply (ht_incl (all_group flat)); [apply incl_tl, incl_refl|auto].
    - intros i sy c mk fs ks Hc Hm Hfs Hks. split.
      + rewrite hx_group_eq, all_group_eq. intro H. apply existsb_exists in H. destruct H as (k & Hk & H).
        rewrite Forall_forall in Hks. destruct (Hks k Hk H) as (m & Hin & Ht). exists m. split; auto.
        apply in_flat_map. exists k. split; auto.
      + rewrite hx_gsub_eq, all_gdefs_eq. intro H. apply orb_true_iff in H. destruct H as [H|H].
        * apply orb_true_iff in H. destruct H as [H|H].
          -- destruct c as [c'|]; [|discriminate]. simpl in Hc. apply (ht_incl (all_clip c')); [apply incl_appl, incl_refl|auto].
          -- destruct mk as [m'|]; [|discriminate]. simpl in Hm.
             apply (ht_incl (all_mask m')); [apply incl_appr, incl_appl, incl_refl|auto].
        * apply existsb_exists in H. destruct H as (f & Hf & H). rewrite Forall_forall in Hfs.
          destruct (Hfs f Hf H) as (m & Hin & Ht). exists m. split; auto.
          apply in_or_app. right. apply in_or_app. right. apply in_flat_map. exists f. split; auto.
    - intros q i nx r Hnx [Hr _] H. rewrite hx_clip_eq in H. rewrite all_clip_eq. apply orb_true_iff in H. destruct H as [H|H].
      + apply (ht_incl (all_group r)); [apply incl_appl, incl_refl|auto].
      + destruct nx as [c'|]; [|discriminate]. simpl in Hnx. apply (ht_incl (all_clip c')); [apply incl_appr, incl_refl|auto].
    - intros q i nx r Hnx [Hr _] H. rewrite hx_mask_eq in H. rewrite all_mask_eq. apply orb_true_iff in H. destruct H as [H|H].
      + apply (ht_incl (all_group r)); [apply incl_appl, incl_refl|auto].
      + destruct nx as [c'|]; [|discriminate]. simpl in Hnx. apply (ht_incl (all_mask c')); [apply incl_appr, incl_refl|auto].
    - intros q i ps Hps H. rewrite hx_filter_eq in H. rewrite all_filter_eq. apply existsb_exists in H.
      destruct H as (pr & Hpr & H). rewrite Forall_forall in Hps. destruct (Hps pr Hpr H) as (m & Hin & Ht).
      exists m. split; auto. apply in_flat_map. exists pr. split; auto.
    - intros k sb r ins img Hi H. rewrite all_prim_eq. simpl in H. destruct img as [g|]; [|discriminate]. simpl in Hi.
      apply (proj1 Hi H).
    - discriminate.
    - discriminate.
    - intros; discriminate.
    - intros; discriminate.
    - intros q i r [Hr _] H. rewrite all_paint_pat. simpl in H. auto.
  Qed.

  Lemma has_xlink_iff root : has_xlink root = true <-> has_trigger (all_group root).
  Proof.
    split.
    - intro H. destruct hx_sound_all as (_ & S & _). apply (proj1 (S root)). exact H.
    - intros (m & Hm & Ht). destruct hx_complete_all as (_ & C & _). apply (proj1 (C root) m Hm Ht).
  Qed.

  Lemma has_xlink_complete root n : In n (all_group root) -> xlink_trigger n = true -> has_xlink root = true.
  Proof.
    intros Hn Ht. unfold has_xlink. destruct hx_complete_all as (_ & H & _). apply (proj1 (H root) n Hn Ht).
  Qed.

  Lemma xl_fe_children cs : forall written out w', write_fe_children o cs written = (out, w') -> lx out = true ->
    exists c, In c cs /\ lx (write_node o c false) = true.
  Proof.
    induction cs as [|c r IH]; intros written out w' H Hl; simpl in H.
    - inversion H; subst. discriminate.
    - destruct (existsb (N.eqb (node_id c)) written).
      + destruct (IH _ _ _ H Hl) as (c0 & H0 & H1). exists c0. split; auto. right; auto.
      + destruct (write_fe_children o r (written ++ [node_id c])) as [out1 w1] eqn:E1. inversion H; subst.
        rewrite lx_app in Hl. apply orb_true_iff in Hl. destruct Hl as [Hl|Hl].
        * exists c. split; auto. left; reflexivity.
        * destruct (IH _ _ _ E1 Hl) as (c0 & H0 & H1). exists c0. split; auto. right; auto.
  Qed.

  Lemma xl_prim pr : uses_xlink (write_prim o pr) = true -> exists r, p_img pr = Some r.
  Proof.
    destruct pr as [k sb res ins img]. unfold write_prim.
    assert (Hin : forall l j, existsb attr_xlink ((fix go (l : list finput) (j : N) : list aval :=
                     match l with [] => [] | i :: r => AIn j i :: go r (j + 1) end) l j) = false).
    { induction l as [|x l IH]; intro j; simpl; auto. }
    destruct (k =? 12).
    - rewrite uses_xlink_eq. simpl existsb. intro H. exfalso. simpl in H.
      induction ins as [|x l IH]; simpl in H; [discriminate|auto].
    - rewrite uses_xlink_eq, ex_cons, !existsb_app, Hin. simpl. rewrite !orb_false_r. destruct img as [r0|]; [eauto|discriminate].
  Qed.

  Lemma xl_filters fs : forall written, lx (write_filters o fs written) = true ->
    exists f, In f fs /\ ((exists c, In c (fe_children f) /\ lx (write_node o c false) = true) \/
                          (exists pr r, In pr (f_prims f) /\ p_img pr = Some r)).
  Proof.
    induction fs as [|f rest IH]; intros written H; simpl in H; [discriminate|].
    destruct (write_fe_children o (fe_children f) written) as [pre w'] eqn:E.
    rewrite lx_app in H. apply orb_true_iff in H. destruct H as [H|H].
    - destruct (xl_fe_children _ _ _ _ E H) as (c & Hc & H1). exists f. split; [left; reflexivity|]. left. eauto.
    - change (lx ([XE Tfilter [AId p (f_id f)] (map (write_prim o) (f_prims f))] ++ write_filters o rest w') = true) in H.
      rewrite lx_app in H. apply orb_true_iff in H. destruct H as [H|H].
      + rewrite lx_single, uses_xlink_eq in H. simpl orb in H. apply lx_map in H. destruct H as (pr & Hpr & H).
        apply xl_prim in H. destruct H as (r & Hr). exists f. split; [left; reflexivity|]. right. eauto.
      + destruct (IH _ H) as (f0 & Hf0 & H1). exists f0. split; auto. right; auto.
  Qed.

  Lemma xl_text_paths root : lx (write_text_path_paths o root) = false.
  Proof.
    unfold write_text_path_paths.
    apply (walk_group_inv false (fun n acc => acc ++ text_path_defs o n) root (fun acc => lx acc = false)); auto.
    intros m a _ Ha. rewrite lx_app, Ha. simpl. destruct m; simpl; auto.
    induction chunks as [|c r IH]; simpl; auto. destruct c as [[[q j]|] sp]; simpl; auto.
    rewrite id_attr_nox. simpl. exact IH.
  Qed.

  Theorem xlink_declared t : coll_sound t -> uses_xlink (write o t) = true -> declares_xlink (write o t) = true.
  Proof.
    intros Hsound H. set (root := t_root t).
    assert (Hgoal : has_xlink root = true).
    2:{ unfold write, declares_xlink. fold root. rewrite Hgoal. reflexivity. }
    assert (Hsub : forall g, (forall k, In k (g_kids g) -> In k (all_group root)) ->
                   forall m, In m (all_group g) -> In m (all_group root)).
    { intros g Hk m Hm. destruct g as [i sy c mk fs ks]. rewrite all_group_eq in Hm. apply in_flat_map in Hm.
      destruct Hm as (k & Hkin & Hm). apply (U_closed root k (Hk k Hkin)). exact Hm. }
    unfold write in H. rewrite uses_xlink_eq in H.
    assert (E : existsb attr_xlink (AXmlns :: (if has_xlink (t_root t) then [AXlink] else [])) = false)
      by (destruct (has_xlink (t_root t)); reflexivity).
    rewrite E in H. simpl orb in H.
    change (lx ([XE Tdefs [] (write_defs o t)] ++ write_elements o root false) = true) in H.
    rewrite lx_app in H. apply orb_true_iff in H. destruct H as [H|H].
    2:{ destruct (xl_elements root false H) as (m & Hm & Ht). apply (has_xlink_complete root m Hm Ht). }
    rewrite lx_single, uses_xlink_eq in H. simpl orb in H. unfold write_defs in H. rewrite !lx_app in H.
    destruct Hsound as (S1 & S2 & S3 & _ & _ & S6).
    repeat (apply orb_true_iff in H; destruct H as [H|H]).
    - apply lx_map in H. destruct H as (d & _ & H). simpl in H. discriminate.
    - apply lx_map in H. destruct H as (d & _ & H). simpl in H. discriminate.
    - apply lx_map in H. destruct H as (d & Hd & H). unfold write_pat in H. rewrite uses_xlink_eq in H. simpl orb in H.
      destruct d as [| | | |q j r0]; try discriminate. destruct (xl_elements r0 false H) as (m & Hm & Ht).
      apply (has_xlink_complete root m); auto. apply (Hsub r0); auto. intros k Hk.
      specialize (S6 _ Hd). unfold reach_defs in S6. apply in_flat_map in S6. destruct S6 as (n & Hn & Hin).
      destruct n as [|i vz fl st| |]; cbn [node_paints] in Hin; try (destruct Hin; fail).
      apply (U_pattern_kid root i vz fl st q j r0 k Hn); auto.
      apply filter_In in Hin. destruct Hin as [[<-|[<-|[]]] _]; auto.
    - unfold has_text_nodes in H. rewrite xl_text_paths in H. discriminate.
    - apply xl_filters in H. destruct H as (f & Hf & H).
      specialize (S3 f Hf). unfold reach_filters, reach_defs in S3. apply in_flat_map in S3. destruct S3 as (n & Hn & Hin).
      destruct n as [g| | |]; simpl in Hin; try destruct Hin.
      apply (has_xlink_complete root (NGroup g) Hn). simpl. apply existsb_exists. exists f. split; auto.
      destruct H as [(c & Hc & _)|(pr & r & Hpr & Hi)].
      + unfold fe_children in Hc. apply in_flat_map in Hc. destruct Hc as (pr & Hpr & Hc). apply existsb_exists.
        exists pr. split; auto. destruct (p_img pr); [reflexivity|destruct Hc].
      + apply existsb_exists. exists pr. split; auto. rewrite Hi. reflexivity.
    - apply lx_map in H. destruct H as (c & Hc & H). unfold write_clip in H. rewrite uses_xlink_eq in H.
      rewrite existsb_app, opt_url_nox in H. simpl orb in H. destruct (xl_elements (c_root c) true H) as (m & Hm & Ht).
      apply (has_xlink_complete root m); auto. apply (Hsub (c_root c)); auto. intros k Hk.
      specialize (S1 c Hc). unfold reach_clips, reach_defs in S1. apply in_flat_map in S1. destruct S1 as (n & Hn & Hin).
      destruct n as [g| | |]; simpl in Hin; try destruct Hin. apply (U_clip_kid root g c k Hn Hin Hk).
    - apply lx_map in H. destruct H as (c & Hc & H). unfold write_mask in H. rewrite uses_xlink_eq in H.
      rewrite existsb_app, opt_url_nox in H. simpl orb in H. destruct (xl_elements (m_root c) false H) as (m & Hm & Ht).
      apply (has_xlink_complete root m); auto. apply (Hsub (m_root c)); auto. intros k Hk.
      specialize (S2 c Hc). unfold reach_masks, reach_defs in S2. apply in_flat_map in S2. destruct S2 as (n & Hn & Hin).
      destruct n as [g| | |]; simpl in Hin; try destruct Hin. apply (U_mask_kid root g c k Hn Hin Hk).
  Qed.
End Xlink.
