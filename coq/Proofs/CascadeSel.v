(* C09: rule lists - selector forms, rule order, and the declarative winner of the cascade (lemmas). *)
From Coq Require Import String Permutation Sorted.
From RV Require Import Model.Base Gen.SvgTables Gen.Units Model.CascadeBase Gen.SvgInsert Model.Cascade Proofs.Cascade Model.CascadeSel.


(* ---- the declarative winner ------------------------------------------------------------------------------------- *)
Fixpoint somes {A} (l : list (option A)) : list A :=
  match l with [] => [] | Some x :: r => x :: somes r | None :: r => somes r end.

Lemma somes_app {A} (l m : list (option A)) : somes (l ++ m) = somes l ++ somes m.
Proof. induction l as [|[x|] l IH]; simpl; [reflexivity| rewrite IH; reflexivity | exact IH]. Qed.

Lemma fold_step_somes l st : fold_left step l st = fold_left step (map Some (somes l)) st.
Proof.
  revert st. induction l as [|[x|] l IH]; intro st; simpl; [reflexivity| apply IH |].
  destruct st; apply IH.
Qed.

Lemma precedence_is_negb b : new_has_precedence b = negb b.
Proof. destruct b; reflexivity. Qed.

Lemma fold_step_some l : forall x, fold_left step (map Some l) (Some x) = winner (x :: l).
Proof.
  induction l as [|y l IH]; intro x.
  - unfold winner. simpl. destruct (a_imp x); reflexivity.
  - simpl fold_left. rewrite precedence_is_negb. destruct (a_imp x) eqn:E; simpl negb; cbv iota.
    + rewrite IH. unfold winner. simpl find. rewrite E. reflexivity.
    + rewrite IH. unfold winner. simpl find. rewrite E. destruct (a_imp y) eqn:Ey; [reflexivity|].
      destruct (find a_imp l); reflexivity.
Qed.

Lemma fold_step_winner l : fold_left step l None = winner (somes l).
Proof.
  rewrite fold_step_somes. destruct (somes l) as [|x r]; [reflexivity|].
  simpl. apply fold_step_some.
Qed.

(* what the winner is: important if any candidate is, and then the FIRST such; otherwise the LAST candidate *)
Lemma winner_important l d : winner l = Some d -> a_imp d = true ->
  exists l1 l2, l = l1 ++ d :: l2 /\ forallb (fun x => negb (a_imp x)) l1 = true.
Proof.
  unfold winner. intros H Hi. destruct (find a_imp l) eqn:F.
  - injection H as ->. clear Hi. revert F. induction l as [|x l IH]; simpl; [discriminate|].
    destruct (a_imp x) eqn:E.
    + intro K. injection K as ->. exists [], l. split; reflexivity.
    + intro K. destruct (IH K) as [l1 [l2 [E1 E2]]]. exists (x :: l1), l2. split; [rewrite E1; reflexivity|].
      simpl. rewrite E. exact E2.
  - exfalso. revert H F. induction l as [|x l IH]; simpl; [discriminate|].
    destruct l as [|y l'].
    + intro K. injection K as ->. rewrite Hi. discriminate.
    + destruct (a_imp x); [discriminate|]. exact IH.
Qed.

Lemma winner_plain l d : winner l = Some d -> a_imp d = false ->
  (exists l1, l = l1 ++ [d]) /\ forallb (fun x => negb (a_imp x)) l = true.
Proof.
  unfold winner. intros H Hi. destruct (find a_imp l) eqn:F.
  - injection H as ->. apply find_some in F. destruct F as [_ F]. rewrite F in Hi. discriminate.
  - split.
    + clear F Hi. revert H. induction l as [|x l IH]; simpl; [discriminate|]. destruct l as [|y l'].
      * intro K. injection K as ->. exists []. reflexivity.
      * intro K. destruct (IH K) as [l1 E]. exists (x :: l1). rewrite E. reflexivity.
    + clear H. induction l as [|x l IH]; [reflexivity|]. simpl in F |- *. destruct (a_imp x); [discriminate|]. apply IH. exact F.
Qed.

(* ---- rule order: insertion sort by specificity is a stable sort ------------------------------------------------ *)
Lemma insert_perm r l : Permutation (insert_rule r l) (r :: l).
Proof.
  induction l as [|y t IH]; simpl; [apply Permutation_refl|].
  destruct (rule_key r <=? rule_key y)%N; [apply Permutation_refl|].
  eapply perm_trans; [apply perm_skip; exact IH| apply perm_swap].
Qed.

Lemma sort_rules_perm l : Permutation (sort_rules l) l.
Proof.
  induction l as [|r l IH]; simpl; [constructor|].
  eapply perm_trans; [apply insert_perm| apply perm_skip; exact IH].
Qed.

Definition key_le (a b : rule) : Prop := (rule_key a <= rule_key b)%N.

Lemma insert_sorted r l : Sorted key_le l -> Sorted key_le (insert_rule r l).
Proof.
  induction l as [|y t IH]; simpl; intro S; [repeat constructor|].
  destruct (rule_key r <=? rule_key y)%N eqn:E.
  - constructor; [exact S| constructor; apply N.leb_le; exact E].
  - inversion S as [|? ? St Hd]; subst. constructor; [apply IH; exact St|].
    apply N.leb_gt in E. destruct t as [|z t']; simpl.
    + constructor. unfold key_le. lia.
    + destruct (rule_key r <=? rule_key z)%N; constructor; [unfold key_le; lia|].
      inversion Hd; subst. assumption.
Qed.

Lemma sort_rules_sorted l : Sorted key_le (sort_rules l).
Proof. induction l as [|r l IH]; simpl; [constructor| apply insert_sorted; exact IH]. Qed.

(* stability: rules of equal specificity keep their source order *)
Lemma insert_filter_key k r l :
  filter (fun x => (rule_key x =? k)%N) (insert_rule r l) = filter (fun x => (rule_key x =? k)%N) (r :: l).
Proof.
  induction l as [|y t IH]; [reflexivity|]. simpl insert_rule.
  destruct (rule_key r <=? rule_key y)%N eqn:E; [reflexivity|].
  apply N.leb_gt in E. simpl filter at 1. rewrite IH. simpl.
  destruct (rule_key r =? k)%N eqn:Er; destruct (rule_key y =? k)%N eqn:Ey; try reflexivity.
  apply N.eqb_eq in Er. apply N.eqb_eq in Ey. lia.
Qed.

Lemma sort_rules_stable k l :
  filter (fun x => (rule_key x =? k)%N) (sort_rules l) = filter (fun x => (rule_key x =? k)%N) l.
Proof.
  induction l as [|r l IH]; [reflexivity|]. simpl sort_rules. rewrite insert_filter_key. simpl. rewrite IH. reflexivity.
Qed.

(* ---- the cascade over a rule list ------------------------------------------------------------------------------- *)
Lemma set_css_fields x l : x_tag (set_css x l) = x_tag x /\ x_ignore_ids (set_css x l) = x_ignore_ids x /\
  x_attrs (set_css x l) = x_attrs x /\ x_css (set_css x l) = l /\ x_style (set_css x l) = x_style x.
Proof. repeat split. Qed.

(* what attribute(a) sees on an element that gets its CSS declarations from a rule list *)
Lemma rules_lookup anc x rules e a :
  get_attr a (build_attrs anc (set_css x (sheet_css rules e)))
  = fold_left step (flat_map (cand_decl anc (x_tag x) a) (sheet_css rules e) ++ flat_map (cand_decl anc (x_tag x) a) (x_style x))
                   (fold_left step_first (flat_map (cand_attr anc (x_tag x) (x_ignore_ids x) a) (x_attrs x)) None).
Proof. rewrite build_lookup. reflexivity. Qed.

(* no presentation attribute and no style declaration of that name: the winner among the matched declarations *)
Lemma rules_winner anc x rules e a :
  flat_map (cand_attr anc (x_tag x) (x_ignore_ids x) a) (x_attrs x) = [] ->
  flat_map (cand_decl anc (x_tag x) a) (x_style x) = [] ->
  get_attr a (build_attrs anc (set_css x (sheet_css rules e)))
  = winner (somes (flat_map (cand_decl anc (x_tag x) a) (sheet_css rules e))).
Proof.
  intros Ha Hs. rewrite rules_lookup, Ha, Hs, app_nil_r. simpl. apply fold_step_winner.
Qed.

(* ---- selector forms --------------------------------------------------------------------------------------------- *)
Lemma sel_matches_snoc s c e :
  sel_matches (s ++ [c]) e =
  match_selector (c_sel c) e &&
  match c_comb c with
  | CNone => true
  | CDescendant => existsb (sel_matches s) (ancestors_of e)
  | CChild => match parent_element e with Some p => sel_matches s p | None => false end
  | CAdjacent => match prev_sibling_element e with Some p => sel_matches s p | None => false end
  end.
Proof. unfold sel_matches. rewrite rev_app_distr. reflexivity. Qed.

Definition one (t : option string) (subs : list sub) : comp := {| c_comb := CNone; c_sel := {| s_type := t; s_subs := subs |} |}.

Lemma sel_single t subs e : sel_matches [one t subs] e = match_selector {| s_type := t; s_subs := subs |} e.
Proof. unfold sel_matches. simpl. apply andb_true_r. Qed.

Lemma sel_universal e : sel_matches [one None []] e = true.
Proof. reflexivity. Qed.

Lemma sel_type t e : sel_matches [one (Some t) []] e = has_local_name e t.
Proof. rewrite sel_single. unfold match_selector. simpl. apply andb_true_r. Qed.

Lemma sel_attr n op e : sel_matches [one None [SubAttr n op]] e = attribute_matches e n op.
Proof. rewrite sel_single. unfold match_selector. simpl. apply andb_true_r. Qed.

Lemma sel_compound t s1 s2 e :
  match_selector {| s_type := t; s_subs := s1 ++ s2 |} e
  = match_selector {| s_type := t; s_subs := s1 |} e && forallb (sub_matches e) s2.
Proof. unfold match_selector. simpl. rewrite forallb_app. apply andb_assoc. Qed.

Lemma first_child_iff e : pseudo_class_matches e PFirstChild = true <-> prev_sibling_element e = None.
Proof.
  unfold pseudo_class_matches. change xmlnode_pseudo_first_child with true. cbv iota.
  destruct (prev_sibling_element e); split; intro H; try reflexivity; discriminate H.
Qed.

Lemma other_pseudo_never e c : c <> PFirstChild -> pseudo_class_matches e c = false.
Proof. intro H. destruct c; try reflexivity. contradiction H. reflexivity. Qed.

(* an element of the root level has no parent: child / descendant selectors with a left part never match it *)
Lemma root_no_ancestor s c lv : c_comb c = CChild \/ c_comb c = CDescendant -> sel_matches (s ++ [c]) [lv] = false.
Proof.
  intros [H|H]; rewrite sel_matches_snoc, H; simpl; apply andb_false_r.
Qed.
