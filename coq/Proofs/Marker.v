(* C17 (final pass): the marker viewport.  Theorems about the SOURCE-DERIVED Gen.LeafMarker.{marker_rect, marker_stroke_scale,
   marker_has_overflow, marker_clip_rect, marker_ts} (usvg parser/marker.rs).
   The rule (SVG 1.1 sect. 11.6.2 as resvg implements it): the marker content is drawn under
       translate(vertex) . rotate(orientation) . scale(S) . translate(-refX, -refY)
   where S = (k, k), k = stroke width for markerUnits=strokeWidth (1 for userSpaceOnUse), when there is no viewBox, and
   S = the scale of the preserveAspectRatio mapping of the viewBox onto (markerWidth * k) x (markerHeight * k) otherwise
   (only the scale of that mapping is used: the marker is anchored at the reference point, not at the viewBox origin). *)
From Coq Require Import String.
From RV Require Import Model.Base Model.GeomPrims Model.ViewBoxSpec Gen.Units Model.SvgSize Gen.PctAxis Model.ViewportPrims.
From RV Require Import Gen.LeafViewBox Gen.LeafMarker Proofs.ViewBox Proofs.Viewport.
Local Open Scope Q_scope.

Definition spec_marker_scale (r : qrect) (k : Q) (vb : option viewbox) : Q * Q :=
  match vb with
  | Some v => let t := to_transform v {| sw := rw r * k; sh := rh r * k |} in (t_sx t, t_sy t)
  | None => (k, k)
  end.
Definition spec_marker_ts (p : qpoint) (orient : ts) (r : qrect) (k : Q) (vb : option viewbox) : ts :=
  ts_concat (from_translate (pt_x p) (pt_y p))
    (ts_concat orient (ts_concat (from_scale (fst (spec_marker_scale r k vb)) (snd (spec_marker_scale r k vb)))
                                 (from_translate (- rx r) (- ry r)))).

Lemma ts_concat_assoc a b c : ts_eq (ts_concat (ts_concat a b) c) (ts_concat a (ts_concat b c)).
Proof. unfold ts_eq, ts_concat, from_row; cbn. repeat split; ring. Qed.
Lemma ts_concat_id_l a : ts_eq (ts_concat ts_identity a) a.
Proof. unfold ts_eq, ts_concat, ts_identity, from_row; cbn. repeat split; ring. Qed.
Lemma ts_eq_refl a : ts_eq a a.
Proof. unfold ts_eq. repeat split; reflexivity. Qed.
Lemma ts_eq_trans a b c : ts_eq a b -> ts_eq b c -> ts_eq a c.
Proof. unfold ts_eq. intros (A1&A2&A3&A4&A5&A6) (B1&B2&B3&B4&B5&B6). repeat split; lra. Qed.
Lemma ts_concat_eq_l a b c : ts_eq b c -> ts_eq (ts_concat a b) (ts_concat a c).
Proof. unfold ts_eq, ts_concat, from_row; cbn. intros (B1&B2&B3&B4&B5&B6). repeat split; nra. Qed.

(* the generated instance transform is the rule, in the order the code applies it; `orient` = rot unless the angle is zero *)
Lemma marker_ts_spec p z rot r k vb :
  ts_eq (marker_ts p z rot r k vb) (spec_marker_ts p (if z then ts_identity else rot) r k vb).
Proof.
  unfold marker_ts, spec_marker_ts, spec_marker_scale, ts_pre_scale, ts_pre_translate, ts_get_scale, size_from_wh_pos.
  cbn [g_width g_height HasWH_rect].
  destruct vb as [v|].
  - set (T := to_transform v {| sw := rw r * k; sh := rh r * k |}). clearbody T.
    destruct z; cbn [negb fst snd];
      unfold ts_eq, ts_concat, ts_identity, from_translate, from_scale, from_row; cbn; repeat split; try ring.
  - destruct z; cbn [negb fst snd];
      unfold ts_eq, ts_concat, ts_identity, from_translate, from_scale, from_row; cbn; repeat split; try ring.
Qed.

(* the reference point (refX, refY) lands exactly on the path vertex, for every orientation matrix without a translation part
   (pre_rotate(angle) is one), every scale and viewBox *)
Lemma marker_ref_on_vertex p z rot r k vb : t_tx rot == 0 -> t_ty rot == 0 ->
  map_x (marker_ts p z rot r k vb) (rx r) (ry r) == pt_x p /\ map_y (marker_ts p z rot r k vb) (rx r) (ry r) == pt_y p.
Proof.
  intros L1 L2. destruct (marker_ts_spec p z rot r k vb) as (E1&E2&E3&E4&E5&E6).
  unfold map_x, map_y. rewrite E1, E2, E3, E4, E5, E6.
  unfold spec_marker_ts. set (O := if z then ts_identity else rot).
  assert (O1 : t_tx O == 0) by (subst O; destruct z; [reflexivity|exact L1]).
  assert (O2 : t_ty O == 0) by (subst O; destruct z; [reflexivity|exact L2]).
  set (sc := spec_marker_scale r k vb).
  clearbody O sc. destruct sc as [a b]. unfold ts_concat, from_translate, from_scale, from_row; cbn. split; nra.
Qed.

(* markerUnits: strokeWidth multiplies the marker viewport by the stroke width, userSpaceOnUse by 1 *)
Lemma marker_units_scale sw : marker_stroke_scale true sw = Some 1 /\ marker_stroke_scale false sw = sw.
Proof. split; reflexivity. Qed.

(* without a viewBox the content is scaled uniformly by k; with one, by the preserveAspectRatio mapping of the viewBox onto the
   marker viewport (markerWidth * k) x (markerHeight * k): uniform unless `none`, and under `meet` the whole viewBox fits *)
Lemma marker_scale_rule r k v : pos_rect r -> 0 < k -> pos_rect (vb_rect v) ->
  let s := spec_marker_scale r k (Some v) in
  0 < fst s /\ 0 < snd s /\
  (ar_align (vb_aspect v) <> ANone -> fst s == snd s) /\
  (ar_align (vb_aspect v) = ANone -> fst s * rw (vb_rect v) == rw r * k /\ snd s * rh (vb_rect v) == rh r * k) /\
  (ar_align (vb_aspect v) <> ANone -> ar_slice (vb_aspect v) = false ->
     fst s * rw (vb_rect v) <= rw r * k /\ snd s * rh (vb_rect v) <= rh r * k) /\
  (ar_align (vb_aspect v) <> ANone -> ar_slice (vb_aspect v) = true ->
     rw r * k <= fst s * rw (vb_rect v) /\ rh r * k <= snd s * rh (vb_rect v)).
Proof.
  intros [Rw Rh] K PV s. subst s. unfold spec_marker_scale. cbn [fst snd].
  set (S := {| sw := rw r * k; sh := rh r * k |}).
  assert (V : vb_ok v S). { split; [exact PV|]. split; cbn; nra. }
  destruct (scale_positive v S V) as [P1 P2].
  destruct (no_skew v S) as [K1 K2].
  split; [exact P1|]. split; [exact P2|].
  split; [intro A; exact (uniform v S V A)|].
  split.
  - intro A. pose proof (none_maps_exactly v S V A) as M. cbv zeta in M.
    unfold img_lo_x, img_hi_x, img_lo_y, img_hi_y, map_x, map_y in M. cbn [sw sh S] in M.
    set (t := to_transform v S) in *. clearbody t. split; nra.
  - split.
    + intros A Sl. pose proof (meet_inside v S V A Sl) as M. cbv zeta in M.
      unfold img_lo_x, img_hi_x, img_lo_y, img_hi_y, map_x, map_y in M. cbn [sw sh S] in M.
      set (t := to_transform v S) in *. clearbody t. split; nra.
    + intros A Sl. pose proof (slice_covers v S V A Sl) as M. cbv zeta in M.
      unfold img_lo_x, img_hi_x, img_lo_y, img_hi_y, map_x, map_y in M. cbn [sw sh S] in M.
      set (t := to_transform v S) in *. clearbody t. split; nra.
Qed.

(* clip: present unless overflow is given and is neither hidden nor scroll; the rectangle is the viewBox when there is one,
   else the marker viewport (0, 0, markerWidth, markerHeight) in content units *)
Lemma marker_clip_rule o : marker_has_overflow o = negb (match o with Some s => negb (String.eqb s "hidden" || String.eqb s "scroll") | None => false end).
Proof. destruct o as [s|]; [|reflexivity]. cbn. rewrite orb_false_r, negb_involutive. reflexivity. Qed.
Lemma marker_clip_rect_rule r vb :
  marker_clip_rect r vb = match vb with Some v => vb_rect v | None => {| rx := 0; ry := 0; rw := rw r; rh := rh r |} end.
Proof. destruct vb; reflexivity. Qed.
(* under `meet` / `none` the clipped viewBox, drawn at scale S, is not larger than the marker viewport (mw * k) x (mh * k) *)

(* convert_rect = (refX, refY, markerWidth, markerHeight) by the SVG length rule: defaults 0, 0, 3, 3; percentages of the
   viewport width (refX, markerWidth) / height (refY, markerHeight); None when markerWidth or markerHeight is not positive *)
Lemma marker_rect_rule n st :
  let d l dflt base := spec_dim (Some (opt_unwrap_or l dflt)) (Some base) 0 (st_dpi st) (st_fs st) in
  let W := rw (st_view_box st) in let H := rh (st_view_box st) in
  match marker_rect n st with
  | Some r => rx r == d (mk_ref_x n) len_zero W /\ ry r == d (mk_ref_y n) len_zero H /\
              rw r == d (mk_width n) (len_num 3) W /\ rh r == d (mk_height n) (len_num 3) H /\ 0 < rw r /\ 0 < rh r
  | None => ~ (0 < d (mk_width n) (len_num 3) W /\ 0 < d (mk_height n) (len_num 3) H)
  end.
Proof.
  cbv zeta. unfold marker_rect, mk_user_length, nzrect_from_xywh. cbn [mk_attr].
  assert (Ax : forall l, convert_user_len l A_RefX st == spec_dim (Some l) (Some (rw (st_view_box st))) 0 (st_dpi st) (st_fs st)).
  { intro l. unfold convert_user_len, spec_dim. destruct (convert_abs _ _ _ _); [reflexivity|]. change (pct_axis A_RefX) with AxW. cbv iota. apply convert_percent_spec. }
  assert (Ay : forall l, convert_user_len l A_RefY st == spec_dim (Some l) (Some (rh (st_view_box st))) 0 (st_dpi st) (st_fs st)).
  { intro l. unfold convert_user_len, spec_dim. destruct (convert_abs _ _ _ _); [reflexivity|]. change (pct_axis A_RefY) with AxH. cbv iota. apply convert_percent_spec. }
  assert (Aw : forall l, convert_user_len l A_MarkerWidth st == spec_dim (Some l) (Some (rw (st_view_box st))) 0 (st_dpi st) (st_fs st)).
  { intro l. unfold convert_user_len, spec_dim. destruct (convert_abs _ _ _ _); [reflexivity|]. change (pct_axis A_MarkerWidth) with AxW. cbv iota. apply convert_percent_spec. }
  assert (Ah : forall l, convert_user_len l A_MarkerHeight st == spec_dim (Some l) (Some (rh (st_view_box st))) 0 (st_dpi st) (st_fs st)).
  { intro l. unfold convert_user_len, spec_dim. destruct (convert_abs _ _ _ _); [reflexivity|]. change (pct_axis A_MarkerHeight) with AxH. cbv iota. apply convert_percent_spec. }
  set (lw := opt_unwrap_or (mk_width n) (len_num 3)). set (lh := opt_unwrap_or (mk_height n) (len_num 3)).
  specialize (Aw lw). specialize (Ah lh).
  destruct (Qltb 0 (convert_user_len lw A_MarkerWidth st)) eqn:E1; destruct (Qltb 0 (convert_user_len lh A_MarkerHeight st)) eqn:E2; cbn [andb];
    try apply Qltb_true in E1; try apply Qltb_true in E2; try apply Qltb_false in E1; try apply Qltb_false in E2.
  - cbn [rx ry rw rh]. repeat split; try apply Ax; try apply Ay; try assumption; lra.
  - intros [_ X]. lra.
  - intros [X _]. lra.
  - intros [X _]. lra.
Qed.
