(* Lemmas about Model/Filters.v: the result-name loop terminates, collect_children is total, its
   output is wired (every reference names an earlier result), kernel shape. *)
From RV Require Import Model.Filters.
From Coq Require Import NArith ZArith QArith List Bool Lia FinFun.
Import ListNotations.
Local Open Scope N_scope.

Lemma rname_eqb_eq a b : rname_eqb a b = true <-> a = b.
Proof.
  destruct a, b; simpl; split; intro H; try discriminate; try (apply N.eqb_eq in H; subst; reflexivity);
    inversion H; apply N.eqb_refl.
Qed.

Lemma existsb_rname r l : existsb (rname_eqb r) l = true <-> In r l.
Proof.
  rewrite existsb_exists. split.
  - intros (x & Hx & E). apply rname_eqb_eq in E. subst. exact Hx.
  - intro H. exists r. split; auto. apply rname_eqb_eq. reflexivity.
Qed.

(* ---------------------------------------------------------------- the loop of gen_result *)
Lemma gen_loop_none fuel names idx :
  gen_loop fuel names idx = None ->
  forall j, (j < fuel)%nat -> In (RGen (idx + N.of_nat j)) names.
Proof.
  revert idx. induction fuel as [|k IH]; intros idx H j Hj; [lia|].
  simpl in H. destruct (existsb (rname_eqb (RGen idx)) names) eqn:E; [|discriminate].
  destruct j as [|j].
  - rewrite N.add_0_r. apply existsb_rname. exact E.
  - replace (idx + N.of_nat (S j)) with (idx + 1 + N.of_nat j) by lia. apply IH; auto. lia.
Qed.

Lemma gen_loop_fuel names idx : gen_loop (S (length names)) names idx <> None.
Proof.
  intro H. pose proof (gen_loop_none _ _ _ H) as Hin.
  set (cands := map (fun j => RGen (idx + N.of_nat j)) (seq 0 (S (length names)))).
  assert (Hnd : NoDup cands).
  { unfold cands. apply FinFun.Injective_map_NoDup; [|apply seq_NoDup].
    intros a b E. inversion E. lia. }
  assert (Hincl : incl cands names).
  { intros x Hx. unfold cands in Hx. apply in_map_iff in Hx. destruct Hx as (j & <- & Hj).
    apply in_seq in Hj. apply Hin. lia. }
  pose proof (NoDup_incl_length Hnd Hincl) as L. unfold cands in L.
  rewrite map_length, seq_length in L. lia.
Qed.

Lemma gen_loop_some fuel names idx nm idx' :
  gen_loop fuel names idx = Some (nm, idx') ->
  ~ In nm names /\ exists i, nm = RGen i /\ idx <= i /\ idx' = i + 1.
Proof.
  revert idx. induction fuel as [|k IH]; intros idx H; [discriminate|].
  simpl in H. destruct (existsb (rname_eqb (RGen idx)) names) eqn:E.
  - apply IH in H. destruct H as (H1 & i & H2 & H3 & H4). split; auto. exists i. repeat split; auto. lia.
  - inversion H; subst. split.
    + intro Hin. apply existsb_rname in Hin. congruence.
    + exists idx. repeat split; auto. lia.
Qed.

Lemma gen_result_total a st : gen_result a st <> None.
Proof.
  unfold gen_result. destruct a; [discriminate|].
  destruct (gen_loop (S (length (fr_names st))) (fr_names st) (fr_idx st)) as [[nm i]|] eqn:E; [discriminate|].
  exfalso. exact (gen_loop_fuel _ _ E).
Qed.

Lemma collect_children_from_total cs : forall prims st, collect_children_from cs prims st <> None.
Proof.
  induction cs as [|c r IH]; intros prims st; simpl; [discriminate|].
  destruct (fc_known c); simpl; [|apply IH].
  destruct (fc_region_ok c); simpl; [|discriminate].
  destruct (gen_result (fc_result c) st) as [[nm st']|] eqn:E; [apply IH|].
  exfalso. exact (gen_result_total _ _ E).
Qed.

Lemma collect_children_total cs : exists out, collect_children cs = Some out.
Proof.
  unfold collect_children.
  destruct (collect_children_from cs [] {| fr_names := []; fr_idx := 1 |}) as [o|] eqn:E; eauto.
  exfalso. exact (collect_children_from_total _ _ _ E).
Qed.

(* ---------------------------------------------------------------- wiring *)
Definition input_ok (before : list rprim) (i : rinput) : bool :=
  match i with RRef nm => has_result nm before | _ => true end.

Lemma has_result_app nm a b : has_result nm (a ++ b) = has_result nm a || has_result nm b.
Proof. unfold has_result. apply existsb_app. Qed.

Lemma input_ok_mono a b i : input_ok a i = true -> input_ok (a ++ b) i = true.
Proof. destruct i; simpl; auto. rewrite has_result_app. intros ->. reflexivity. Qed.

Lemma fallback_ok prims : input_ok prims (fallback_input prims) = true.
Proof.
  unfold fallback_input. destruct (rev prims) as [|p r] eqn:E; simpl; auto.
  assert (Hin : In p prims). { apply in_rev. rewrite E. left. reflexivity. }
  unfold has_result. apply existsb_exists. exists p. split; auto. apply rname_eqb_eq. reflexivity.
Qed.

Lemma resolve_input_ok a prims : input_ok prims (resolve_input a prims) = true.
Proof.
  unfold resolve_input. destruct a as [s|]; [|apply fallback_ok].
  destruct s; simpl; auto.
  destruct (has_result r prims) eqn:E; [simpl; exact E|apply fallback_ok].
Qed.

Lemma wired_from_snoc l : forall before p,
  wired_from before (l ++ [p]) =
  wired_from before l && forallb (input_ok (before ++ l)) (rp_inputs p).
Proof.
  induction l as [|x r IH]; intros before p; simpl.
  - rewrite app_nil_r, andb_true_r. reflexivity.
  - rewrite IH. rewrite <- app_assoc. simpl. rewrite andb_assoc. reflexivity.
Qed.

Lemma collect_children_from_wired cs : forall prims st out,
  wired_from [] prims = true -> collect_children_from cs prims st = Some out -> wired_from [] out = true.
Proof.
  induction cs as [|c r IH]; intros prims st out Hw H; simpl in H.
  - inversion H; subst; exact Hw.
  - destruct (fc_known c); simpl in H; [|eapply IH; eauto].
    destruct (fc_region_ok c); simpl in H; [|inversion H; subst; exact Hw].
    destruct (gen_result (fc_result c) st) as [[nm st']|]; [|discriminate].
    eapply IH; [|exact H]. rewrite wired_from_snoc. rewrite Hw. simpl.
    apply forallb_forall. intros i Hi. apply in_map_iff in Hi. destruct Hi as (a & <- & _).
    apply resolve_input_ok.
Qed.

Lemma collect_children_wired cs out : collect_children cs = Some out -> wired out = true.
Proof. unfold collect_children, wired. apply collect_children_from_wired. reflexivity. Qed.

(* the boolean `wired` in words *)
Lemma wired_from_spec l : forall before,
  wired_from before l = true ->
  forall i p r, nth_error l i = Some p -> In (RRef r) (rp_inputs p) ->
    (exists q, In q before /\ rp_result q = r) \/
    (exists j q, (j < i)%nat /\ nth_error l j = Some q /\ rp_result q = r).
Proof.
  induction l as [|x rest IH]; intros before H i p r Hn Hin.
  - destruct i; discriminate.
  - simpl in H. apply andb_true_iff in H. destruct H as [H1 H2].
    destruct i as [|i]; simpl in Hn.
    + inversion Hn; subst. left. rewrite forallb_forall in H1. specialize (H1 _ Hin). simpl in H1.
      unfold has_result in H1. apply existsb_exists in H1. destruct H1 as (q & Hq & E).
      apply rname_eqb_eq in E. eauto.
    + destruct (IH _ H2 i p r Hn Hin) as [(q & Hq & E)|(j & q & Hj & Hq & E)].
      * apply in_app_or in Hq. destruct Hq as [Hq|[<-|[]]]; [left; eauto|].
        right. exists O, x. repeat split; auto. lia.
      * right. exists (S j), q. repeat split; auto. lia.
Qed.

Lemma wired_spec l :
  wired l = true ->
  forall i p r, nth_error l i = Some p -> In (RRef r) (rp_inputs p) ->
    exists j q, (j < i)%nat /\ nth_error l j = Some q /\ rp_result q = r.
Proof.
  intros H i p r Hn Hin. destruct (wired_from_spec l [] H i p r Hn Hin) as [(q & [] & _)|H']; exact H'.
Qed.

(* ---------------------------------------------------------------- result names *)
Lemma collect_children_from_results cs (P : rname -> Prop) :
  (forall c nm, In c cs -> fc_result c = Some nm -> P nm) -> (forall i, P (RGen i)) ->
  forall prims st out, Forall (fun p => P (rp_result p)) prims ->
    collect_children_from cs prims st = Some out -> Forall (fun p => P (rp_result p)) out.
Proof.
  intros Hexp Hgen. induction cs as [|c r IH]; intros prims st out Hp H; simpl in H.
  - inversion H; subst; exact Hp.
  - assert (IH' := IH (fun c0 nm Hc => Hexp c0 nm (or_intror Hc))).
    destruct (fc_known c); simpl in H; [|eapply IH'; eauto].
    destruct (fc_region_ok c); simpl in H; [|inversion H; subst; exact Hp].
    destruct (gen_result (fc_result c) st) as [[nm st']|] eqn:E; [|discriminate].
    eapply IH'; [|exact H]. apply Forall_app. split; auto. constructor; [|constructor]. simpl.
    unfold gen_result in E. destruct (fc_result c) as [s|] eqn:Es.
    + inversion E; subst. apply (Hexp c); auto. left. reflexivity.
    + destruct (gen_loop _ _ _) as [[nm' i']|] eqn:El; [|discriminate]. inversion E; subst.
      apply gen_loop_some in El. destruct El as (_ & i & -> & _). apply Hgen.
Qed.

(* ---------------------------------------------------------------- kernel shape *)
Local Open Scope Z_scope.

Lemma conv_order_pos ord : 0 < fst (conv_order ord) /\ 0 < snd (conv_order ord).
Proof.
  unfold conv_order. destruct ord as [[ox oy]|]; simpl; [|lia].
  destruct ((0 <? match ox with Some v => v | None => 3 end) &&
            (0 <? match oy with Some v => v | None => match ox with Some v => v | None => 3 end end)) eqn:E;
    simpl; [|lia].
  apply andb_true_iff in E. destruct E as [E1 E2]. apply Z.ltb_lt in E1, E2. lia.
Qed.

Lemma parse_target_range t order v : parse_target t order = Some v -> 0 <= v < order.
Proof.
  unfold parse_target.
  destruct ((match t with Some v0 => v0 | None => order / 2 end <? 0) ||
            (order <=? match t with Some v0 => v0 | None => order / 2 end)) eqn:E; [discriminate|].
  intro H. inversion H; subst. apply orb_false_iff in E. destruct E as [E1 E2].
  apply Z.ltb_ge in E1. apply Z.leb_gt in E2. lia.
Qed.

Lemma convolve_kernel_ok ord mlen dz tx ty k :
  convolve_kernel ord mlen dz tx ty = Some k -> kernel_ok k = true.
Proof.
  unfold convolve_kernel. pose proof (conv_order_pos ord) as [Hx Hy].
  destruct (conv_order ord) as [ox oy]. simpl in Hx, Hy.
  destruct dz; [discriminate|].
  destruct (parse_target tx ox) as [txv|] eqn:Etx; [|discriminate].
  destruct (parse_target ty oy) as [tyv|] eqn:Ety; [|discriminate].
  apply parse_target_range in Etx, Ety.
  unfold kernel_new. destruct (checked_mul_usize ox oy) as [n|] eqn:En; [|discriminate].
  unfold checked_mul_usize in En. destruct (ox * oy <=? USIZE_MAX); [|discriminate]. inversion En; subst n.
  match goal with |- (if ?c then _ else _) = _ -> _ => destruct c eqn:Ec end; [discriminate|].
  intro H. inversion H; subst k. clear H. unfold kernel_ok. simpl.
  apply orb_false_iff in Ec. destruct Ec as [Ec E3]. apply orb_false_iff in Ec. destruct Ec as [E1 E2].
  apply negb_false_iff in E1. apply Z.eqb_eq in E1. apply Z.leb_gt in E2, E3.
  rewrite <- E1. rewrite Z.eqb_refl. simpl.
  repeat (apply andb_true_iff; split); try apply Z.leb_le; try apply Z.ltb_lt; lia.
Qed.

Local Open Scope Q_scope.
Lemma specular_exponent_range a e : specular_exponent a = Some e -> 1 <= e /\ e <= 128.
Proof.
  unfold specular_exponent. set (x := match a with Some v => v | None => 1 end).
  destruct (Qle_bool 1 x) eqn:E1; [|discriminate]. destruct (Qle_bool x 128) eqn:E2; [|discriminate].
  simpl. intro H. inversion H; subst e. clear H. apply Qle_bool_iff in E1, E2. unfold q_bound.
  destruct (Qle_bool x 1) eqn:E3; [split; [apply Qle_refl|discriminate]|].
  destruct (Qle_bool 128 x) eqn:E4; [split; [discriminate|apply Qle_refl]|]. split; assumption.
Qed.
