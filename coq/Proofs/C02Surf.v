(* C02 (extension round 4): clip / mask / nested-image buffers have the size of the layer; the pattern tile and the filter
   region follow the document (known classes); the clip of a filter result to its subregion; kernel loop bounds. *)
From RV Require Import Model.Base Model.RenderPrims Gen.Consts Gen.LeafFit Gen.LeafRender Model.Render Proofs.Render.
From RV Require Import Gen.C02Sites Gen.LeafLoops Model.C02Surf.
From Coq Require Import String Lia Qround.
Local Open Scope Z_scope.

(* ------------------------------------------------------------------ surfaces *)
Lemma surface_buffers_id f : In f (map snd surface_buffers) -> forall s, f s = s.
Proof.
  unfold surface_buffers; cbn [map snd]. intros H s.
  repeat (destruct H as [H | H]; [subst f; destruct s; reflexivity|]). destruct H.
Qed.

Lemma nest_id fs : Forall (fun f => In f (map snd surface_buffers)) fs -> forall s, nest fs s = s.
Proof.
  induction 1 as [| f r Hf _ IH]; intro s; cbn [nest]; [reflexivity|].
  rewrite (surface_buffers_id f Hf s). apply IH.
Qed.

Lemma clip_mask_buffers b nf W H m r fs :
  1 <= W <= CANVAS_MAX -> 1 <= H <= CANVAS_MAX -> max_bbox W H = Some m -> layer_box b nf m = LBox r ->
  Forall (fun f => In f (map snd surface_buffers)) fs ->
  surface_calls_ok = true /\ surface_buffers <> [] /\
  nest fs (layer_size r) = (iw r, ih r) /\
  fst (nest fs (layer_size r)) * snd (nest fs (layer_size r)) <= (MAXBB_MUL_W * MAXBB_MUL_H) * (W * H).
Proof.
  intros HW HH Hm L F.
  destruct (layer_bounded b nf W H m r HW HH Hm L) as [_ [_ [E [_ [_ A]]]]].
  split; [reflexivity|]. split; [discriminate|].
  rewrite (nest_id fs F), E. cbn [fst snd]. split; [reflexivity | exact A].
Qed.

(* ------------------------------------------------------------------ pattern tile: follows the document *)
Lemma Qfloor_half n : Qfloor ((n # 1) * 1 + (1 # 2)) = n.
Proof.
  unfold Qfloor, Qmult, Qplus. cbn [Qnum Qden]. cbn.
  replace (n * 1 * 2 + 1) with (1 + n * 2) by lia.
  rewrite Z.div_add by lia. reflexivity.
Qed.

Lemma pattern_tile_follows_document n : 1 <= n <= U32_MAX ->
  pattern_tile_size {| rx := 0; ry := 0; rw := n # 1; rh := n # 1 |} 1 1 = (n, n).
Proof.
  intro H. unfold pattern_tile_size, f32_round. cbn [rw rh].
  assert (L : Qleb 0 ((n # 1) * 1) = true).
  { unfold Qleb, Qle_bool, Qmult. cbn [Qnum Qden]. apply Z.leb_le. lia. }
  rewrite L, Qfloor_half. unfold as_u32, U32_MAX in *. f_equal; lia.
Qed.

(* ------------------------------------------------------------------ filter region: follows the document *)
Lemma Qceiling_int n : Qceiling (n # 1) = n.
Proof. unfold Qceiling, Qfloor, Qopp. cbn [Qnum Qden]. rewrite Z.div_1_r. lia. Qed.
Lemma Qfloor_0 : Qfloor 0 = 0.
Proof. reflexivity. Qed.

Lemma filter_alloc_vocab : Forall (fun a => a = "region"%string \/ a = "input"%string) filter_alloc_args.
Proof.
  unfold filter_alloc_args.
  repeat (apply Forall_cons; [first [left; reflexivity | right; reflexivity]|]). apply Forall_nil.
Qed.

(* ------------------------------------------------------------------ subregion clip *)
Lemma in_i32_iff z : in_i32 z = true <-> I32_MIN <= z <= I32_MAX.
Proof. unfold in_i32. rewrite Bool.andb_true_iff, !Z.leb_le. tauto. Qed.

Lemma from_xywh_some x y w h q : irect_from_xywh x y w h = Some q ->
  valid_irect q /\ ix q = x /\ iy q = y /\ iw q = w /\ ih q = h.
Proof.
  unfold irect_from_xywh. destruct (_ && _) eqn:E; [|discriminate].
  intro H. inversion H; subst q; clear H. cbn [ix iy iw ih].
  repeat (apply Bool.andb_true_iff in E; destruct E as [E ?]).
  repeat match goal with H : in_i32 _ = true |- _ => apply in_i32_iff in H end.
  repeat match goal with H : (_ <? _) = true |- _ => apply Z.ltb_lt in H | H : (_ <=? _) = true |- _ => apply Z.leb_le in H end.
  unfold valid_irect, I32_MIN, I32_MAX, U32_MAX in *. cbn [ix iy iw ih]. lia.
Qed.

(* filter::translate_checked at full strength: for ALL regions and subregions the i64 arithmetic stays in range, there is no
   unwrap, and the result is None or a valid IntRect (fits i32) that is the subregion moved by the region's origin; a
   subregion inside the region always has a result, and it lies inside 0..w x 0..h *)
Lemma subregion2_total region sub :
  valid_irect region -> valid_irect sub ->
  subregion2_unwraps = false /\
  forallb in_i64 (translate_checked_i64_steps sub region) = true /\
  (forall q, subregion2 region sub = Some q ->
     valid_irect q /\ ix q = ix sub - ix region /\ iy q = iy sub - iy region /\ iw q = iw sub /\ ih q = ih sub) /\
  (subregion2 region sub = None -> ~ (inside sub region)) /\
  (inside sub region -> exists q, subregion2 region sub = Some q /\ 0 <= ix q /\ 0 <= iy q /\
                                  ix q + iw q <= iw region /\ iy q + ih q <= ih region).
Proof.
  intros Vr Vs.
  assert (TOT : inside sub region -> exists q, subregion2 region sub = Some q).
  { intro I. unfold valid_irect, inside, i_right, i_bottom, I32_MIN, I32_MAX in *.
    unfold subregion2, translate_checked, i32_try_from.
    repeat match goal with |- context [in_i32 ?z] =>
      let E := fresh in assert (E : in_i32 z = true) by (apply in_i32_iff; unfold I32_MIN, I32_MAX; lia); rewrite E; clear E end.
    unfold irect_from_xywh.
    repeat match goal with |- context [in_i32 ?z] =>
      let E := fresh in assert (E : in_i32 z = true) by (apply in_i32_iff; unfold I32_MIN, I32_MAX; lia); rewrite E; clear E end.
    unfold U32_MAX, I32_MAX.
    repeat match goal with |- context [?a <? ?b] =>
      let E := fresh in assert (E : (a <? b) = true) by (apply Z.ltb_lt; lia); rewrite E; clear E end.
    repeat match goal with |- context [?a <=? ?b] =>
      let E := fresh in assert (E : (a <=? b) = true) by (apply Z.leb_le; lia); rewrite E; clear E end.
    cbn [andb]. eexists; reflexivity. }
  assert (SOME : forall q, subregion2 region sub = Some q ->
     valid_irect q /\ ix q = ix sub - ix region /\ iy q = iy sub - iy region /\ iw q = iw sub /\ ih q = ih sub).
  { intros q. unfold subregion2, translate_checked, i32_try_from.
    destruct (in_i32 (ix sub - ix region)); [|discriminate].
    destruct (in_i32 (iy sub - iy region)); [|discriminate].
    intro H. apply from_xywh_some in H. exact H. }
  split; [reflexivity|]. split.
  - unfold translate_checked_i64_steps, in_i64. cbn [forallb].
    unfold valid_irect, I32_MIN, I32_MAX in *.
    repeat (apply Bool.andb_true_iff; split); try reflexivity; first [apply Z.leb_le | idtac]; lia.
  - split; [exact SOME|]. split.
    + intros N I. destruct (TOT I) as [q E]. rewrite E in N. discriminate.
    + intro I. destruct (TOT I) as [q E]. exists q. split; [exact E|].
      destruct (SOME q E) as [_ [A [B [C D]]]].
      unfold valid_irect, inside, i_right, i_bottom in *. lia.
Qed.

(* the repaired witness (corpus/witness/C02-subregion-translate.svg): far subregion -> None -> Error::InvalidRegion, no panic *)
Lemma subregion2_far_none :
  subregion2 {| ix := -1999999800; iy := 200; iw := 2100000000; ih := 100 |} {| ix := 200000200; iy := 200; iw := 10; ih := 10 |} = None.
Proof. vm_compute. reflexivity. Qed.

(* ------------------------------------------------------------------ box blur *)
Lemma bb_line r n : 1 <= r -> 1 <= n ->
  bb_writes r n = n /\ bb_trips r n <= 2 * n /\
  0 <= bb_pre_hi r n <= n /\
  (bb_skip r n = false -> 0 <= bb_mid_hi r n /\ 0 <= bb_tail_hi r n /\ 0 <= n - r - 1).
Proof.
  intros Hr Hn. unfold bb_trips, bb_writes, range_trips, bb_pre_lo, bb_pre_hi, bb_head_lo, bb_head_hi, bb_skip,
    bb_mid_lo, bb_mid_hi, bb_tail_lo, bb_tail_hi.
  destruct (Z.leb_spec n r); repeat split; try discriminate; lia.
Qed.

(* ------------------------------------------------------------------ while loops *)
Lemma conv_wrap_terminates : forall k t dim, 1 <= dim -> - (Z.of_nat k) <= t ->
  exists v n, while_loop k conv_wrap_cond (fun t => conv_wrap_step t dim) t = Some (v, n) /\
              0 <= v /\ 0 <= n <= Z.max 0 (- t) /\ (0 <= t -> v = t) /\ (t < 0 -> v < dim).
Proof.
  induction k as [| k IH]; intros t dim Hd Ht; unfold conv_wrap_cond.
  - cbn [while_loop]. assert (E : (t <? 0) = false) by (apply Z.ltb_ge; lia). rewrite E.
    exists t, 0. repeat split; lia.
  - cbn [while_loop]. destruct (Z.ltb_spec t 0) as [Neg | Pos].
    + destruct (IH (conv_wrap_step t dim) dim Hd) as [v [n [E [Hv [Hn [Hp Hq]]]]]]; [unfold conv_wrap_step; lia|].
      unfold conv_wrap_cond in E. rewrite E. exists v, (n + 1). unfold conv_wrap_step in *.
      split; [reflexivity|]. split; [lia|]. split; [lia|]. split; [lia|].
      intros _. destruct (Z.lt_ge_cases (t + dim) 0); [apply Hq; lia | rewrite Hp; lia].
    + exists t, 0. repeat split; lia.
Qed.

Lemma conv_wrap_ok p target o dim :
  1 <= dim -> 0 <= p < dim -> 0 <= target -> 0 <= o ->
  exists v n, conv_wrap (Z.to_nat target) p target o dim = Some (v, n) /\ 0 <= v < dim /\ 0 <= n <= target.
Proof.
  intros Hd Hp Ht Ho. unfold conv_wrap.
  destruct (conv_wrap_terminates (Z.to_nat target) (conv_start p target o) dim Hd) as [v [n [E [Hv [Hn [A B]]]]]].
  { unfold conv_start. rewrite Z2Nat.id by lia. lia. }
  rewrite E. exists (conv_wrap_fin v dim), n. split; [reflexivity|]. unfold conv_wrap_fin, conv_start in *.
  split; [apply Z.rem_bound_pos; lia | lia].
Qed.

Lemma iir_up_from : forall k w, 1 <= w ->
  while_loop k iir_up_cond (fun y => iir_up_step y w) (Z.of_nat k * w) = Some (0, Z.of_nat k).
Proof.
  induction k as [| k IH]; intros w Hw.
  - reflexivity.
  - cbn [while_loop]. unfold iir_up_cond at 1.
    assert (E : (Z.of_nat (S k) * w >? 0) = true) by (apply Z.gtb_lt; nia). rewrite E.
    replace (iir_up_step (Z.of_nat (S k) * w) w) with (Z.of_nat k * w) by (unfold iir_up_step; nia).
    rewrite (IH w Hw). f_equal. f_equal. lia.
Qed.

Lemma iir_down_from : forall k y w len, 1 <= w -> len <= y + Z.of_nat k * w ->
  exists v n, while_loop k (fun y => iir_down_cond y len) (fun y => iir_down_step y w) y = Some (v, n) /\ len <= v.
Proof.
  induction k as [| k IH]; intros y w len Hw Hl; unfold iir_down_cond.
  - cbn [while_loop]. assert (E : (y <? len) = false) by (apply Z.ltb_ge; lia). rewrite E. exists y, 0. split; [reflexivity | lia].
  - cbn [while_loop]. destruct (Z.ltb_spec y len).
    + destruct (IH (iir_down_step y w) w len Hw) as [v [n [E A]]]; [unfold iir_down_step; lia|].
      unfold iir_down_cond in E. rewrite E. exists v, (n + 1). split; [reflexivity | lia].
    + exists y, 0. split; [reflexivity | lia].
Qed.

Lemma iir_loops w h : 1 <= w -> 1 <= h ->
  iir_up (Z.to_nat (h - 1)) w h = Some (0, h - 1) /\ 0 <= iir_up_start (iir_buf_len w h) w /\
  (exists v n, iir_down (Z.to_nat h) w h = Some (v, n)) /\ iir_steps = 4.
Proof.
  intros Hw Hh. unfold iir_up, iir_down, iir_up_start, iir_buf_len, iir_down_start.
  split.
  - replace (w * h - w) with (Z.of_nat (Z.to_nat (h - 1)) * w) by (rewrite Z2Nat.id by lia; nia).
    rewrite iir_up_from by lia. rewrite Z2Nat.id by lia. reflexivity.
  - split; [nia|]. split; [|reflexivity].
    destruct (iir_down_from (Z.to_nat h) w w (w * h) Hw) as [v [n [E _]]].
    + rewrite Z2Nat.id by lia. nia.
    + exists v, n. exact E.
Qed.

(* ------------------------------------------------------------------ turbulence octaves: follow the document *)
Lemma turb_octaves_follow_document n : 0 <= n <= U32_MAX -> turb_octave_trips n = n.
Proof. intros _. reflexivity. Qed.
