(* Lemmas about Model/Tree.v: a hand-written induction principle for the nested mutual inductive,
   two generic facts about the traversal skeleton `walk_*` (invariant preservation; every enumerated
   node is visited), and their instances for the four collectors and for node_by_id. *)
From RV Require Import Model.Tree.
From Coq Require Import NArith List Bool Lia.
Import ListNotations.
Local Open Scope N_scope.

(* ------------------------------------------------------------------------------------------------ *)
(* Induction principle (text chunks are leaves: nothing recurses into them).                        *)
Definition OptP {X} (P : X -> Prop) (o : option X) : Prop := match o with Some x => P x | None => True end.

Section TreeInd.
  Variables (Pn : node -> Prop) (Pg : group -> Prop) (Pc : clipdef -> Prop) (Pm : maskdef -> Prop)
            (Pf : filterdef -> Prop) (Pp : prim -> Prop) (Pa : paint -> Prop).
  Hypothesis Hgroup : forall g, Pg g -> Pn (NGroup g).
  Hypothesis Hpath : forall i vz fl st, Pa fl -> Pa st -> Pn (NPath i vz fl st).
  Hypothesis Himage : forall i sub, OptP Pg sub -> Pn (NImage i sub).
  Hypothesis Htext : forall i flat chunks, Pg flat -> Pn (NText i flat chunks).
  Hypothesis HG : forall i sy clip mask filters kids,
      OptP Pc clip -> OptP Pm mask -> Forall Pf filters -> Forall Pn kids -> Pg (G i sy clip mask filters kids).
  Hypothesis HCD : forall p i nx r, OptP Pc nx -> Pg r -> Pc (CD p i nx r).
  Hypothesis HMD : forall p i nx r, OptP Pm nx -> Pg r -> Pm (MD p i nx r).
  Hypothesis HFD : forall p i prims, Forall Pp prims -> Pf (FD p i prims).
  Hypothesis HPR : forall k sb r ins img, OptP Pg img -> Pp (PR k sb r ins img).
  Hypothesis HPNone : Pa PNone.
  Hypothesis HPColor : Pa PColor.
  Hypothesis HPLin : forall p i, Pa (PLin p i).
  Hypothesis HPRad : forall p i, Pa (PRad p i).
  Hypothesis HPPat : forall p i r, Pg r -> Pa (PPat p i r).

  Fixpoint node_ind' (n : node) {struct n} : Pn n :=
    match n return Pn n with
    | NGroup g => Hgroup g (group_ind' g)
    | NPath i vz fl st => Hpath i vz fl st (paint_ind' fl) (paint_ind' st)
    | NImage i sub =>
        Himage i sub (match sub return OptP Pg sub with Some r => group_ind' r | None => I end)
    | NText i flat chunks => Htext i flat chunks (group_ind' flat)
    end
  with group_ind' (g : group) {struct g} : Pg g :=
    match g return Pg g with
    | G i sy clip mask filters kids =>
        HG i sy clip mask filters kids
          (match clip return OptP Pc clip with Some c => clip_ind' c | None => I end)
          (match mask return OptP Pm mask with Some m => mask_ind' m | None => I end)
          ((fix go (l : list filterdef) : Forall Pf l :=
              match l return Forall Pf l with
              | [] => Forall_nil _
              | x :: r => Forall_cons x (filter_ind' x) (go r)
              end) filters)
          ((fix go (l : list node) : Forall Pn l :=
              match l return Forall Pn l with
              | [] => Forall_nil _
              | x :: r => Forall_cons x (node_ind' x) (go r)
              end) kids)
    end
  with clip_ind' (c : clipdef) {struct c} : Pc c :=
    match c return Pc c with
    | CD p i nx r =>
        HCD p i nx r (match nx return OptP Pc nx with Some c' => clip_ind' c' | None => I end) (group_ind' r)
    end
  with mask_ind' (m : maskdef) {struct m} : Pm m :=
    match m return Pm m with
    | MD p i nx r =>
        HMD p i nx r (match nx return OptP Pm nx with Some m' => mask_ind' m' | None => I end) (group_ind' r)
    end
  with filter_ind' (f : filterdef) {struct f} : Pf f :=
    match f return Pf f with
    | FD p i prims =>
        HFD p i prims
          ((fix go (l : list prim) : Forall Pp l :=
              match l return Forall Pp l with
              | [] => Forall_nil _
              | x :: r => Forall_cons x (prim_ind' x) (go r)
              end) prims)
    end
  with prim_ind' (p : prim) {struct p} : Pp p :=
    match p return Pp p with
    | PR k sb r ins img =>
        HPR k sb r ins img (match img return OptP Pg img with Some g => group_ind' g | None => I end)
    end
  with paint_ind' (p : paint) {struct p} : Pa p :=
    match p return Pa p with
    | PNone => HPNone
    | PColor => HPColor
    | PLin q i => HPLin q i
    | PRad q i => HPRad q i
    | PPat q i r => HPPat q i r (group_ind' r)
    end.

  Lemma tree_mutind :
    (forall n, Pn n) /\ (forall g, Pg g) /\ (forall c, Pc c) /\ (forall m, Pm m) /\
    (forall f, Pf f) /\ (forall p, Pp p) /\ (forall p, Pa p).
  Proof.
    repeat split; [apply node_ind' | apply group_ind' | apply clip_ind' | apply mask_ind'
                   | apply filter_ind' | apply prim_ind' | apply paint_ind'].
  Qed.
End TreeInd.

(* ------------------------------------------------------------------------------------------------ *)
(* Unfolding equations for the nested fixes.                                                        *)
Section Eqns.
  Context {A : Type} (sf : bool) (f : node -> A -> A).

  Lemma walk_group_eq i sy c m fs ks a :
    walk_group sf f (G i sy c m fs ks) a = walk_nodes sf f ks a.
  Proof.
    unfold walk_nodes. simpl. revert a. induction ks as [|n r IH]; intro a; simpl; auto.
  Qed.
  Lemma walk_filter_eq p i ps a : walk_filter sf f (FD p i ps) a = walk_prims sf f ps a.
  Proof.
    unfold walk_prims. simpl. revert a. induction ps as [|x r IH]; intro a; simpl; auto.
  Qed.
  Lemma go_filters_eq fs a :
    (fix go (l : list filterdef) (a : A) : A :=
       match l with [] => a | fd :: r => go r (walk_filter sf f fd a) end) fs a =
    walk_filters sf f fs a.
  Proof. unfold walk_filters. revert a. induction fs as [|x r IH]; intro a; simpl; auto. Qed.
  Lemma walk_gsub_eq i sy c m fs ks a :
    walk_gsub sf f (G i sy c m fs ks) a =
    walk_filters sf f fs
      (match m with Some m' => walk_mask sf f m' | None => fun x => x end
         (match c with Some c' => walk_clip sf f c' | None => fun x => x end a)).
  Proof.
    cbn [walk_gsub]. rewrite go_filters_eq. destruct c, m; reflexivity.
  Qed.
  Lemma walk_node_group g a :
    walk_node sf f (NGroup g) a =
    if sf then walk_group sf f g (walk_gsub sf f g (f (NGroup g) a))
    else walk_gsub sf f g (walk_group sf f g (f (NGroup g) a)).
  Proof. reflexivity. Qed.
  Lemma walk_node_path i vz fl st a :
    walk_node sf f (NPath i vz fl st) a = walk_paint sf f st (walk_paint sf f fl (f (NPath i vz fl st) a)).
  Proof. reflexivity. Qed.
  Lemma walk_node_image i sub a :
    walk_node sf f (NImage i sub) a =
    match sub with Some r => walk_group sf f r (f (NImage i sub) a) | None => f (NImage i sub) a end.
  Proof. destruct sub; reflexivity. Qed.
  Lemma walk_node_text i flat ch a :
    walk_node sf f (NText i flat ch) a = walk_group sf f flat (f (NText i flat ch) a).
  Proof. reflexivity. Qed.
  Lemma walk_clip_eq p i nx r a :
    walk_clip sf f (CD p i nx r) a =
    match nx with Some c' => walk_clip sf f c' (walk_group sf f r a) | None => walk_group sf f r a end.
  Proof. destruct nx; reflexivity. Qed.
  Lemma walk_mask_eq p i nx r a :
    walk_mask sf f (MD p i nx r) a =
    match nx with Some c' => walk_mask sf f c' (walk_group sf f r a) | None => walk_group sf f r a end.
  Proof. destruct nx; reflexivity. Qed.
  Lemma walk_prim_eq k sb r ins img a :
    walk_prim sf f (PR k sb r ins img) a = match img with Some g => walk_group sf f g a | None => a end.
  Proof. destruct img; reflexivity. Qed.
  Lemma walk_paint_pat p i r a : walk_paint sf f (PPat p i r) a = walk_group sf f r a.
  Proof. reflexivity. Qed.
End Eqns.

Lemma all_node_group g : all_node (NGroup g) = NGroup g :: all_group g ++ all_gdefs g.
Proof. reflexivity. Qed.
Lemma all_node_path i vz fl st : all_node (NPath i vz fl st) = NPath i vz fl st :: all_paint fl ++ all_paint st.
Proof. reflexivity. Qed.
Lemma all_node_image i sub :
  all_node (NImage i sub) = NImage i sub :: match sub with Some r => all_group r | None => [] end.
Proof. destruct sub; reflexivity. Qed.
Lemma all_node_text i flat ch : all_node (NText i flat ch) = NText i flat ch :: all_group flat.
Proof. reflexivity. Qed.
Lemma all_clip_eq p i nx r :
  all_clip (CD p i nx r) = all_group r ++ match nx with Some c' => all_clip c' | None => [] end.
Proof. destruct nx; reflexivity. Qed.
Lemma all_mask_eq p i nx r :
  all_mask (MD p i nx r) = all_group r ++ match nx with Some c' => all_mask c' | None => [] end.
Proof. destruct nx; reflexivity. Qed.
Lemma all_prim_eq k sb r ins img :
  all_prim (PR k sb r ins img) = match img with Some g => all_group g | None => [] end.
Proof. destruct img; reflexivity. Qed.
Lemma all_paint_pat p i r : all_paint (PPat p i r) = all_group r.
Proof. reflexivity. Qed.

Lemma all_group_eq i sy c m fs ks : all_group (G i sy c m fs ks) = flat_map all_node ks.
Proof. reflexivity. Qed.
Lemma all_filter_eq p i ps : all_filter (FD p i ps) = flat_map all_prim ps.
Proof. reflexivity. Qed.
Lemma all_gdefs_eq i sy c m fs ks :
  all_gdefs (G i sy c m fs ks) =
  match c with Some c' => all_clip c' | None => [] end ++
  match m with Some m' => all_mask m' | None => [] end ++ flat_map all_filter fs.
Proof.
  reflexivity.
Qed.

(* ------------------------------------------------------------------------------------------------ *)
(* Generic fact 1: an invariant preserved by `f` on the enumerated nodes is preserved by the walk.   *)
Section WalkInv.
  Context {A : Type} (sf : bool) (f : node -> A -> A).

  Definition inv_on (nodes : list node) (I : A -> Prop) : Prop :=
    forall m a, In m nodes -> I a -> I (f m a).

  Lemma inv_on_incl l l' I : incl l l' -> inv_on l' I -> inv_on l I.
  Proof. intros H H1 m a Hm. apply H1. auto. Qed.

  Lemma walk_nodes_inv (ks : list node) :
    Forall (fun n => forall I, inv_on (all_node n) I -> forall a, I a -> I (walk_node sf f n a)) ks ->
    forall I, inv_on (flat_map all_node ks) I -> forall a, I a -> I (walk_nodes sf f ks a).
  Proof.
    unfold walk_nodes. induction 1 as [|n r Hn Hr IH]; intros I HI a Ha; simpl; auto.
    apply IH.
    - eapply inv_on_incl; [|exact HI]. simpl. apply incl_appr, incl_refl.
    - apply Hn; auto. eapply inv_on_incl; [|exact HI]. simpl. apply incl_appl, incl_refl.
  Qed.

  Lemma walk_inv_all :
    (forall n I, inv_on (all_node n) I -> forall a, I a -> I (walk_node sf f n a)) /\
    (forall g I, (inv_on (all_group g) I -> forall a, I a -> I (walk_group sf f g a)) /\
                 (inv_on (all_gdefs g) I -> forall a, I a -> I (walk_gsub sf f g a))) /\
    (forall c I, inv_on (all_clip c) I -> forall a, I a -> I (walk_clip sf f c a)) /\
    (forall m I, inv_on (all_mask m) I -> forall a, I a -> I (walk_mask sf f m a)) /\
    (forall x I, inv_on (all_filter x) I -> forall a, I a -> I (walk_filter sf f x a)) /\
    (forall p I, inv_on (all_prim p) I -> forall a, I a -> I (walk_prim sf f p a)) /\
    (forall p I, inv_on (all_paint p) I -> forall a, I a -> I (walk_paint sf f p a)).
  Proof.
    apply tree_mutind.
    - (* NGroup *)
      intros g Hg I HI a Ha. destruct (Hg I) as [H1 H2]. rewrite all_node_group in HI.
      assert (Hf : I (f (NGroup g) a)) by (apply HI; simpl; auto).
      assert (I1 : inv_on (all_group g) I).
      { eapply inv_on_incl; [|exact HI]. apply incl_tl, incl_appl, incl_refl. }
      assert (I2 : inv_on (all_gdefs g) I).
      { eapply inv_on_incl; [|exact HI]. apply incl_tl, incl_appr, incl_refl. }
      rewrite walk_node_group.
      destruct sf; [apply H1; auto; apply H2; auto | apply H2; auto; apply H1; auto].
    - (* NPath *)
      intros i vz fl st Hfl Hst I HI a Ha. rewrite walk_node_path. rewrite all_node_path in HI.
      apply Hst. { eapply inv_on_incl; [|exact HI]. apply incl_tl, incl_appr, incl_refl. }
      apply Hfl. { eapply inv_on_incl; [|exact HI]. apply incl_tl, incl_appl, incl_refl. }
      apply HI; simpl; auto.
    - (* NImage *)
      intros i sub Hs I HI a Ha. rewrite walk_node_image. rewrite all_node_image in HI.
      assert (Hf : I (f (NImage i sub) a)) by (apply HI; simpl; auto).
      destruct sub as [r|]; auto. simpl in Hs. apply (Hs I); auto.
      eapply inv_on_incl; [|exact HI]. apply incl_tl, incl_refl.
    - (* NText *)
      intros i flat chunks Hfl I HI a Ha. rewrite walk_node_text. rewrite all_node_text in HI.
      apply (Hfl I).
      + eapply inv_on_incl; [|exact HI]. apply incl_tl, incl_refl.
      + apply HI; simpl; auto.
    - (* G *)
      intros i sy c m fs ks Hc Hm Hfs Hks I. split.
      + intros HI a Ha. rewrite walk_group_eq. rewrite all_group_eq in HI.
        apply walk_nodes_inv; auto.
      + intros HI a Ha. rewrite walk_gsub_eq. rewrite all_gdefs_eq in HI.
        assert (Hc' : I (match c with Some c' => walk_clip sf f c' | None => fun x => x end a)).
        { destruct c as [c'|]; auto. simpl in Hc. apply Hc; auto.
          eapply inv_on_incl; [|exact HI]. apply incl_appl, incl_refl. }
        assert (Hm' : I (match m with Some m' => walk_mask sf f m' | None => fun x => x end
                           (match c with Some c' => walk_clip sf f c' | None => fun x => x end a))).
        { destruct m as [m'|]; auto. simpl in Hm. apply Hm; auto.
          eapply inv_on_incl; [|exact HI]. apply incl_appr, incl_appl, incl_refl. }
        assert (HIf : inv_on (flat_map all_filter fs) I).
        { eapply inv_on_incl; [|exact HI]. apply incl_appr, incl_appr, incl_refl. }
        revert HIf Hm'. generalize (match m with Some m' => walk_mask sf f m' | None => fun x => x end
                           (match c with Some c' => walk_clip sf f c' | None => fun x => x end a)).
        unfold walk_filters. clear - Hfs. induction Hfs as [|x r Hx Hr IH]; intros a0 HIf Ha0; simpl; auto.
        apply IH.
        * eapply inv_on_incl; [|exact HIf]. simpl. apply incl_appr, incl_refl.
        * apply Hx; auto. eapply inv_on_incl; [|exact HIf]. simpl. apply incl_appl, incl_refl.
    - (* CD *)
      intros p i nx r Hnx Hr I HI a Ha. rewrite walk_clip_eq. rewrite all_clip_eq in HI.
      assert (H1 : I (walk_group sf f r a)).
      { apply (Hr I); auto. eapply inv_on_incl; [|exact HI]. apply incl_appl, incl_refl. }
      destruct nx as [c'|]; auto. simpl in Hnx. apply Hnx; auto.
      eapply inv_on_incl; [|exact HI]. apply incl_appr, incl_refl.
    - (* MD *)
      intros p i nx r Hnx Hr I HI a Ha. rewrite walk_mask_eq. rewrite all_mask_eq in HI.
      assert (H1 : I (walk_group sf f r a)).
      { apply (Hr I); auto. eapply inv_on_incl; [|exact HI]. apply incl_appl, incl_refl. }
      destruct nx as [c'|]; auto. simpl in Hnx. apply Hnx; auto.
      eapply inv_on_incl; [|exact HI]. apply incl_appr, incl_refl.
    - (* FD *)
      intros p i ps Hps I HI a Ha. rewrite walk_filter_eq. rewrite all_filter_eq in HI.
      revert a Ha HI. unfold walk_prims. induction Hps as [|x r Hx Hr IH]; intros a Ha HI; simpl; auto.
      apply IH.
      + apply Hx; auto. eapply inv_on_incl; [|exact HI]. simpl. apply incl_appl, incl_refl.
      + eapply inv_on_incl; [|exact HI]. simpl. apply incl_appr, incl_refl.
    - (* PR *)
      intros k sb r ins img Hi I HI a Ha. rewrite walk_prim_eq. rewrite all_prim_eq in HI.
      destruct img as [g|]; auto. simpl in Hi. apply (Hi I); auto.
    - intros I HI a Ha; exact Ha.
    - intros I HI a Ha; exact Ha.
    - intros p i I HI a Ha; exact Ha.
    - intros p i I HI a Ha; exact Ha.
    - intros p i r Hr I HI a Ha. rewrite walk_paint_pat. rewrite all_paint_pat in HI. apply (Hr I); auto.
  Qed.

  Lemma walk_group_inv g I : inv_on (all_group g) I -> forall a, I a -> I (walk_group sf f g a).
  Proof. intros. destruct walk_inv_all as (_ & H1 & _). apply (H1 g I); auto. Qed.
End WalkInv.

(* ------------------------------------------------------------------------------------------------ *)
(* Generic fact 2: every enumerated node is visited, for any "done" predicate that `f` establishes  *)
(* for its node and never destroys.                                                                 *)
Section WalkDone.
  Context {A : Type} (sf : bool) (f : node -> A -> A) (Done : node -> A -> Prop).
  Hypothesis D1 : forall n a, Done n (f n a).
  Hypothesis D2 : forall n m a, Done n a -> Done n (f m a).

  Lemma stable_all :
    (forall x n a, Done n a -> Done n (walk_node sf f x a)) /\
    (forall x n a, Done n a -> Done n (walk_group sf f x a)) /\
    (forall x n a, Done n a -> Done n (walk_gsub sf f x a)) /\
    (forall x n a, Done n a -> Done n (walk_clip sf f x a)) /\
    (forall x n a, Done n a -> Done n (walk_mask sf f x a)) /\
    (forall x n a, Done n a -> Done n (walk_filter sf f x a)) /\
    (forall x n a, Done n a -> Done n (walk_prim sf f x a)) /\
    (forall x n a, Done n a -> Done n (walk_paint sf f x a)).
  Proof.
    destruct (walk_inv_all sf f) as (H1 & H2 & H3 & H4 & H5 & H6 & H7).
    assert (HI : forall l n, inv_on f l (Done n)) by (intros l n m a _ Ha; apply D2; exact Ha).
    repeat split; intros x n a Ha.
    - apply (H1 x (Done n)); auto.
    - apply (H2 x (Done n)); auto.
    - apply (H2 x (Done n)); auto.
    - apply (H3 x (Done n)); auto.
    - apply (H4 x (Done n)); auto.
    - apply (H5 x (Done n)); auto.
    - apply (H6 x (Done n)); auto.
    - apply (H7 x (Done n)); auto.
  Qed.

  Lemma walk_nodes_stable ks n a : Done n a -> Done n (walk_nodes sf f ks a).
  Proof.
    destruct stable_all as (H1 & _). unfold walk_nodes. revert a.
    induction ks as [|k r IH]; intros a Ha; simpl; auto.
  Qed.
  Lemma walk_filters_stable fs n a : Done n a -> Done n (walk_filters sf f fs a).
  Proof.
    destruct stable_all as (_ & _ & _ & _ & _ & H1 & _). unfold walk_filters. revert a.
    induction fs as [|k r IH]; intros a Ha; simpl; auto.
  Qed.
  Lemma walk_prims_stable ps n a : Done n a -> Done n (walk_prims sf f ps a).
  Proof.
    destruct stable_all as (_ & _ & _ & _ & _ & _ & H1 & _). unfold walk_prims. revert a.
    induction ps as [|k r IH]; intros a Ha; simpl; auto.
  Qed.

  Lemma walk_done_all :
    (forall x n, In n (all_node x) -> forall a, Done n (walk_node sf f x a)) /\
    (forall x, (forall n, In n (all_group x) -> forall a, Done n (walk_group sf f x a)) /\
               (forall n, In n (all_gdefs x) -> forall a, Done n (walk_gsub sf f x a))) /\
    (forall x n, In n (all_clip x) -> forall a, Done n (walk_clip sf f x a)) /\
    (forall x n, In n (all_mask x) -> forall a, Done n (walk_mask sf f x a)) /\
    (forall x n, In n (all_filter x) -> forall a, Done n (walk_filter sf f x a)) /\
    (forall x n, In n (all_prim x) -> forall a, Done n (walk_prim sf f x a)) /\
    (forall x n, In n (all_paint x) -> forall a, Done n (walk_paint sf f x a)).
  Proof.
    destruct stable_all as (Sn & Sg & Ss & Sc & Sm & Sf & Sp & Sa).
    apply tree_mutind.
    - (* NGroup *)
      intros g [Hg Hs] n Hn a. rewrite all_node_group in Hn. rewrite walk_node_group.
      destruct Hn as [<-|Hn].
      + destruct sf; [apply Sg, Ss|apply Ss, Sg]; apply D1.
      + apply in_app_or in Hn. destruct sf, Hn as [Hn|Hn]; auto.
    - (* NPath *)
      intros i vz fl st Hfl Hst n Hn a. rewrite all_node_path in Hn. rewrite walk_node_path.
      destruct Hn as [<-|Hn].
      + apply Sa, Sa, D1.
      + apply in_app_or in Hn. destruct Hn as [Hn|Hn]; auto.
    - (* NImage *)
      intros i sub Hs n Hn a. rewrite all_node_image in Hn. rewrite walk_node_image.
      destruct Hn as [<-|Hn].
      + destruct sub; [apply Sg|]; apply D1.
      + destruct sub as [r|]; [|destruct Hn]. simpl in Hs. apply Hs; auto.
    - (* NText *)
      intros i flat chunks [Hfl _] n Hn a. rewrite all_node_text in Hn. rewrite walk_node_text.
      destruct Hn as [<-|Hn].
      + apply Sg, D1.
      + apply Hfl; auto.
    - (* G *)
      intros i sy c m fs ks Hc Hm Hfs Hks. split.
      + intros n Hn a. rewrite walk_group_eq. rewrite all_group_eq in Hn.
        revert a. unfold walk_nodes. induction Hks as [|k r Hk Hr IH]; intro a; simpl in *; [destruct Hn|].
        apply in_app_or in Hn. destruct Hn as [Hn|Hn].
        * apply (walk_nodes_stable r). apply Hk; auto.
        * apply IH; auto.
      + intros n Hn a. rewrite walk_gsub_eq. rewrite all_gdefs_eq in Hn.
        apply in_app_or in Hn. destruct Hn as [Hn|Hn].
        { apply walk_filters_stable. destruct c as [c'|]; [|destruct Hn]. simpl in Hc.
          destruct m; [apply Sm|]; apply Hc; auto. }
        apply in_app_or in Hn. destruct Hn as [Hn|Hn].
        { apply walk_filters_stable. destruct m as [m'|]; [|destruct Hn]. simpl in Hm. apply Hm; auto. }
        generalize (match m with Some m' => walk_mask sf f m' | None => fun x => x end
                      (match c with Some c' => walk_clip sf f c' | None => fun x => x end a)).
        unfold walk_filters.
        induction Hfs as [|x r Hx Hr IH]; intro a0; simpl in *; [destruct Hn|].
        apply in_app_or in Hn. destruct Hn as [Hn|Hn].
        * apply (walk_filters_stable r). apply Hx; auto.
        * apply IH; auto.
    - (* CD *)
      intros p i nx r Hnx [Hr _] n Hn a. rewrite all_clip_eq in Hn. rewrite walk_clip_eq.
      apply in_app_or in Hn. destruct Hn as [Hn|Hn].
      + destruct nx; [apply Sc|]; apply Hr; auto.
      + destruct nx as [c'|]; [|destruct Hn]. simpl in Hnx. apply Hnx; auto.
    - (* MD *)
      intros p i nx r Hnx [Hr _] n Hn a. rewrite all_mask_eq in Hn. rewrite walk_mask_eq.
      apply in_app_or in Hn. destruct Hn as [Hn|Hn].
      + destruct nx; [apply Sm|]; apply Hr; auto.
      + destruct nx as [c'|]; [|destruct Hn]. simpl in Hnx. apply Hnx; auto.
    - (* FD *)
      intros p i ps Hps n Hn a. rewrite walk_filter_eq. rewrite all_filter_eq in Hn.
      revert a. unfold walk_prims. induction Hps as [|x r Hx Hr IH]; intro a; simpl in *; [destruct Hn|].
      apply in_app_or in Hn. destruct Hn as [Hn|Hn].
      + apply (walk_prims_stable r). apply Hx; auto.
      + apply IH; auto.
    - (* PR *)
      intros k sb r ins img Hi n Hn a. rewrite all_prim_eq in Hn. rewrite walk_prim_eq.
      destruct img as [g|]; [|destruct Hn]. simpl in Hi. apply Hi; auto.
    - intros n [].
    - intros n [].
    - intros p i n [].
    - intros p i n [].
    - intros p i r [Hr _] n Hn a. rewrite all_paint_pat in Hn. rewrite walk_paint_pat. apply Hr; auto.
  Qed.

  Lemma walk_group_done g n a : In n (all_group g) -> Done n (walk_group sf f g a).
  Proof. intros. destruct walk_done_all as (_ & H1 & _). apply (H1 g); auto. Qed.
End WalkDone.

(* ------------------------------------------------------------------------------------------------ *)
(* push_new / push_all                                                                              *)
Lemma NoDup_snoc {X} (l : list X) x : NoDup l -> ~ In x l -> NoDup (l ++ [x]).
Proof.
  induction l as [|y r IH]; intros H Hx; simpl.
  - constructor; [intros []|constructor].
  - inversion H; subst. constructor.
    + intro Hy. apply in_app_or in Hy. destruct Hy as [Hy|[Hy|[]]]; auto. subst. apply Hx. left. reflexivity.
    + apply IH; auto. intro Hr. apply Hx. right. exact Hr.
Qed.

Section Push.
  Context {D : Type} (ptr : D -> N).

  Lemma has_ptr_true p l : has_ptr ptr p l = true <-> In p (map ptr l).
  Proof.
    unfold has_ptr. rewrite existsb_exists. split.
    - intros (d & Hd & E). apply N.eqb_eq in E. subst. apply in_map. exact Hd.
    - intro H. apply in_map_iff in H. destruct H as (d & E & Hd). exists d. split; auto.
      apply N.eqb_eq. exact E.
  Qed.
  Lemma has_ptr_false p l : has_ptr ptr p l = false <-> ~ In p (map ptr l).
  Proof.
    rewrite <- has_ptr_true. destruct (has_ptr ptr p l); intuition congruence.
  Qed.

  Lemma push_new_nodup d l : NoDup (map ptr l) -> NoDup (map ptr (push_new ptr d l)).
  Proof.
    intro H. unfold push_new. destruct (has_ptr ptr (ptr d) l) eqn:E; auto.
    apply has_ptr_false in E. rewrite map_app. simpl.
    apply NoDup_snoc; auto.
  Qed.
  Lemma push_new_incl d l : incl l (push_new ptr d l).
  Proof. unfold push_new. destruct (has_ptr ptr (ptr d) l); [apply incl_refl|apply incl_appl, incl_refl]. Qed.
  Lemma push_new_has d l : In (ptr d) (map ptr (push_new ptr d l)).
  Proof.
    unfold push_new. destruct (has_ptr ptr (ptr d) l) eqn:E.
    - apply has_ptr_true in E. exact E.
    - rewrite map_app. apply in_or_app. right. simpl. auto.
  Qed.
  (* everything in the result was there before or is the pushed object *)
  Lemma push_new_from d l x : In x (push_new ptr d l) -> In x l \/ x = d.
  Proof.
    unfold push_new. destruct (has_ptr ptr (ptr d) l); auto. intro H. apply in_app_or in H.
    destruct H as [H|[H|[]]]; auto.
  Qed.

  Lemma push_all_nodup ds l : NoDup (map ptr l) -> NoDup (map ptr (push_all ptr ds l)).
  Proof.
    unfold push_all. revert l. induction ds as [|d r IH]; intros l H; simpl; auto.
    apply IH. apply push_new_nodup. exact H.
  Qed.
  Lemma push_all_incl ds l : incl l (push_all ptr ds l).
  Proof.
    unfold push_all. revert l. induction ds as [|d r IH]; intros l; simpl; [apply incl_refl|].
    eapply incl_tran; [apply (push_new_incl d)|apply IH].
  Qed.
  Lemma push_all_has ds l d : In d ds -> In (ptr d) (map ptr (push_all ptr ds l)).
  Proof.
    unfold push_all. revert l. induction ds as [|x r IH]; intros l H; simpl; [destruct H|].
    destruct H as [->|H].
    - apply (incl_map ptr (push_all_incl r (push_new ptr d l))). apply push_new_has.
    - apply IH. exact H.
  Qed.
  Lemma push_all_from ds l x : In x (push_all ptr ds l) -> In x l \/ In x ds.
  Proof.
    unfold push_all. revert l. induction ds as [|d r IH]; intros l H; simpl in *; auto.
    apply IH in H. destruct H as [H|H]; auto. apply push_new_from in H. destruct H as [H|H]; auto.
  Qed.
End Push.
