(* Identity laws, exact (error 0) in binary32: from_normalized . to_normalized, the identity colour
   matrix, identity transfer functions; lifted to whole pixels through the demultiply/multiply
   round trip. *)
From RV Require Import Model.F32.
From RV Require Import Gen.PixelTables.
From RV Require Import Model.Pixel.
From RV Require Import Proofs.PixelBase.
From RV Require Import Proofs.PixelRoundtrip.
Local Open Scope Z_scope.

Lemma is_pzero_eq : forall x, is_pzero x = true -> x = fzero.
Proof. intros x H. destruct x as [[|]| | |]; try discriminate H. reflexivity. Qed.

Lemma from_to_normalized : forall c, is_byte c -> cm_from_normalized (cm_to_normalized c) = c.
Proof.
  intros c Hc.
  assert (H : forallb (fun c => cm_from_normalized (cm_to_normalized c) =? c) bytes = true) by (vm_compute; reflexivity).
  apply Z.eqb_eq. exact (sweep1 _ H c Hc).
Qed.

(* x * 0 = +0 and 0 * x = +0 for every normalised byte *)
Lemma norm_times_zero : forall c, is_byte c ->
  fmul (cm_to_normalized c) fzero = fzero /\ fmul fzero (cm_to_normalized c) = fzero.
Proof.
  intros c Hc.
  assert (H : forallb (fun c => is_pzero (fmul (cm_to_normalized c) fzero) && is_pzero (fmul fzero (cm_to_normalized c))) bytes = true)
    by (vm_compute; reflexivity).
  pose proof (sweep1 _ H c Hc) as E. cbv beta in E. apply andb_true_iff in E. destruct E as [E1 E2].
  split; apply is_pzero_eq; assumption.
Qed.

Definition N0 : f32 := cm_to_normalized 0.
Lemma zero_byte : is_byte 0. Proof. unfold is_byte. lia. Qed.

Ltac kill_zero_products Hg Hb Ha :=
  unfold identity_matrix; cbn [nth];
  rewrite ?(proj1 (norm_times_zero _ Hg)), ?(proj2 (norm_times_zero _ Hg)),
          ?(proj1 (norm_times_zero _ Hb)), ?(proj2 (norm_times_zero _ Hb)),
          ?(proj1 (norm_times_zero _ Ha)), ?(proj2 (norm_times_zero _ Ha)),
          ?(proj1 (norm_times_zero _ zero_byte)), ?(proj2 (norm_times_zero _ zero_byte)).

Lemma row_r_id : forall r g b a, is_byte r -> is_byte g -> is_byte b -> is_byte a ->
  cm_from_normalized (cm_matrix_r identity_matrix (cm_to_normalized r) (cm_to_normalized g) (cm_to_normalized b) (cm_to_normalized a)) = r.
Proof.
  intros r g b a Hr Hg Hb Ha.
  assert (H : forallb (fun c => cm_from_normalized (cm_matrix_r identity_matrix (cm_to_normalized c) N0 N0 N0) =? c) bytes = true)
    by (vm_compute; reflexivity).
  pose proof (sweep1 _ H r Hr) as E. cbv beta in E. apply Z.eqb_eq in E. rewrite <- E at 2.
  f_equal. unfold cm_matrix_r, N0. kill_zero_products Hg Hb Ha. reflexivity.
Qed.
Lemma row_g_id : forall r g b a, is_byte r -> is_byte g -> is_byte b -> is_byte a ->
  cm_from_normalized (cm_matrix_g identity_matrix (cm_to_normalized r) (cm_to_normalized g) (cm_to_normalized b) (cm_to_normalized a)) = g.
Proof.
  intros r g b a Hr Hg Hb Ha.
  assert (H : forallb (fun c => cm_from_normalized (cm_matrix_g identity_matrix N0 (cm_to_normalized c) N0 N0) =? c) bytes = true)
    by (vm_compute; reflexivity).
  pose proof (sweep1 _ H g Hg) as E. cbv beta in E. apply Z.eqb_eq in E. rewrite <- E at 2.
  f_equal. unfold cm_matrix_g, N0. kill_zero_products Hr Hb Ha. reflexivity.
Qed.
Lemma row_b_id : forall r g b a, is_byte r -> is_byte g -> is_byte b -> is_byte a ->
  cm_from_normalized (cm_matrix_b identity_matrix (cm_to_normalized r) (cm_to_normalized g) (cm_to_normalized b) (cm_to_normalized a)) = b.
Proof.
  intros r g b a Hr Hg Hb Ha.
  assert (H : forallb (fun c => cm_from_normalized (cm_matrix_b identity_matrix N0 N0 (cm_to_normalized c) N0) =? c) bytes = true)
    by (vm_compute; reflexivity).
  pose proof (sweep1 _ H b Hb) as E. cbv beta in E. apply Z.eqb_eq in E. rewrite <- E at 2.
  f_equal. unfold cm_matrix_b, N0. kill_zero_products Hr Hg Ha. reflexivity.
Qed.
Lemma row_a_id : forall r g b a, is_byte r -> is_byte g -> is_byte b -> is_byte a ->
  cm_from_normalized (cm_matrix_a identity_matrix (cm_to_normalized r) (cm_to_normalized g) (cm_to_normalized b) (cm_to_normalized a)) = a.
Proof.
  intros r g b a Hr Hg Hb Ha.
  assert (H : forallb (fun c => cm_from_normalized (cm_matrix_a identity_matrix N0 N0 N0 (cm_to_normalized c)) =? c) bytes = true)
    by (vm_compute; reflexivity).
  pose proof (sweep1 _ H a Ha) as E. cbv beta in E. apply Z.eqb_eq in E. rewrite <- E at 2.
  f_equal. unfold cm_matrix_a, N0. kill_zero_products Hr Hg Hb. reflexivity.
Qed.

Lemma cm_kernel_identity : forall q, byte_px q -> cm_kernel (CMMatrix identity_matrix) q = q.
Proof.
  intros [r g b a] (Hr & Hg & Hb & Ha). cbn [pr pg pb pa] in *. unfold cm_kernel. cbn [pr pg pb pa].
  rewrite row_r_id, row_g_id, row_b_id, row_a_id by assumption. reflexivity.
Qed.

Lemma color_matrix_identity : forall p, byte_px p -> valid_px p ->
  px_color_matrix (CMMatrix identity_matrix) p = p.
Proof.
  intros p Hp Hv. unfold px_color_matrix, apply_color_matrix_steps, run_steps. cbn [fold_left run_step].
  rewrite cm_kernel_identity by (apply px_demultiply_byte, Hp).
  apply px_roundtrip; assumption.
Qed.

(* ------------------------------------------------------------------ transfer functions *)
Definition tf_is_id (f : tf) : Prop := forall c, is_byte c -> transfer f c = c.

Lemma tf_linear_id : tf_is_id (TFLinear f1 fzero).
Proof.
  intros c Hc.
  assert (H : forallb (fun c => transfer (TFLinear f1 fzero) c =? c) bytes = true) by (vm_compute; reflexivity).
  apply Z.eqb_eq. exact (sweep1 _ H c Hc).
Qed.
Lemma tf_table01_id : tf_is_id (TFTable [fzero; f1]).
Proof.
  intros c Hc.
  assert (H : forallb (fun c => transfer (TFTable [fzero; f1]) c =? c) bytes = true) by (vm_compute; reflexivity).
  apply Z.eqb_eq. exact (sweep1 _ H c Hc).
Qed.
(* a finer identity table, e.g. tableValues="0 0.25 0.5 0.75 1" *)
Lemma tf_table5_id : tf_is_id (TFTable [fzero; flit 1 4; flit 1 2; flit 3 4; f1]).
Proof.
  intros c Hc.
  assert (H : forallb (fun c => transfer (TFTable [fzero; flit 1 4; flit 1 2; flit 3 4; f1]) c =? c) bytes = true) by (vm_compute; reflexivity).
  apply Z.eqb_eq. exact (sweep1 _ H c Hc).
Qed.

Lemma set_get_ch : forall q i, set_ch q i (get_ch q i) = q.
Proof.
  intros [r g b a] i. unfold set_ch, get_ch.
  repeat match goal with |- context [match ?x with _ => _ end] => destruct x end; reflexivity.
Qed.
Lemma get_ch_byte : forall q i, byte_px q -> is_byte (get_ch q i).
Proof.
  intros [r g b a] i (Hr & Hg & Hb & Ha). unfold get_ch. cbn [pr pg pb pa] in *.
  repeat match goal with |- context [match ?x with _ => _ end] => destruct x end; assumption.
Qed.

Definition diagonal (w : Z * Z * Z * Z) : Prop := let '(gf, dst, f, src) := w in dst = src /\ gf = f.
Lemma ct_fold_identity : forall fs, (forall i, tf_dummy (nthZ fs i TFIdentity) = true \/ tf_is_id (nthZ fs i TFIdentity)) ->
  forall wl, Forall diagonal wl -> forall q, byte_px q ->
  fold_left (fun q w => let '(gf, dst, f, src) := w in
                        if tf_dummy (nthZ fs gf TFIdentity) then q
                        else set_ch q dst (transfer (nthZ fs f TFIdentity) (get_ch q src))) wl q = q.
Proof.
  intros fs Hfs wl Hd. induction Hd as [|[[[gf dst] f] src] r Hw Hr IH]; intros q Hq; cbn [fold_left].
  - reflexivity.
  - unfold diagonal in Hw. destruct Hw as [-> ->].
    destruct (tf_dummy (nthZ fs f TFIdentity)) eqn:E; [apply IH, Hq|].
    destruct (Hfs f) as [Hdum|Hid].
    + rewrite Hdum in E. discriminate E.
    + rewrite (Hid _ (get_ch_byte q src Hq)), set_get_ch. apply IH, Hq.
Qed.

Lemma ct_wiring_diagonal : Forall diagonal ct_wiring.
Proof. unfold ct_wiring. repeat constructor. Qed.

Lemma ct_kernel_identity : forall fs,
  (forall i, tf_dummy (nthZ fs i TFIdentity) = true \/ tf_is_id (nthZ fs i TFIdentity)) ->
  forall q, byte_px q -> ct_kernel fs q = q.
Proof. intros fs Hfs q Hq. unfold ct_kernel. apply ct_fold_identity; [exact Hfs|apply ct_wiring_diagonal|exact Hq]. Qed.

Lemma component_transfer_identity : forall fs,
  (forall i, tf_dummy (nthZ fs i TFIdentity) = true \/ tf_is_id (nthZ fs i TFIdentity)) ->
  forall p, byte_px p -> valid_px p -> px_component_transfer fs p = p.
Proof.
  intros fs Hfs p Hp Hv. unfold px_component_transfer, apply_component_transfer_steps, run_steps.
  cbn [fold_left run_step].
  rewrite ct_kernel_identity by (try exact Hfs; apply px_demultiply_byte, Hp).
  apply px_roundtrip; assumption.
Qed.

(* the three concrete identity settings the system oracle uses *)
Lemma all_ids : forall f, (tf_dummy f = true \/ tf_is_id f) ->
  forall i, tf_dummy (nthZ [f; f; f; f] i TFIdentity) = true \/ tf_is_id (nthZ [f; f; f; f] i TFIdentity).
Proof.
  intros f Hf i. unfold nthZ. destruct (Z.to_nat i) as [|[|[|[|n]]]]; cbn [nth]; try exact Hf.
  destruct n; left; reflexivity.
Qed.
