(* The collectors of Model/Tree.v: no repeated identity, complete and sound with respect to the
   field-by-field enumeration `all_group`; node_by_id. *)
From RV Require Import Model.Tree.
From RV Require Import Proofs.Tree.
From RV Require Import Gen.CollectTables.
From Coq Require Import NArith List Bool Lia String.
Import ListNotations.
Local Open Scope N_scope.

(* ------------------------------------------------------------------------------------------------ *)
(* The collection loops of crates/usvg/src/tree/mod.rs have the shape Model/Tree.v was written for.
   `paint_loop_arms` / `collector_guards` are regenerated from the source on every run
   (tools/gen_ids.py -> Gen/CollectTables.v): an arm with a guard (`Node::Path(p) if !p.is_visible() => {}`),
   a field that is no longer pushed, a dropped `subroots` call or a new `if` changes these obligations.   *)
Lemma paint_loop_arms_as_modelled :
  paint_loop_arms =
  [("Group", "", ArmRec); ("Path", "", ArmPush ["fill"; "stroke"]); ("Image", "", ArmSkip); ("Text", "", ArmSkip)]%string
  /\ paint_loop_subroots = true.
Proof. split; reflexivity. Qed.

(* the model's reading of the table: which paints of a node one iteration hands to the callback *)
Definition arm_paints (sel : paint -> bool) (a : string * string * parm) (n : node) : option (list paint) :=
  match a with
  | (kind, guard, act) =>
      let here := match n, kind with
                  | NGroup _, "Group"%string | NPath _ _ _ _, "Path"%string
                  | NImage _ _, "Image"%string | NText _ _ _, "Text"%string => true
                  | _, _ => false
                  end in
      if negb here then None
      else if negb (String.eqb guard "") then None        (* a guarded arm is outside the model: no reading *)
      else match act, n with
           | ArmPush fields, NPath _ _ fl st =>
               Some (filter sel (flat_map (fun f => if String.eqb f "fill" then [fl]
                                                    else if String.eqb f "stroke" then [st] else []) fields))
           | ArmPush _, _ => None
           | _, _ => Some []
           end
  end.
Fixpoint first_arm (sel : paint -> bool) (arms : list (string * string * parm)) (n : node) : option (list paint) :=
  match arms with
  | [] => None
  | a :: r => match a with (kind, _, _) =>
                match arm_paints sel a n with
                | Some l => Some l
                | None => match n, kind with
                          | NGroup _, "Group"%string | NPath _ _ _ _, "Path"%string
                          | NImage _ _, "Image"%string | NText _ _ _, "Text"%string => None   (* first matching arm wins *)
                          | _, _ => first_arm sel r n
                          end
                end
              end
  end.
(* for every node - hidden paths included - the generated arm list, read arm by arm, pushes exactly `node_paints` *)
Lemma node_paints_is_source_arms sel n : first_arm sel paint_loop_arms n = Some (node_paints sel n).
Proof. destruct n as [g|i v fl st|i sub|i fl ch]; reflexivity. Qed.

(* Since the fix that made the collectors linear (37642ef) the test "is this definition in the list already" is
   `seen.insert(Arc::as_ptr(x))` on a set of addresses instead of `!list.iter().any(|other| Arc::ptr_eq(x, other))`.
   The model's `push_all ptr` (push x unless `ptr x` is among the addresses of the list) reads that test under the invariant
   "seen = the addresses of the list", which holds because of the facts pinned below, all regenerated from the source:
   every list starts empty (`tree_list_inits`), every set starts empty where the walk starts (`collector_calls`, the `let`s of
   collect_paint_servers), the only operation on a set is the guarded insert whose success is followed by the push of that same
   Arc (`collector_guards`, `collector_seen`), and the recursive calls hand the same list and the same set on (`collector_seen`).
   `HashSet::insert` returns true exactly when the value was not in the set.  A second insert site, a set that is re-created on
   the way down, a list that does not start empty or a push that is no longer guarded changes one of these obligations.        *)
Lemma collector_guards_as_modelled :
  collector_guards =
  [("collect_clip_paths", ["let Node::Group(ref g) = node"; "seen.insert(Arc::as_ptr(c))"; "let Node::Group(ref g) = node"]);
   ("collect_masks", ["let Node::Group(ref g) = node"; "seen.insert(Arc::as_ptr(m))"; "let Node::Group(ref g) = node"]);
   ("collect_filters", ["let Node::Group(ref g) = node"; "seen.insert(Arc::as_ptr(filter))"; "let Node::Group(ref g) = node"]);
   ("collect_paint_servers", ["seen_lg.insert(Arc::as_ptr(lg))"; "seen_rg.insert(Arc::as_ptr(rg))";
                              "seen_patt.insert(Arc::as_ptr(patt))"]);
   ("loop_over_paint_servers", ["let Some(paint) = paint"])]%string.
Proof. reflexivity. Qed.

Lemma collector_seen_as_modelled :
  collector_seen =
  [("collect_clip_paths", ["fn collect_clip_paths( &self, clip_paths: &mut Vec<Arc<ClipPath>>, seen: &mut HashSet<*const ClipPath>, )";
                           "if seen.insert(Arc::as_ptr(c))";
                           "node.subroots(|subroot| subroot.collect_clip_paths(clip_paths, seen))";
                           "g.collect_clip_paths(clip_paths, seen)"]);
   ("collect_masks", ["fn collect_masks( &self, masks: &mut Vec<Arc<Mask>>, seen: &mut HashSet<*const Mask>, )";
                      "if seen.insert(Arc::as_ptr(m))";
                      "node.subroots(|subroot| subroot.collect_masks(masks, seen))";
                      "g.collect_masks(masks, seen)"]);
   ("collect_filters", ["fn collect_filters( &self, filters: &mut Vec<Arc<filter::Filter>>, seen: &mut HashSet<*const filter::Filter>, )";
                        "if seen.insert(Arc::as_ptr(filter))";
                        "node.subroots(|subroot| subroot.collect_filters(filters, seen))";
                        "g.collect_filters(filters, seen)"]);
   ("collect_paint_servers", ["let mut seen_lg = HashSet::new()"; "let mut seen_rg = HashSet::new()";
                              "let mut seen_patt = HashSet::new()";
                              "if seen_lg.insert(Arc::as_ptr(lg))"; "if seen_rg.insert(Arc::as_ptr(rg))";
                              "if seen_patt.insert(Arc::as_ptr(patt))"]);
   ("loop_over_paint_servers", [])]%string
  /\ collector_calls =
     ["tree.collect_paint_servers();";
      "tree.root.collect_clip_paths(&mut tree.clip_paths, &mut HashSet::new());";
      "tree.root.collect_masks(&mut tree.masks, &mut HashSet::new());";
      "tree.root.collect_filters(&mut tree.filters, &mut HashSet::new());"]%string
  /\ tree_list_inits =
     ["clip_paths: Vec::new()"; "filters: Vec::new()"; "linear_gradients: Vec::new()"; "masks: Vec::new()";
      "patterns: Vec::new()"; "radial_gradients: Vec::new()"]%string.
Proof. repeat split; reflexivity. Qed.

Section Collector.
  Context {D : Type} (ptr : D -> N) (defs : node -> list D) (sf : bool).
  Let visit := fun (n : node) (a : list D) => push_all ptr (defs n) a.

  Lemma collect_defs_nodup root acc :
    NoDup (map ptr acc) -> NoDup (map ptr (collect_defs ptr defs sf root acc)).
  Proof.
    intro H. unfold collect_defs.
    apply (walk_group_inv sf visit root (fun a => NoDup (map ptr a))); auto.
    intros m a _ Ha. apply push_all_nodup. exact Ha.
  Qed.

  Lemma collect_defs_complete root acc d :
    In d (reach_defs defs root) -> In (ptr d) (map ptr (collect_defs ptr defs sf root acc)).
  Proof.
    unfold reach_defs. intro H. apply in_flat_map in H. destruct H as (n & Hn & Hd).
    pose (Done := fun (n : node) (a : list D) => forall d, In d (defs n) -> In (ptr d) (map ptr a)).
    assert (HD : Done n (collect_defs ptr defs sf root acc)).
    { unfold collect_defs. apply (walk_group_done sf visit Done); auto.
      - intros k a x Hx. apply push_all_has. exact Hx.
      - intros k m a Hk x Hx. apply (incl_map ptr (push_all_incl ptr (defs m) a)). apply Hk. exact Hx. }
    apply HD. exact Hd.
  Qed.

  Lemma collect_defs_sound root acc d :
    In d (collect_defs ptr defs sf root acc) -> In d acc \/ In d (reach_defs defs root).
  Proof.
    unfold collect_defs.
    apply (walk_group_inv sf visit root (fun a => forall d, In d a -> In d acc \/ In d (reach_defs defs root))); auto.
    intros m a Hm Ha x Hx. apply push_all_from in Hx. destruct Hx as [Hx|Hx]; auto.
    right. unfold reach_defs. apply in_flat_map. exists m. split; assumption.
  Qed.

  Lemma collect_defs_keeps root acc : incl acc (collect_defs ptr defs sf root acc).
  Proof.
    unfold collect_defs.
    apply (walk_group_inv sf visit root (fun a => incl acc a)); [|apply incl_refl].
    intros m a _ Ha. eapply incl_tran; [exact Ha|apply push_all_incl].
  Qed.
End Collector.

(* ------------------------------------------------------------------------------------------------ *)
(* the four collections of a tree                                                                   *)
Definition coll_nodup (t : tree) : Prop :=
  NoDup (map pa_ptr (t_lins t)) /\ NoDup (map pa_ptr (t_rads t)) /\ NoDup (map pa_ptr (t_pats t)) /\
  NoDup (map c_ptr (t_clips t)) /\ NoDup (map m_ptr (t_masks t)) /\ NoDup (map f_ptr (t_filts t)).

Lemma with_collections_nodup root : coll_nodup (with_collections root).
Proof.
  unfold coll_nodup, with_collections; simpl.
  repeat split; apply collect_defs_nodup; constructor.
Qed.

Lemma sel_server_lin p : is_lin p = true -> is_server p = true.
Proof. unfold is_server. intros ->. reflexivity. Qed.
Lemma sel_server_rad p : is_rad p = true -> is_server p = true.
Proof. unfold is_server. intros ->. destruct (is_lin p); reflexivity. Qed.
Lemma sel_server_pat p : is_pat p = true -> is_server p = true.
Proof. unfold is_server. intros ->. destruct (is_lin p), (is_rad p); reflexivity. Qed.

Lemma node_paints_sel sel n p :
  (forall q, sel q = true -> is_server q = true) ->
  In p (node_paints is_server n) -> sel p = true -> In p (node_paints sel n).
Proof.
  intros Hs. destruct n; simpl; auto.
  intros H Hp. repeat match goal with
  | |- context [if ?b then _ else _] => destruct b eqn:?
  | H : context [if ?b then _ else _] |- _ => destruct b eqn:? end;
  simpl in *; intuition (subst; try congruence; auto).
Qed.

Lemma reach_paints_sel sel root p :
  (forall q, sel q = true -> is_server q = true) ->
  In p (reach_paints root) -> sel p = true -> In p (reach_defs (node_paints sel) root).
Proof.
  intros Hs H Hp. unfold reach_paints, reach_defs in *. apply in_flat_map in H. destruct H as (n & Hn & H).
  apply in_flat_map. exists n. split; auto. apply node_paints_sel; auto.
Qed.

(* every definition found by the field-by-field enumeration is in the collection computed from the root *)
Definition coll_complete (t : tree) : Prop :=
  let r := t_root t in
  (forall c, In c (reach_clips r) -> In (c_ptr c) (map c_ptr (t_clips t))) /\
  (forall m, In m (reach_masks r) -> In (m_ptr m) (map m_ptr (t_masks t))) /\
  (forall f, In f (reach_filters r) -> In (f_ptr f) (map f_ptr (t_filts t))) /\
  (forall p, In p (reach_paints r) ->
     (is_lin p = true -> In (pa_ptr p) (map pa_ptr (t_lins t))) /\
     (is_rad p = true -> In (pa_ptr p) (map pa_ptr (t_rads t))) /\
     (is_pat p = true -> In (pa_ptr p) (map pa_ptr (t_pats t)))).

Lemma with_collections_complete root : coll_complete (with_collections root).
Proof.
  unfold coll_complete, with_collections; simpl. repeat split.
  - intros c H. apply collect_defs_complete. exact H.
  - intros c H. apply collect_defs_complete. exact H.
  - intros c H. apply collect_defs_complete. exact H.
  - intro Hp. apply collect_defs_complete. apply reach_paints_sel; auto. apply sel_server_lin.
  - intro Hp. apply collect_defs_complete. apply reach_paints_sel; auto. apply sel_server_rad.
  - intro Hp. apply collect_defs_complete. apply reach_paints_sel; auto. apply sel_server_pat.
Qed.

(* nothing else is collected *)
Definition coll_sound (t : tree) : Prop :=
  let r := t_root t in
  incl (t_clips t) (reach_clips r) /\ incl (t_masks t) (reach_masks r) /\ incl (t_filts t) (reach_filters r) /\
  incl (t_lins t) (reach_defs (node_paints is_lin) r) /\ incl (t_rads t) (reach_defs (node_paints is_rad) r) /\
  incl (t_pats t) (reach_defs (node_paints is_pat) r).

Lemma with_collections_sound root : coll_sound (with_collections root).
Proof.
  unfold coll_sound, with_collections; simpl.
  repeat split; intros d H; apply collect_defs_sound in H; destruct H as [[]|H]; exact H.
Qed.

(* ------------------------------------------------------------------------------------------------ *)
(* chains are what `while let Some(c) = clip { ..; clip = c.clip_path }` visits: finite by typing.     *)
Lemma clip_chain_head c : In c (clip_chain c).
Proof. destruct c; simpl; auto. Qed.
Lemma mask_chain_head m : In m (mask_chain m).
Proof. destruct m; simpl; auto. Qed.
Lemma clip_chain_next c c' d : c_next c = Some c' -> In d (clip_chain c') -> In d (clip_chain c).
Proof. destruct c as [p i nx r]; simpl. intros -> H. right. exact H. Qed.
Lemma mask_chain_next c c' d : m_next c = Some c' -> In d (mask_chain c') -> In d (mask_chain c).
Proof. destruct c as [p i nx r]; simpl. intros -> H. right. exact H. Qed.

(* ------------------------------------------------------------------------------------------------ *)
(* node_by_id                                                                                       *)
Fixpoint desc_node (n : node) : list node :=
  n :: match n with
       | NGroup (G _ _ _ _ _ kids) =>
           (fix go (l : list node) : list node := match l with [] => [] | k :: r => desc_node k ++ go r end) kids
       | _ => []
       end.
Definition desc_group (g : group) : list node := flat_map desc_node (g_kids g).

Lemma desc_node_group i sy c m fs ks :
  desc_node (NGroup (G i sy c m fs ks)) = NGroup (G i sy c m fs ks) :: flat_map desc_node ks.
Proof. reflexivity. Qed.

Lemma node_by_id_eq i sy c m fs ks x :
  node_by_id (G i sy c m fs ks) x =
  (fix go (l : list node) : option node :=
     match l with
     | [] => None
     | child :: r =>
         if node_id child =? x then Some child
         else match child with
              | NGroup g => match node_by_id g x with Some n => Some n | None => go r end
              | _ => go r
              end
     end) ks.
Proof. reflexivity. Qed.

Definition nbi_spec (g : group) : Prop :=
  forall x,
    match node_by_id g x with
    | Some n => node_id n = x /\ In n (desc_group g)
    | None => forall n, In n (desc_group g) -> node_id n <> x
    end.

Lemma node_by_id_spec_all :
  (forall n : node, match n with NGroup g => nbi_spec g | _ => True end) /\
  (forall g, nbi_spec g) /\ (forall c : clipdef, True) /\ (forall m : maskdef, True) /\
  (forall f : filterdef, True) /\ (forall p : prim, True) /\ (forall p : paint, True).
Proof.
  apply tree_mutind; auto.
  intros i sy c m fs ks _ _ _ Hks x. rewrite node_by_id_eq. unfold desc_group. simpl g_kids.
  induction Hks as [|k r Hk Hr IH]; simpl.
  - intros n [].
  - destruct (node_id k =? x) eqn:E.
    + apply N.eqb_eq in E. split; auto. apply in_or_app. left. destruct k as [[? ? ? ? ? ?]| | |]; simpl; auto.
    + apply N.eqb_neq in E.
      destruct k as [g| | |].
      * specialize (Hk x). destruct g as [gi gsy gc gm gf gk].
        destruct (node_by_id (G gi gsy gc gm gf gk) x) as [n|] eqn:En.
        -- destruct Hk as [H1 H2]. split; auto. apply in_or_app. left. rewrite desc_node_group. right. exact H2.
        -- match goal with |- match ?e with _ => _ end => destruct e as [n|] eqn:Er end.
           ++ destruct IH as [H1 H2]. split; auto. apply in_or_app. right. exact H2.
           ++ intros n Hn. apply in_app_or in Hn. destruct Hn as [Hn|Hn]; [|apply IH; exact Hn].
              rewrite desc_node_group in Hn. destruct Hn as [<-|Hn]; [exact E|]. apply Hk. exact Hn.
      * match goal with |- match ?e with _ => _ end => destruct e as [n|] eqn:Er end.
        -- destruct IH as [H1 H2]. split; auto. apply in_or_app. right. exact H2.
        -- intros n Hn. apply in_app_or in Hn. destruct Hn as [[<-|[]]|Hn]; [exact E|]. apply IH. exact Hn.
      * match goal with |- match ?e with _ => _ end => destruct e as [n|] eqn:Er end.
        -- destruct IH as [H1 H2]. split; auto. apply in_or_app. right. exact H2.
        -- intros n Hn. apply in_app_or in Hn. destruct Hn as [[<-|[]]|Hn]; [exact E|]. apply IH. exact Hn.
      * match goal with |- match ?e with _ => _ end => destruct e as [n|] eqn:Er end.
        -- destruct IH as [H1 H2]. split; auto. apply in_or_app. right. exact H2.
        -- intros n Hn. apply in_app_or in Hn. destruct Hn as [[<-|[]]|Hn]; [exact E|]. apply IH. exact Hn.
Qed.

Lemma node_by_id_some g x n : node_by_id g x = Some n -> node_id n = x /\ In n (desc_group g).
Proof.
  intro H. destruct node_by_id_spec_all as (_ & S & _). specialize (S g x). rewrite H in S. exact S.
Qed.
Lemma node_by_id_none g x : node_by_id g x = None <-> (forall n, In n (desc_group g) -> node_id n <> x).
Proof.
  destruct node_by_id_spec_all as (_ & S & _). specialize (S g x). split.
  - intro H. rewrite H in S. exact S.
  - intro H. destruct (node_by_id g x) as [n|]; auto. destruct S as [S1 S2]. exfalso. apply (H n S2 S1).
Qed.

Lemma NoDup_map_inj {X Y} (f : X -> Y) l a b :
  NoDup (map f l) -> In a l -> In b l -> f a = f b -> a = b.
Proof.
  induction l as [|x r IH]; simpl; intros H Ha Hb E; [destruct Ha|].
  inversion H as [|? ? Hx Hr]; subst.
  destruct Ha as [<-|Ha], Hb as [<-|Hb]; auto.
  - exfalso. apply Hx. rewrite E. apply in_map. exact Hb.
  - exfalso. apply Hx. rewrite <- E. apply in_map. exact Ha.
Qed.

Lemma node_by_id_unique g n :
  NoDup (map node_id (desc_group g)) -> In n (desc_group g) -> node_by_id g (node_id n) = Some n.
Proof.
  intros Hnd Hn. destruct (node_by_id g (node_id n)) as [n'|] eqn:E.
  - apply node_by_id_some in E. destruct E as [E1 E2]. f_equal.
    apply (NoDup_map_inj node_id (desc_group g)); auto.
  - exfalso. apply (proj1 (node_by_id_none g (node_id n)) E n Hn). reflexivity.
Qed.

(* ------------------------------------------------------------------------------------------------ *)
(* hidden paths: `visible = false` changes nothing for the collections.                              *)
Lemma hidden_path_paints_collected root i fl st p :
  In (NPath i false fl st) (all_group root) -> In p [fl; st] ->
  (is_lin p = true -> In (pa_ptr p) (map pa_ptr (t_lins (with_collections root)))) /\
  (is_rad p = true -> In (pa_ptr p) (map pa_ptr (t_rads (with_collections root)))) /\
  (is_pat p = true -> In (pa_ptr p) (map pa_ptr (t_pats (with_collections root)))).
Proof.
  intros Hn Hp.
  assert (R : is_server p = true -> In p (reach_paints root)).
  { intro Hs. unfold reach_paints, reach_defs. apply in_flat_map. exists (NPath i false fl st). split; auto.
    change (In p (filter is_server [fl; st])). apply filter_In. split; auto. }
  destruct (with_collections_complete root) as (_ & _ & _ & C).
  repeat split; intro Hk.
  - apply (C p (R (sel_server_lin p Hk))); exact Hk.
  - apply (C p (R (sel_server_rad p Hk))); exact Hk.
  - apply (C p (R (sel_server_pat p Hk))); exact Hk.
Qed.

(* flipping the visible flag of every path leaves every collector result unchanged, ptr by ptr *)
Definition set_vis_node (b : bool) (n : node) : node :=
  match n with NPath i _ fl st => NPath i b fl st | _ => n end.
Lemma node_paints_vis sel i v w fl st : node_paints sel (NPath i v fl st) = node_paints sel (NPath i w fl st).
Proof. reflexivity. Qed.
