(* Lifting of exhaustive boolean sweeps over bytes (`forallb ... = true` by vm_compute) to quantified statements. *)
From RV Require Import Model.F32.
From RV Require Import Model.Blend8.
Local Open Scope Z_scope.

Lemma zrange_spec : forall n s z, In z (zrange n s) <-> s <= z < s + Z.of_nat n.
Proof.
  induction n; intros s z; simpl zrange.
  - simpl. lia.
  - simpl In. rewrite IHn. lia.
Qed.

Lemma bytes_spec : forall z, In z bytes <-> is_byte z.
Proof. intro z. unfold bytes, is_byte. rewrite zrange_spec. simpl. lia. Qed.

Lemma sweep1 (P : Z -> bool) :
  forallb P bytes = true -> forall c, is_byte c -> P c = true.
Proof. intros H c Hc. rewrite forallb_forall in H. apply H, bytes_spec, Hc. Qed.

Lemma sweep2 (P : Z -> Z -> bool) :
  forallb (fun a => forallb (fun c => P c a) bytes) bytes = true ->
  forall c a, is_byte c -> is_byte a -> P c a = true.
Proof.
  intros H c a Hc Ha. rewrite forallb_forall in H.
  specialize (H a (proj2 (bytes_spec a) Ha)). cbv beta in H.
  rewrite forallb_forall in H. apply H, bytes_spec, Hc.
Qed.
