(* C02 (extension round 4, second pass): layers at ANY nesting depth, layers inside a nested SVG image, and what is (and is
   not) bounded about the memory that is alive at the same time. *)
From RV Require Import Model.Base Model.RenderPrims Gen.Consts Gen.LeafFit Gen.LeafRender Model.Render Proofs.Render.
From RV Require Import Gen.C02Sites Model.C02Surf Proofs.C02Surf.
From RV Require Import Model.LinksNest Proofs.LinksNest.   (* C03 (read-only): sub-documents are loaded to depth 1 only *)
From Coq Require Import List Lia ZArith.
Import ListNotations.
Local Open Scope Z_scope.

Definition K2 : Z := MAXBB_MUL_W * MAXBB_MUL_H.

(* a layer allocated in any frame reachable through any number of nested layers (render_group hands its children
   layer_child_max - SOURCE-DERIVED - of its own clamp box) is at most k x k canvases large *)
Lemma nested_layer_bounded W H m0 ox oy m b nf r :
  1 <= W <= CANVAS_MAX -> 1 <= H <= CANVAS_MAX -> max_bbox W H = Some m0 -> frame m0 ox oy m -> layer_box b nf m = LBox r ->
  valid_irect r /\ iw r <= MAXBB_MUL_W * W /\ ih r <= MAXBB_MUL_H * H /\ iw r * ih r <= K2 * (W * H).
Proof.
  intros HW HH Hm F L.
  destruct (canvas_in_max_bbox W H HW HH) as [m' [E [V [_ [Ew Eh]]]]]. rewrite Hm in E. inversion E; subst m'.
  destruct (frame_inv m0 ox oy m V F) as [Em Vm].
  destruct (layer_within_max b nf m r Vm L) as [Vr Ir].
  destruct (inside_size r m Ir Vr) as [A [B C]].
  assert (iw m = iw m0 /\ ih m = ih m0) as [Wm Hm'] by (subst m; unfold ishift; cbn [iw ih]; auto).
  unfold K2, MAXBB_MUL_W, MAXBB_MUL_H in *. unfold valid_irect in Vr.
  split; [exact Vr|]. repeat split; try lia; nia.
Qed.

(* surfaces that are alive at the same time: each is bounded by the canvas, their NUMBER is not - it follows the nesting
   depth of isolated groups / clip chains / masks and the number of filter primitives (filter::apply_inner keeps every
   primitive result in `results` until the filter is done).  What is proved is therefore linear in that count: *)
Lemma live_total_bound (B : Z) (areas : list Z) : Forall (fun a => a <= B) areas ->
  fold_right Z.add 0 areas <= Z.of_nat (length areas) * B.
Proof.
  induction 1 as [| a l Ha _ IH]; [cbn; lia|]. cbn [fold_right length]. rewrite Nat2Z.inj_succ. lia.
Qed.

Lemma nested_layers_total W H m0 (ls : list (Z * Z * irect * qrect * bool * irect)) :
  1 <= W <= CANVAS_MAX -> 1 <= H <= CANVAS_MAX -> max_bbox W H = Some m0 ->
  Forall (fun e => let '(ox, oy, m, b, nf, r) := e in frame m0 ox oy m /\ layer_box b nf m = LBox r) ls ->
  fold_right Z.add 0 (map (fun e => let '(_, _, _, _, _, r) := e in iw r * ih r) ls) <= Z.of_nat (length ls) * (K2 * (W * H)).
Proof.
  intros HW HH Hm F. rewrite <- (map_length (fun e => let '(_, _, _, _, _, r) := e in iw r * ih r) ls).
  apply live_total_bound. rewrite Forall_map. eapply Forall_impl; [|exact F].
  intros [[[[[ox oy] m] b] nf] r] [Fr L].
  destruct (nested_layer_bounded W H m0 ox oy m b nf r HW HH Hm Fr L) as [_ [_ [_ A]]]. exact A.
Qed.

(* a nested SVG image is rendered by crate::render on a buffer of the size of the surface it is drawn on (image.rs
   render_vector: buf_image_pixmap_0, SOURCE-DERIVED), i.e. with a fresh max_bbox of k x k THAT surface: its layers are bounded
   by k^4 canvases *)
Lemma nested_image_layer_bounded W H m0 ox oy m b nf r m1 ox1 oy1 m' b1 nf1 r1 :
  1 <= W -> MAXBB_MUL_W * W <= CANVAS_MAX -> 1 <= H -> MAXBB_MUL_H * H <= CANVAS_MAX ->
  max_bbox W H = Some m0 -> frame m0 ox oy m -> layer_box b nf m = LBox r ->
  max_bbox (fst (buf_image_pixmap_0 (layer_size r))) (snd (buf_image_pixmap_0 (layer_size r))) = Some m1 ->
  frame m1 ox1 oy1 m' -> layer_box b1 nf1 m' = LBox r1 ->
  iw r1 * ih r1 <= (K2 * K2) * (W * H).
Proof.
  intros HW HW5 HH HH5 Hm F L Hm1 F1 L1.
  assert (CW : 1 <= W <= CANVAS_MAX) by (unfold MAXBB_MUL_W in *; lia).
  assert (CH : 1 <= H <= CANVAS_MAX) by (unfold MAXBB_MUL_H in *; lia).
  destruct (nested_layer_bounded W H m0 ox oy m b nf r CW CH Hm F L) as [Vr [A [B C]]].
  assert (S : buf_image_pixmap_0 (layer_size r) = layer_size r) by (destruct (layer_size r); reflexivity).
  rewrite S in Hm1.
  assert (E : layer_size r = (iw r, ih r)) by reflexivity. rewrite E in Hm1. cbn [fst snd] in Hm1.
  unfold valid_irect in Vr.
  destruct (nested_layer_bounded (iw r) (ih r) m1 ox1 oy1 m' b1 nf1 r1 ltac:(lia) ltac:(lia) Hm1 F1 L1) as [_ [_ [_ D]]].
  unfold K2 in *. assert (0 <= MAXBB_MUL_W * MAXBB_MUL_H) by (unfold MAXBB_MUL_W, MAXBB_MUL_H; lia). nia.
Qed.

(* ... and images do not nest further: C03's loader model resolves sub-documents to depth 1 only *)
Lemma image_nesting_depth_1 (fs : fsys) (o : ropt) (d : idoc) (fuel : nat) :
  exists t, load (S (S fuel)) fs o d = Some t /\ (depth t <= 1)%nat.
Proof. destruct (nest_bounded fs o d fuel) as [t [E [D _]]]. exists t. split; assumption. Qed.
