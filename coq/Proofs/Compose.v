(* C14: lemmas about the compositing algebra (Model/Compose.v). *)
From RV Require Import Model.Base Model.Compose.
From Coq Require Import Setoid Morphisms.
Local Open Scope Q_scope.

Ltac px_solve := unfold peq, over, scale, clear in *; simpl in *; intuition (try ring; try lra; try nra).

Lemma peq_refl a : peq a a.
Proof. unfold peq; intuition reflexivity. Qed.
Lemma peq_sym a b : peq a b -> peq b a.
Proof. unfold peq; intuition (symmetry; assumption). Qed.
Lemma peq_trans a b c : peq a b -> peq b c -> peq a c.
Proof. unfold peq; intros [A1 [A2 [A3 A4]]] [B1 [B2 [B3 B4]]]; repeat split; etransitivity; eassumption. Qed.
#[global] Instance peq_equiv : Equivalence peq.
Proof. split; [exact peq_refl | exact peq_sym | exact peq_trans]. Qed.

#[global] Instance over_proper : Proper (peq ==> peq ==> peq) over.
Proof.
  intros a a' [A1 [A2 [A3 A4]]] b b' [B1 [B2 [B3 B4]]]. unfold peq, over; simpl.
  repeat split; rewrite ?A1, ?A2, ?A3, ?A4, ?B1, ?B2, ?B3, ?B4; reflexivity.
Qed.
#[global] Instance scale_proper : Proper (Qeq ==> peq ==> peq) scale.
Proof.
  intros k k' K a a' [A1 [A2 [A3 A4]]]. unfold peq, scale; simpl.
  repeat split; rewrite ?K, ?A1, ?A2, ?A3, ?A4; reflexivity.
Qed.

Lemma peqb_true a b : peqb a b = true <-> peq a b.
Proof.
  unfold peqb, peq. rewrite !andb_true_iff, !Qeqb_true. tauto.
Qed.

(* ---------------------------------------------------------------- algebra *)
Lemma over_assoc a b c : peq (over a (over b c)) (over (over a b) c).
Proof. px_solve. Qed.
Lemma over_clear_r a : peq (over a clear) a.
Proof. px_solve. Qed.
Lemma over_clear_l a : peq (over clear a) a.
Proof. px_solve. Qed.
Lemma scale_mul a b p : peq (scale a (scale b p)) (scale (a * b) p).
Proof. px_solve. Qed.
Lemma scale_one p : peq (scale 1 p) p.
Proof. px_solve. Qed.
Lemma scale_zero p : peq (scale 0 p) clear.
Proof. px_solve. Qed.
Lemma scale_one' o p : o == 1 -> peq (scale o p) p.
Proof. intro H. rewrite H. apply scale_one. Qed.
(* opacity distributes over a layer's own compositing only through the layer: scale k (over a b) =
   over (scale k a) (scale k b) fails (that is why group opacity needs a layer) *)
Lemma scale_over_not_distributive :
  exists k a b, ~ peq (scale k (over a b)) (over (scale k a) (scale k b)).
Proof.
  exists (1#2), {| pr := 1; pg := 0; pb := 0; pa := 1 |}, {| pr := 0; pg := 1; pb := 0; pa := 1 |}.
  unfold peq, scale, over; simpl. intros [_ [H _]]. revert H. unfold Qeq; simpl. discriminate.
Qed.

(* ---------------------------------------------------------------- flat draw lists *)
Lemma paint_layer ds : forall bg, peq (paint ds bg) (over (paint ds clear) bg).
Proof.
  unfold paint. induction ds as [|d ds IH]; intro bg; simpl.
  - symmetry. apply over_clear_l.
  - rewrite (IH (over d bg)). rewrite (IH (over d clear)).
    rewrite over_clear_r. symmetry. rewrite <- over_assoc. reflexivity.
Qed.

(* ---------------------------------------------------------------- trees *)
Fixpoint node_ind2 (P : node -> Prop) (HD : forall p, P (Draw p))
         (HG : forall iso o ch, Forall P ch -> P (Grp iso o ch)) (n : node) {struct n} : P n :=
  match n with
  | Draw p => HD p
  | Grp iso o ch =>
    HG iso o ch ((fix go (l : list node) : Forall P l :=
                    match l with
                    | [] => Forall_nil P
                    | c :: r => Forall_cons c (node_ind2 P HD HG c) (go r)
                    end) ch)
  end.

Lemma render_grp iso o ch bg :
  render (Grp iso o ch) bg = if iso then over (scale o (render_list ch clear)) bg else render_list ch bg.
Proof. reflexivity. Qed.

Lemma render_list_layer ch :
  Forall (fun c => forall bg, peq (render c bg) (over (render c clear) bg)) ch ->
  forall bg, peq (render_list ch bg) (over (render_list ch clear) bg).
Proof.
  induction 1 as [|c r Hc Hr IH]; intro bg; simpl.
  - symmetry. apply over_clear_l.
  - rewrite (IH (render c bg)). rewrite (IH (render c clear)).
    rewrite (Hc bg). rewrite <- over_assoc. reflexivity.
Qed.

Lemma render_layer n : forall bg, peq (render n bg) (over (render n clear) bg).
Proof.
  induction n as [p | iso o ch IH] using node_ind2; intro bg.
  - simpl. rewrite over_clear_r. reflexivity.
  - rewrite !render_grp. destruct iso.
    + rewrite over_clear_r. reflexivity.
    + apply render_list_layer. exact IH.
Qed.

Lemma render_list_layer' ch bg : peq (render_list ch bg) (over (render_list ch clear) bg).
Proof. apply render_list_layer. apply Forall_forall. intros c _. apply render_layer. Qed.

(* an isolated opacity-1 group renders like the same group drawn directly *)
Lemma isolate_invisible o ch bg : o == 1 ->
  peq (render (Grp true o ch) bg) (render (Grp false o ch) bg).
Proof.
  intro H. rewrite !render_grp. rewrite (scale_one' _ _ H). symmetry. apply render_list_layer'.
Qed.

Lemma render_proper n : forall bg bg', peq bg bg' -> peq (render n bg) (render n bg').
Proof.
  intros bg bg' H. rewrite (render_layer n bg), (render_layer n bg'). rewrite H. reflexivity.
Qed.
Lemma render_list_proper ch : forall bg bg', peq bg bg' -> peq (render_list ch bg) (render_list ch bg').
Proof.
  intros bg bg' H. rewrite (render_list_layer' ch bg), (render_list_layer' ch bg'). rewrite H. reflexivity.
Qed.

Lemma reflag_grp f d iso o ch :
  reflag f d (Grp iso o ch) = Grp (if Qeqb o 1 then f d else iso) o (map (reflag f (S d)) ch).
Proof.
  reflexivity.
Qed.

Lemma reflag_list f d ch :
  Forall (fun c => forall d bg bg', peq bg bg' -> peq (render (reflag f d c) bg) (render c bg')) ch ->
  forall bg bg', peq bg bg' ->
  peq (render_list (map (reflag f d) ch) bg) (render_list ch bg').
Proof.
  induction 1 as [|c r Hc Hr IH]; intros bg bg' H; simpl.
  - exact H.
  - apply IH. apply Hc. exact H.
Qed.

(* changing the isolation flag of any set of opacity-1 groups, at any depth, never changes the pixel *)
Lemma reflag_invisible f n : forall d bg bg', peq bg bg' -> peq (render (reflag f d n) bg) (render n bg').
Proof.
  induction n as [p | iso o ch IH] using node_ind2; intros d bg bg' H.
  - simpl. rewrite H. reflexivity.
  - rewrite reflag_grp.
    assert (L : forall a a', peq a a' ->
                peq (render_list (map (reflag f (S d)) ch) a) (render_list ch a')).
    { intros a a' Ha. apply reflag_list; assumption. }
    destruct (Qeqb o 1) eqn:E.
    + apply Qeqb_true in E.
      assert (A : forall b1, peq (render (Grp b1 o (map (reflag f (S d)) ch)) bg)
                                 (render_list ch bg')).
      { intro b1. destruct b1.
        - rewrite (isolate_invisible _ _ _ E). rewrite render_grp. apply L. exact H.
        - rewrite render_grp. apply L. exact H. }
      assert (B : forall b2, peq (render (Grp b2 o ch) bg') (render_list ch bg')).
      { intro b2. destruct b2.
        - rewrite (isolate_invisible _ _ _ E). rewrite render_grp. reflexivity.
        - rewrite render_grp. reflexivity. }
      rewrite (A (f d)), (B iso). reflexivity.
    + rewrite !render_grp. destruct iso.
      * rewrite (L clear clear (peq_refl _)). rewrite H. reflexivity.
      * apply L. exact H.
Qed.

Lemma flags_irrelevant f g n bg : peq (render (reflag f 0 n) bg) (render (reflag g 0 n) bg).
Proof.
  transitivity (render n bg).
  - apply reflag_invisible. reflexivity.
  - symmetry. apply reflag_invisible. reflexivity.
Qed.

(* ---------------------------------------------------------------- opacity *)
Lemma opacity_nested a b ch bg :
  peq (render (Grp true a [Grp true b ch]) bg) (render (Grp true (a * b) ch) bg).
Proof.
  rewrite !render_grp.
  change (render_list [Grp true b ch] clear) with (render (Grp true b ch) clear). rewrite render_grp.
  rewrite over_clear_r. rewrite scale_mul. reflexivity.
Qed.
Lemma opacity_zero ch bg : peq (render (Grp true 0 ch) bg) bg.
Proof. rewrite render_grp. rewrite scale_zero. apply over_clear_l. Qed.
Lemma opacity_one ch bg : peq (render (Grp true 1 ch) bg) (render (Grp false 1 ch) bg).
Proof. apply isolate_invisible. reflexivity. Qed.
(* alpha of an isolated group over a transparent background scales linearly with its opacity *)
Lemma opacity_alpha_ratio o ch :
  pa (render (Grp true o ch) clear) == o * pa (render (Grp false 1 ch) clear).
Proof. rewrite !render_grp. unfold over, scale, clear; simpl. ring. Qed.
