From RV Require Import Gen.EnumTables.
From RV Require Import Gen.TextGuards.
From RV Require Import Model.TextGuards.
From Coq Require Import String List Bool.
Import ListNotations.

Lemma anchor_all_shapes_ok : chk_anchor_all_shapes = true.
Proof. vm_compute. reflexivity. Qed.

Lemma all_shapes_complete : forall sh, In sh all_shapes.
Proof. intros [[] [] []]; vm_compute; auto 10. Qed.

Lemma all_TextAnchor_complete : forall v, In v all_TextAnchor.
Proof. intros []; vm_compute; auto. Qed.

Lemma anchor_eqb_eq a b : anchor_eqb a b = true -> a = b.
Proof. destruct a, b; simpl; intros H; try discriminate; reflexivity. Qed.

(* every chunk shape (with / without x, with / without y, on a path or not), every anchor: written or elided, the parser reads it back *)
Lemma text_anchor_roundtrip : forall sh v, anchor_read (anchor_written sh v) = Some v.
Proof.
  intros sh v. pose proof anchor_all_shapes_ok as H. unfold chk_anchor_all_shapes in H.
  rewrite forallb_forall in H. specialize (H sh (all_shapes_complete sh)).
  rewrite forallb_forall in H. specialize (H v (all_TextAnchor_complete v)).
  destruct (anchor_read (anchor_written sh v)) as [v'|]; [|discriminate]. apply anchor_eqb_eq in H. now subst.
Qed.

Lemma no_foreign_guards : forall a gs, In (a, gs) guard_sites -> gs = [].
Proof.
  assert (H : chk_no_foreign_guards = true) by (vm_compute; reflexivity).
  unfold chk_no_foreign_guards in H. rewrite forallb_forall in H.
  intros a gs HI. specialize (H _ HI). simpl in H. destruct gs; [reflexivity|discriminate].
Qed.
