(* Validity of whole filter chains (extension round 4): for EVERY list of the wired primitive kinds
   (zero offset / zero blur, colour matrix, component transfer, merge, arithmetic composite, over composite / normal blend,
   1x1 convolve matrix), every parameter value, every wiring (named results, shadowed names, unknown references, SourceAlpha)
   and every color-interpolation-filters assignment, every stored result and the final sRGB result are byte-valued valid
   premultiplied pixels - including the into_srgb / into_linear_rgb conversions filter/mod.rs performs on demand between
   primitives.  Induction over the chain; the per-primitive facts are the sweeps / rounding-monotonicity theorems. *)
From RV Require Import Model.F32.
From RV Require Import Gen.PixelTables.
From RV Require Import Model.Pixel.
From RV Require Import Model.FilterWire.
From RV Require Import Proofs.PixelBase.
From RV Require Import Proofs.PixelValid.
From RV Require Import Proofs.PixelArith.
From RV Require Import Proofs.PixelConvolve.
From RV Require Import Proofs.FilterWire.
Local Open Scope Z_scope.

Definition px_ok (p : px) : Prop := byte_px p /\ valid_px p.
Definition img_ok (v : img) : Prop := px_ok (fst v).
Definition results_ok (results : list (N * img)) : Prop := Forall (fun nv => img_ok (snd nv)) results.

Lemma px0_ok : px_ok px0.
Proof. unfold px_ok, byte_px, valid_px, is_byte, px0; cbn; lia. Qed.

(* tiny-skia SourceOver (validated exhaustively against the crate): nearest integer of v / 255 is monotone *)
Lemma round_div255_mono : forall u v, u <= v -> round_div255 u <= round_div255 v.
Proof. intros. unfold round_div255. apply Z.div_le_mono; lia. Qed.
Lemma round_div255_mul : forall k, round_div255 (255 * k) = k.
Proof.
  intro k. unfold round_div255. replace (2 * (255 * k) + 255) with (k * 510 + 255) by lia.
  rewrite Z.div_add_l by lia. change (255 / 510) with 0. lia.
Qed.
Lemma round_div255_nonneg : forall v, 0 <= v -> 0 <= round_div255 v.
Proof. intros. unfold round_div255. apply Z.div_pos; lia. Qed.

Lemma over_px_ok : forall s d, px_ok s -> px_ok d -> px_ok (over_px s d).
Proof.
  intros s d [(Sr & Sg & Sb & Sa) (Vr & Vg & Vb)] [(Dr & Dg & Db & Da) (Wr & Wg & Wb)].
  unfold is_byte in *.
  assert (A : pa s + round_div255 (pa d * (255 - pa s)) <= 255).
  { assert (round_div255 (pa d * (255 - pa s)) <= round_div255 (255 * (255 - pa s))) by (apply round_div255_mono; nia).
    rewrite round_div255_mul in H. lia. }
  assert (M : forall c, 0 <= c -> c <= pa d -> 0 <= round_div255 (c * (255 - pa s)) <= round_div255 (pa d * (255 - pa s))).
  { intros c C0 C1. split; [apply round_div255_nonneg; nia|apply round_div255_mono; nia]. }
  pose proof (M (pr d) (proj1 Dr) Wr). pose proof (M (pg d) (proj1 Dg) Wg). pose proof (M (pb d) (proj1 Db) Wb).
  pose proof (M (pa d) (proj1 Da) (Z.le_refl _)).
  unfold px_ok, byte_px, valid_px, over_px, over_u8, is_byte. cbn [pr pg pb pa]. lia.
Qed.

Lemma into_cs_ok : forall c v, img_ok v -> px_ok (into_cs c v).
Proof.
  intros c [p t] [B V]. unfold into_cs. cbn [fst snd] in *.
  destruct (cs_eqb c t); [split; assumption|].
  destruct c; [destruct (into_srgb_valid p B)|destruct (into_linear_valid p B)]; split; assumption.
Qed.

Lemma find_last_ok : forall results name acc, results_ok results ->
  match acc with Some v => img_ok v | None => True end ->
  match find_last results name acc with Some v => img_ok v | None => True end.
Proof.
  induction results as [|[n v] r IH]; intros name acc H Hacc; cbn [find_last]; [exact Hacc|].
  inversion H as [|x l Hv Hr]; subst. apply IH; [exact Hr|]. destruct (N.eqb n name); [exact Hv|exact Hacc].
Qed.

Lemma get_input_ok : forall src results i, px_ok src -> results_ok results -> img_ok (get_input src results i).
Proof.
  intros src results i Hs Hr. destruct i as [| |n]; cbn [get_input].
  - exact Hs.
  - destruct Hs as [(Sr & Sg & Sb & Sa) _]. unfold img_ok, px_ok, byte_px, valid_px, is_byte in *. cbn [fst pr pg pb pa]. lia.
  - pose proof (find_last_ok results n None Hr I) as H. destruct (find_last results n None); [exact H|exact Hs].
Qed.

Lemma px_arithmetic_byte : forall k1 k2 k3 k4 p1 p2, byte_px (px_arithmetic k1 k2 k3 k4 p1 p2).
Proof.
  intros. unfold px_arithmetic. destruct (approx_zero4 _); [apply px0_ok|].
  unfold byte_px. cbn [pr pg pb pa]. repeat split; try apply ar_store_c_byte; apply ar_store_a_byte.
Qed.

(* one primitive: valid inputs (source and earlier results) give a valid result, whatever the parameters *)
Lemma run_prim_ok : forall src results p, px_ok src -> results_ok results -> img_ok (run_prim src results p).
Proof.
  intros src results p Hs Hr. unfold run_prim.
  assert (G : forall i, px_ok (into_cs (w_cs p) (get_input src results i))) by (intro i; apply into_cs_ok, get_input_ok; assumption).
  destruct (w_kind p) as [i|k i|fs i|is|k1 k2 k3 k4 i1 i2|i1 i2|pv d b k i]; unfold img_ok; cbn [fst].
  - apply get_input_ok; assumption.
  - destruct (color_matrix_valid k _ (proj1 (G i))). split; assumption.
  - destruct (component_transfer_valid fs _ (proj1 (G i))). split; assumption.
  - assert (F : forall acc, px_ok acc ->
        px_ok (fold_left (fun acc i => over_px (into_cs (w_cs p) (get_input src results i)) acc) is acc)).
    { induction is as [|i r IH]; intros acc Ha; cbn [fold_left]; [exact Ha|]. apply IH. apply over_px_ok; [apply G|exact Ha]. }
    apply F, px0_ok.
  - split; [apply px_arithmetic_byte|apply arithmetic_valid].
  - apply over_px_ok; [apply G|]. apply over_px_ok; [apply G|apply px0_ok].
  - destruct (convolve_uniform_valid pv d b [k] (into_cs (w_cs p) (get_input src results i))). split; assumption.
Qed.

Lemma run_prims_ok : forall src ps results, px_ok src -> results_ok results -> results_ok (run_prims src results ps).
Proof.
  intros src ps. induction ps as [|p r IH]; intros results Hs Hr; cbn [run_prims]; [exact Hr|].
  apply IH; [exact Hs|]. unfold results_ok. apply Forall_app. split; [exact Hr|].
  constructor; [|constructor]. cbn [snd]. apply run_prim_ok; assumption.
Qed.

(* arbitrary chains: every intermediate result and the final picture are valid premultiplied byte pixels *)
Theorem chain_valid : forall ps src, byte_px src -> valid_px src ->
  Forall (fun nv => byte_px (fst (snd nv)) /\ valid_px (fst (snd nv))) (run_prims src [] ps) /\
  byte_px (run_filter ps src) /\ valid_px (run_filter ps src).
Proof.
  intros ps src B V.
  assert (R : results_ok (run_prims src [] ps)) by (apply run_prims_ok; [split; assumption|constructor]).
  split; [exact R|]. unfold run_filter.
  destruct (rev (run_prims src [] ps)) as [|[n v] r] eqn:E; [apply px0_ok|].
  apply into_cs_ok. unfold results_ok in R. rewrite Forall_forall in R.
  apply (R (n, v)). apply in_rev. rewrite E. left. reflexivity.
Qed.
