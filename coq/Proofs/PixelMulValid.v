(* Exhaustive sweep 1 (65 536 byte pairs, exact binary32): multiply_alpha never produces a colour
   channel above alpha.  Stated over the source-derived multiply_alpha_a / multiply_alpha_ch. *)
From RV Require Import Model.F32.
From RV Require Import Gen.PixelTables.
From RV Require Import Model.Pixel.
From RV Require Import Proofs.PixelBase.
Local Open Scope Z_scope.

Lemma mul_valid_sweep_true :
  sweep_let multiply_alpha_a (fun c a fa => multiply_alpha_ch c fa <=? a) = true.
Proof. vm_compute. reflexivity. Qed.

Lemma mul_alpha_le_alpha : forall c a, is_byte c -> is_byte a -> mul_alpha c a <= a.
Proof.
  intros c a Hc Ha.
  pose proof (sweep_let_spec _ _ mul_valid_sweep_true c a Hc Ha) as H.
  cbv beta in H. apply Z.leb_le in H. unfold mul_alpha. exact H.
Qed.

(* opaque and transparent alpha: multiply is the identity on colour / yields zero *)
Lemma mul_alpha_opaque : forall c, is_byte c -> mul_alpha c 255 = c.
Proof.
  intros c Hc.
  assert (H : forallb (fun c => mul_alpha c 255 =? c) bytes = true) by (vm_compute; reflexivity).
  apply Z.eqb_eq. exact (sweep1 _ H c Hc).
Qed.
Lemma mul_alpha_transparent : forall c, is_byte c -> mul_alpha c 0 = 0.
Proof.
  intros c Hc.
  assert (H : forallb (fun c => mul_alpha c 0 =? 0) bytes = true) by (vm_compute; reflexivity).
  apply Z.eqb_eq. exact (sweep1 _ H c Hc).
Qed.
