(* C06: lemmas about the hash-container model, the generated-id counters and Arc::make_mut. *)
From Coq Require Import List Bool Arith PeanoNat Permutation Lia.
Import ListNotations.
From RV Require Import Model.HashModel.

Section HashProofs.
  Variables K V : Type.
  Variable keqb : K -> K -> bool.
  Hypothesis keqb_spec : forall a b, keqb a b = true <-> a = b.

  Notation store := (store K V).
  Notation lookup := (lookup K V keqb).
  Notation remove_key := (remove_key K V keqb).
  Notation step := (step K V keqb).
  Notation run := (run K V keqb).

  Definition keys (s : store) : list K := map fst s.
  (* the oracle may do anything to the physical order, but it cannot add, drop or change entries *)
  Definition oracle_ok (p : oracle K V) : Prop := forall n s, Permutation (p n s) s.

  Lemma keqb_false a b : keqb a b = false <-> a <> b.
  Proof.
    split; intro H.
    - intro E. apply keqb_spec in E. congruence.
    - destruct (keqb a b) eqn:E; auto. apply keqb_spec in E. contradiction.
  Qed.

  Lemma lookup_none k s : lookup k s = None <-> ~ In k (keys s).
  Proof.
    induction s as [|[k' v] r IH]; simpl.
    - split; auto.
    - destruct (keqb k k') eqn:E.
      + apply keqb_spec in E. subst. split; [discriminate | intro H; exfalso; apply H; auto].
      + apply keqb_false in E. rewrite IH. split; intro H.
        * intros [H1|H1]; [congruence | auto].
        * intro H1. apply H. auto.
  Qed.

  Lemma lookup_some k v s : NoDup (keys s) -> (lookup k s = Some v <-> In (k, v) s).
  Proof.
    induction s as [|[k' v'] r IH]; simpl; intro ND.
    - split; [discriminate | tauto].
    - inversion ND as [|x l Hnin ND']; subst. destruct (keqb k k') eqn:E.
      + apply keqb_spec in E. subst k'. split.
        * intro H; inversion H; auto.
        * intros [H|H]. { inversion H; auto. }
          exfalso. apply Hnin. change k with (fst (k, v)). apply in_map. exact H.
      + apply keqb_false in E. rewrite (IH ND'). split; [auto|].
        intros [H|H]; [inversion H; congruence | exact H].
  Qed.

  Lemma keys_perm s1 s2 : Permutation s1 s2 -> Permutation (keys s1) (keys s2).
  Proof. apply Permutation_map. Qed.

  Lemma lookup_perm k s1 s2 : NoDup (keys s1) -> Permutation s1 s2 -> lookup k s1 = lookup k s2.
  Proof.
    intros ND P.
    assert (ND2 : NoDup (keys s2)) by (eapply Permutation_NoDup; [apply keys_perm; exact P | exact ND]).
    destruct (lookup k s1) as [v|] eqn:E.
    - apply (lookup_some k v s1 ND) in E. symmetry. apply (lookup_some k v s2 ND2).
      eapply Permutation_in; eauto.
    - apply lookup_none in E. symmetry. apply lookup_none. intro H. apply E.
      eapply Permutation_in; [apply Permutation_sym, keys_perm; exact P | exact H].
  Qed.

  Lemma filter_perm (A : Type) (f : A -> bool) l1 l2 :
    Permutation l1 l2 -> Permutation (filter f l1) (filter f l2).
  Proof.
    induction 1; simpl.
    - constructor.
    - destruct (f x); auto.
    - destruct (f x), (f y); try apply perm_swap; apply Permutation_refl.
    - eapply Permutation_trans; eauto.
  Qed.

  Lemma remove_key_keys_in k k' s : In k' (keys (remove_key k s)) -> In k' (keys s) /\ k' <> k.
  Proof.
    unfold keys, HashModel.remove_key. intro H. apply in_map_iff in H.
    destruct H as [[a b] [E H]]. simpl in E; subst. apply filter_In in H. destruct H as [H1 H2].
    simpl in H2. apply negb_true_iff in H2. apply keqb_false in H2. split.
    - change k' with (fst (k', b)). apply in_map. exact H1.
    - congruence.
  Qed.

  Lemma remove_key_nodup k s : NoDup (keys s) -> NoDup (keys (remove_key k s)).
  Proof.
    induction s as [|[a b] r IH]; simpl; intro ND.
    - constructor.
    - inversion ND; subst. destruct (negb (keqb k a)) eqn:E; simpl.
      + constructor; [|auto]. intro H. apply remove_key_keys_in in H. tauto.
      + auto.
  Qed.

  Lemma step_rel o s1 s2 :
    lookup_only K V o = true -> Permutation s1 s2 -> NoDup (keys s1) ->
    snd (step o s1) = snd (step o s2) /\
    Permutation (fst (step o s1)) (fst (step o s2)) /\
    NoDup (keys (fst (step o s1))).
  Proof.
    intros Hl P ND. destruct o; simpl in *; try discriminate.
    - rewrite (lookup_perm k s1 s2 ND P). split; [reflexivity|]. split.
      + apply perm_skip. apply filter_perm. exact P.
      + constructor.
        * intro H. apply remove_key_keys_in in H. tauto.
        * apply remove_key_nodup. exact ND.
    - rewrite (lookup_perm k s1 s2 ND P). auto.
    - rewrite (lookup_perm k s1 s2 ND P). auto.
    - rewrite (lookup_perm k s1 s2 ND P). split; [reflexivity|]. split.
      + apply filter_perm. exact P.
      + apply remove_key_nodup. exact ND.
    - split; [reflexivity|]. split; constructor.
    - rewrite (Permutation_length P). auto.
  Qed.

  (* Two executions of the same lookup-only program whose storages are rearranged by two different
     (arbitrary) oracles, started from equivalent stores, produce the same observations. *)
  Theorem order_oblivious_gen p1 p2 :
    oracle_ok p1 -> oracle_ok p2 ->
    forall prog, forallb (lookup_only K V) prog = true ->
    forall n1 n2 s1 s2, Permutation s1 s2 -> NoDup (keys s1) ->
    run p1 n1 prog s1 = run p2 n2 prog s2.
  Proof.
    intros O1 O2. induction prog as [|o r IH]; simpl; intros Hl n1 n2 s1 s2 P ND.
    - reflexivity.
    - apply andb_true_iff in Hl. destruct Hl as [Ho Hr].
      assert (P' : Permutation (p1 n1 s1) (p2 n2 s2)).
      { eapply Permutation_trans; [apply O1|]. eapply Permutation_trans; [exact P|].
        apply Permutation_sym, O2. }
      assert (ND' : NoDup (keys (p1 n1 s1))).
      { eapply Permutation_NoDup; [|exact ND]. apply Permutation_sym. apply keys_perm. apply O1. }
      destruct (step_rel o _ _ Ho P' ND') as [E [P2 ND2]].
      destruct (step o (p1 n1 s1)) as [s1' ob1]. destruct (step o (p2 n2 s2)) as [s2' ob2].
      simpl in *. subst. f_equal. apply IH; auto.
  Qed.

  Theorem order_oblivious p1 p2 :
    oracle_ok p1 -> oracle_ok p2 ->
    forall prog, forallb (lookup_only K V) prog = true ->
    run p1 0 prog [] = run p2 0 prog [].
  Proof.
    intros O1 O2 prog Hl. apply order_oblivious_gen; auto. constructor.
  Qed.

  (* in particular every execution agrees with the reference semantics that never rearranges *)
  Corollary order_oblivious_ref p :
    oracle_ok p -> forall prog, forallb (lookup_only K V) prog = true ->
    run p 0 prog [] = run (fun _ s => s) 0 prog [].
  Proof.
    intros O prog Hl. apply order_oblivious; auto. intros n s. apply Permutation_refl.
  Qed.
End HashProofs.

(* Non-vacuity: with iteration the order IS observable, so the restriction to the lookup interface is what
   carries the theorem. *)
Definition rev_oracle : oracle nat nat := fun _ s => rev s.
Definition id_oracle : oracle nat nat := fun _ s => s.
Lemma rev_oracle_ok : oracle_ok nat nat rev_oracle.
Proof. intros n s. apply Permutation_sym, Permutation_rev. Qed.
Lemma id_oracle_ok : oracle_ok nat nat id_oracle.
Proof. intros n s. apply Permutation_refl. Qed.
Definition iter_prog : list (op nat nat) := [Insert 1 10; Insert 2 20; Iter].
Lemma iteration_observes_order :
  exists p1 p2, oracle_ok nat nat p1 /\ oracle_ok nat nat p2 /\
    run nat nat Nat.eqb p1 0 iter_prog [] <> run nat nat Nat.eqb p2 0 iter_prog [].
Proof.
  exists id_oracle, rev_oracle. split; [apply id_oracle_ok|]. split; [apply rev_oracle_ok|].
  vm_compute. discriminate.
Qed.
Definition lookup_prog : list (op nat nat) :=
  [Insert 1 10; Insert 2 20; Insert 1 11; Get 1; Contains 3; Remove 2; Len; Get 2; Clear; Len].
Lemma lookup_prog_example :
  run nat nat Nat.eqb rev_oracle 0 lookup_prog [] =
  [OVal None; OVal None; OVal (Some 10); OVal (Some 11); OBool false; OVal (Some 20); ONat 1; OVal None; OUnit; ONat 0].
Proof. vm_compute. reflexivity. Qed.

(* ------------------------------------------------------------------------------------------------ *)
Section GenProofs.
  Variable kind : Type.
  Variable kind_eqb : kind -> kind -> bool.
  Hypothesis kind_eqb_spec : forall a b, kind_eqb a b = true <-> a = b.
  Variable H : Type.
  Variable heqb : H -> H -> bool.
  Variable idhash : kind -> nat -> H.

  Notation mem := (mem H heqb).
  Notation gen_loop := (gen_loop kind H idhash).
  Notation gen := (gen kind kind_eqb H idhash).
  Notation gen_run := (gen_run kind kind_eqb H idhash).
  Notation upd := (upd kind kind_eqb).

  Lemma mem_perm s1 s2 : Permutation s1 s2 -> forall h, mem s1 h = mem s2 h.
  Proof.
    induction 1; intro h; simpl; auto.
    - rewrite IHPermutation. reflexivity.
    - destruct (heqb h x), (heqb h y); reflexivity.
    - rewrite IHPermutation1. apply IHPermutation2.
  Qed.

  Lemma gen_loop_ext t1 t2 : (forall h, t1 h = t2 h) ->
    forall fuel k c, gen_loop t1 fuel k c = gen_loop t2 fuel k c.
  Proof.
    intros E. induction fuel as [|f IH]; intros k c; simpl; auto.
    rewrite E. destruct (t2 (idhash k (S c))); auto.
  Qed.

  Lemma gen_run_ext t1 t2 : (forall h, t1 h = t2 h) ->
    forall fuel calls c, gen_run t1 fuel calls c = gen_run t2 fuel calls c.
  Proof.
    intros E fuel. induction calls as [|k r IH]; intro c; simpl; auto.
    unfold HashModel.gen. rewrite (gen_loop_ext t1 t2 E).
    destruct (gen_loop t2 fuel k (c k)); rewrite IH; reflexivity.
  Qed.

  (* The generated ids do not depend on the physical order of the `all_ids` hash set (seed, insertion
     order of the document's ids): only on its contents and on the sequence of gen_* calls. *)
  Theorem ids_storage_independent s1 s2 : Permutation s1 s2 ->
    forall fuel calls c, gen_run (mem s1) fuel calls c = gen_run (mem s2) fuel calls c.
  Proof. intros P. apply gen_run_ext. apply mem_perm. exact P. Qed.

  (* gen returns the smallest number above the counter whose id is free *)
  Lemma gen_loop_spec taken fuel k : forall c n, gen_loop taken fuel k c = Some n ->
    c < n /\ taken (idhash k n) = false /\ (forall m, c < m < n -> taken (idhash k m) = true).
  Proof.
    induction fuel as [|f IH]; intros c n; simpl; [discriminate|].
    destruct (taken (idhash k (S c))) eqn:T.
    - intro E. apply IH in E. destruct E as [E1 [E2 E3]]. split; [lia|]. split; [exact E2|].
      intros m Hm. destruct (Nat.eq_dec m (S c)) as [->|Hne]; [exact T|]. apply E3. lia.
    - intro E. inversion E; subst. split; [lia|]. split; [exact T|]. intros m Hm. lia.
  Qed.

  Lemma kind_eqb_false a b : kind_eqb a b = false <-> a <> b.
  Proof.
    split; intro E.
    - intro X. apply kind_eqb_spec in X. congruence.
    - destruct (kind_eqb a b) eqn:Y; auto. apply kind_eqb_spec in Y. contradiction.
  Qed.

  Definition ids_of (k : kind) (l : list (option (kind * nat))) : list (option (kind * nat)) :=
    filter (fun o => match o with Some (k', _) => kind_eqb k' k | None => false end) l.

  (* The ids of one kind are a function of the calls of that kind alone: the seven counters do not
     interfere (each gen function touches its own counter - see gf_counter in Gen/C06Sites.v). *)
  Theorem gen_kinds_independent taken fuel k : forall calls c c', c k = c' k ->
    ids_of k (gen_run taken fuel calls c) =
    ids_of k (gen_run taken fuel (filter (fun k' => kind_eqb k' k) calls) c').
  Proof.
    induction calls as [|k0 r IH]; intros c c' E; simpl; auto.
    destruct (kind_eqb k0 k) eqn:K.
    - apply kind_eqb_spec in K. subst k0. simpl. unfold HashModel.gen. rewrite E.
      destruct (gen_loop taken fuel k (c' k)) as [n|]; simpl.
      + assert (X : kind_eqb k k = true) by (apply kind_eqb_spec; reflexivity). rewrite X.
        f_equal. apply IH. unfold HashModel.upd. rewrite X. reflexivity.
      + apply IH. exact E.
    - unfold HashModel.gen. destruct (gen_loop taken fuel k0 (c k0)) as [n|]; simpl.
      + rewrite K. apply IH. unfold HashModel.upd.
        assert (X : kind_eqb k k0 = false).
        { apply kind_eqb_false. apply kind_eqb_false in K. congruence. }
        rewrite X. exact E.
      + apply IH. exact E.
  Qed.

  (* successive ids of one kind are strictly increasing, hence pairwise distinct *)
  Lemma gen_counter_monotone taken fuel k c : forall c' id, gen taken fuel k c = (c', Some id) ->
    fst id = k /\ c k < snd id /\ c' k = snd id /\ taken (idhash k (snd id)) = false.
  Proof.
    intros c' id. unfold HashModel.gen. destruct (gen_loop taken fuel k (c k)) as [n|] eqn:E; [|discriminate].
    intro X. inversion X; subst. simpl. apply gen_loop_spec in E. destruct E as [E1 [E2 _]].
    split; [reflexivity|]. split; [exact E1|]. split; [|exact E2].
    unfold HashModel.upd. assert (Y : kind_eqb k k = true) by (apply kind_eqb_spec; reflexivity).
    rewrite Y. reflexivity.
  Qed.
End GenProofs.

(* ------------------------------------------------------------------------------------------------ *)
Section ArcProofs.
  Variable D : Type.
  Notation world := (world D).

  Lemma nth_error_set_nth_other l : forall i j x, i <> j -> nth_error (set_nth l i x) j = nth_error l j.
  Proof.
    induction l as [|y r IH]; intros i j x Hne; simpl.
    - reflexivity.
    - destruct i, j; simpl; try reflexivity; try congruence. apply IH. congruence.
  Qed.

  Lemma count_one (l : list nat) : forall i c, nth_error l i = Some c -> 1 <= count_occ Nat.eq_dec l c.
  Proof.
    induction l as [|y r IH]; intros i c Hn; destruct i; simpl in *; try discriminate.
    - inversion Hn; subst. destruct (Nat.eq_dec c c); [lia|congruence].
    - apply IH in Hn. destruct (Nat.eq_dec y c); lia.
  Qed.

  Lemma count_two (l : list nat) : forall i j c, i <> j -> nth_error l i = Some c -> nth_error l j = Some c ->
    2 <= count_occ Nat.eq_dec l c.
  Proof.
    induction l as [|y r IH]; intros i j c Hne Hi Hj.
    - destruct i; discriminate.
    - destruct i, j; simpl in *; try congruence.
      + inversion Hi; subst. destruct (Nat.eq_dec c c); [|congruence]. apply count_one in Hj. lia.
      + inversion Hj; subst. destruct (Nat.eq_dec c c); [|congruence]. apply count_one in Hi. lia.
      + assert (Hne' : i <> j) by congruence.
        assert (2 <= count_occ Nat.eq_dec r c) by (eapply IH; eauto).
        destruct (Nat.eq_dec y c); lia.
  Qed.

  (* A parse that mutates "its" font database through Arc::make_mut never changes what any other
     holder of the shared Arc sees. *)
  Theorem make_mut_isolated (w : world) i j f :
    world_ok D w -> i <> j -> seen D (make_mut_apply D w i f) j = seen D w j.
  Proof.
    intros OK Hne. unfold make_mut_apply. destruct (nth_error (holders D w) i) as [c|] eqn:Hi; [|reflexivity].
    destruct (Nat.eqb (strong_count D w c) 1) eqn:Hc; unfold seen; simpl.
    - destruct (nth_error (holders D w) j) as [c'|] eqn:Hj; [|reflexivity].
      destruct (Nat.eqb c' c) eqn:Hcc; [|reflexivity]. apply Nat.eqb_eq in Hcc. subst c'.
      apply Nat.eqb_eq in Hc. unfold strong_count in Hc.
      pose proof (count_two (holders D w) i j c Hne Hi Hj). lia.
    - rewrite (nth_error_set_nth_other _ i j _ Hne).
      destruct (nth_error (holders D w) j) as [c'|] eqn:Hj; [|reflexivity].
      assert (c' < fresh D w). { apply OK. eapply nth_error_In; eauto. }
      destruct (Nat.eqb c' (fresh D w)) eqn:Hcc; [|reflexivity]. apply Nat.eqb_eq in Hcc. lia.
  Qed.

  Lemma in_set_nth l : forall i x c, In c (set_nth l i x) -> c = x \/ In c l.
  Proof.
    induction l as [|y r IH]; intros i x c Hin; simpl in *; [tauto|].
    destruct i; simpl in *.
    - destruct Hin; [left; congruence | right; right; assumption].
    - destruct Hin as [E|Hin]; [right; left; assumption|]. apply IH in Hin. tauto.
  Qed.

  Theorem make_mut_keeps_ok (w : world) i f : world_ok D w -> world_ok D (make_mut_apply D w i f).
  Proof.
    intros OK. unfold make_mut_apply. destruct (nth_error (holders D w) i) as [c|] eqn:Hi; [|exact OK].
    destruct (Nat.eqb (strong_count D w c) 1); unfold world_ok in *; simpl.
    - exact OK.
    - intros c' Hin. apply in_set_nth in Hin. destruct Hin as [->|Hin]; [lia|]. specialize (OK _ Hin). lia.
  Qed.

  (* and the caller does see its own mutation *)
  Theorem make_mut_applies (w : world) i c f : nth_error (holders D w) i = Some c ->
    seen D (make_mut_apply D w i f) i = Some (f (cells D w c)).
  Proof.
    intro Hi. unfold make_mut_apply. rewrite Hi.
    destruct (Nat.eqb (strong_count D w c) 1); unfold seen; simpl.
    - rewrite Hi. rewrite Nat.eqb_refl. reflexivity.
    - assert (X : nth_error (set_nth (holders D w) i (fresh D w)) i = Some (fresh D w)).
      { clear -Hi. revert i Hi. induction (holders D w) as [|y r IH]; intros i Hi; destruct i; simpl in *; try discriminate; auto. }
      rewrite X. rewrite Nat.eqb_refl. reflexivity.
  Qed.
End ArcProofs.
