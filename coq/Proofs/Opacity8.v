(* C14 (final pass): group opacity in bytes.  `opacity_u8 c o` (Model/ClipMask.v, C15's model, imported read-only) is what
   render_group's draw_pixmap with PixmapPaint { opacity: o, quality: Nearest } stores for a premultiplied source channel c over
   a transparent destination, in exact binary32 (tiny-skia highp: load c * (1/255), * o, source-over, round-to-nearest-even
   store); tied to the real crate by C15's complete 256 x 256 table (c15-table opacity) and to render_group by the layer paint
   literal (gen_filterpos.py `layer_paint`, C15's group_paint_is_opacity_nearest). *)
From RV Require Import Model.Base Model.F32 Model.Blend8 Model.ClipMask Proofs.ByteSweep Proofs.ClipNest.
Local Open Scope Z_scope.

(* a layer drawn with opacity 0 leaves nothing, with opacity 1 every byte as it is: all 256 bytes, from C15's complete sweep *)
Lemma opacity_zero_exact : forall c, is_byte c -> opacity_u8 c (opacity_of_byte 0) = 0.
Proof. intros c Hc. exact (proj1 (proj2 (opacity_u8_facts c 0 Hc ltac:(unfold is_byte; lia))) eq_refl). Qed.
Lemma opacity_one_exact : forall c, is_byte c -> opacity_u8 c (opacity_of_byte 255) = c.
Proof. intros c Hc. exact (proj1 (proj2 (proj2 (opacity_u8_facts c 255 Hc ltac:(unfold is_byte; lia)))) eq_refl). Qed.

(* nested groups with opacities a (inner) and b (outer), opacity bytes k / 255: the channel after two layers against one layer
   drawn with the f32 product of the two opacities *)
Definition nest_row (b a : Z) : f32 * f32 * f32 :=
  let oa := opacity_of_byte a in let ob := opacity_of_byte b in (oa, ob, fmul oa ob).
Definition nest_two (c : Z) (o : f32 * f32 * f32) : Z := opacity_u8 (opacity_u8 c (fst (fst o))) (snd (fst o)).
Definition nest_one (c : Z) (o : f32 * f32 * f32) : Z := opacity_u8 c (snd o).
Definition nest_chk (c a : Z) (o : f32 * f32 * f32) : bool := Z.abs (nest_two c o - nest_one c o) <=? 1.

Lemma nest_sweep_128 : sweep_rows (nest_row 128) nest_chk = true.
Proof. vm_compute. reflexivity. Qed.

Lemma opacity_u8_byte : forall c k, is_byte c -> is_byte k -> is_byte (opacity_u8 c (opacity_of_byte k)).
Proof.
  intros c k Hc Hk. pose proof (opacity_u8_facts c k Hc Hk) as H. cbv zeta in H. destruct H as [H _].
  unfold op_pair in H. cbn [fst] in H. unfold is_byte in *. lia.
Qed.

(* outer opacity 0 erases whatever the inner layer holds; outer opacity 1 passes the inner layer through unchanged *)
Lemma nested_outer_zero : forall c a, is_byte c -> is_byte a -> nest_two c (nest_row 0 a) = 0.
Proof. intros c a Hc Ha. unfold nest_two, nest_row; cbn [fst snd]. apply opacity_zero_exact, opacity_u8_byte; assumption. Qed.
Lemma nested_outer_one : forall c a, is_byte c -> is_byte a ->
  nest_two c (nest_row 255 a) = opacity_u8 c (opacity_of_byte a).
Proof. intros c a Hc Ha. unfold nest_two, nest_row; cbn [fst snd]. apply opacity_one_exact, opacity_u8_byte; assumption. Qed.

(* outer opacity 128/255 (the oracle's opmul modes use 0.5): all 65 536 (channel, inner opacity) pairs within one level *)
Lemma nested_opacity_128 : forall c a, is_byte c -> is_byte a ->
  Z.abs (nest_two c (nest_row 128 a) - nest_one c (nest_row 128 a)) <= 1.
Proof.
  intros c a Hc Ha. pose proof (sweep_rows_spec _ _ nest_sweep_128 c a Hc Ha) as H. unfold nest_chk in H.
  apply Z.leb_le in H. exact H.
Qed.
(* one level is really reached (outer opacity 2/255) *)
Lemma nested_opacity_attained : nest_two 64 (nest_row 2 254) = 1 /\ nest_one 64 (nest_row 2 254) = 0.
Proof. split; vm_compute; reflexivity. Qed.
