(* References resolve to the most recent result of that name; reading never modifies the results. *)
From RV Require Import Model.F32.
From RV Require Import Gen.PixelTables.
From RV Require Import Model.Pixel.
From RV Require Import Model.FilterWire.
Local Open Scope Z_scope.

Lemma find_last_app : forall r1 r2 name acc,
  find_last (r1 ++ r2) name acc = find_last r2 name (find_last r1 name acc).
Proof. induction r1 as [|[n v] r IH]; intros; cbn [app find_last]; [reflexivity|apply IH]. Qed.

(* the newest result of a name shadows every earlier one *)
Lemma find_last_newest : forall results name v, find_last (results ++ [(name, v)]) name None = Some v.
Proof. intros. rewrite find_last_app. cbn [find_last]. rewrite N.eqb_refl. reflexivity. Qed.

(* a result stored under another name does not affect the lookup *)
Lemma find_last_other : forall results name other v, other <> name ->
  find_last (results ++ [(other, v)]) name None = find_last results name None.
Proof.
  intros results name other v H. rewrite find_last_app. cbn [find_last].
  destruct (N.eqb_spec other name); [contradiction|reflexivity].
Qed.

Lemma run_prims_app : forall src ps results, exists added, run_prims src results ps = results ++ added.
Proof.
  intros src ps. induction ps as [|p r IH]; intros results; cbn [run_prims].
  - exists []. symmetry. apply app_nil_r.
  - destruct (IH (results ++ [(w_name p, run_prim src results p)])) as [a Ha].
    exists ((w_name p, run_prim src results p) :: a). rewrite Ha, <- app_assoc. reflexivity.
Qed.

(* results are only ever appended: what an earlier primitive stored is what every later reader finds, whatever
   read it in between and in whatever colour space *)
Lemma results_are_immutable : forall src ps results n v,
  nth_error results n = Some v -> nth_error (run_prims src results ps) n = Some v.
Proof.
  intros src ps results n v H. destruct (run_prims_app src ps results) as [a ->].
  rewrite nth_error_app1; [exact H|]. apply nth_error_Some. congruence.
Qed.

(* a zero offset of SourceGraphic stored under a name that an earlier primitive already used, then read back
   through a single merge in sRGB, is the source pixel *)
Lemma shadowed_name_reads_newest : forall src other name,
  byte_px src ->
  run_filter [ {| w_kind := WColorMatrix CMLuminanceToAlpha WSource; w_cs := CsSRGB; w_name := name |};
               {| w_kind := WOffset0 WSource; w_cs := CsSRGB; w_name := name |};
               {| w_kind := WMerge [WRef name]; w_cs := CsSRGB; w_name := other |} ] src = src.
Proof.
  intros [r g b a] other name _. unfold run_filter. cbn [run_prims run_prim w_kind w_cs w_name app].
  cbn [fold_left get_input find_last]. rewrite !N.eqb_refl.
  cbn [rev app into_cs snd fst cs_eqb].
  unfold over_px, over_u8, round_div255, px0. cbn [pr pg pb pa].
  rewrite !Z.mul_0_l. change ((2 * 0 + 255) / 510) with 0. rewrite !Z.add_0_r. reflexivity.
Qed.
