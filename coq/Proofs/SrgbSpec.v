(* Both lookup tables of filter/mod.rs are the correctly rounded sRGB transfer functions, entry by entry. *)
From RV Require Import Model.Base.
From RV Require Import Model.F32.
From RV Require Import Gen.PixelTables.
From RV Require Import Model.Pixel.
From RV Require Import Model.SrgbSpec.
From RV Require Import Proofs.PixelBase.

Lemma into_linear_table_is_srgb : forall c, is_byte c -> into_linear_ok c (lut_into_linear_ch c) = true.
Proof.
  assert (H : into_linear_spec_sweep = true) by (vm_compute; reflexivity).
  intros c Hc. exact (sweep1 _ H c Hc).
Qed.
Lemma from_linear_table_is_srgb : forall c, is_byte c -> from_linear_ok c (lut_from_linear_ch c) = true.
Proof.
  assert (H : from_linear_spec_sweep = true) by (vm_compute; reflexivity).
  intros c Hc. exact (sweep1 _ H c Hc).
Qed.
(* the specification is not vacuous: it pins the value *)
Lemma into_linear_spec_unique_example : into_linear_ok 128 55 = true /\ into_linear_ok 128 54 = false /\ into_linear_ok 128 56 = false.
Proof. vm_compute. repeat split; reflexivity. Qed.
